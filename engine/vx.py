"""vx — Verus engine: mechanical extraction of real functions from /repo + contracts -> one Verus file.

A *unit* is a python module /verif/contracts/<unit>/unit.py exposing

    PROPERTIES = ["C12", ...]
    def build(x: Extractor) -> list          # list of str (ghost/spec text) and Fragment (real code)

The runner wraps the pieces in `verus!{}`, runs `verus`, and classifies every diagnostic:
  * a failed proof obligation (postcondition / invariant / assertion / precondition of a callee /
    arithmetic overflow / termination) inside a function under contract  -> VIOLATION, named by the
    nearest `#obl:NAME` tag;
  * rlimit / timeout / unsupported construct / type error / lost anchor      -> UNDECIDED (exit 2).
"""
import importlib.util
import json
import os
import re
import subprocess
import time

from . import rsx
from .rsx import Fragment, ScanError, Source

REWRITE_CLASSES = {
    'V-ATTR': 'delete #[inline*], #[derive(..)], #[derivative(..)], #[allow(..)], #[must_use], #[cfg(feature = "timestamp")] (default feature, assumed ON)',
    'V-VIS': 'delete pub / pub(crate) / pub(super) visibility qualifiers (single-file crate)',
    'V-LOG': 'delete log::trace!/debug!/info!/warn! and tracing::* statements (no executable effect on the stream)',
    'V-DRAIN': 'statement `X.drain(..);` -> `X.clear();` (dropping a full-range Drain removes all elements)',
    'V-TRAIT': '`impl Trait for T` method extracted as an inherent method of T; associated types substituted',
    'V-MACRO': 'macro_rules! body instantiated by textual substitution of its metavariables (what rustc does)',
    'V-SPEC': 'ghost text inserted: requires/ensures after the signature, invariant/decreases on the n-th loop, proof blocks at statement anchors, result naming `-> (r: T)`',
    'V-SUBST': 'declared exact-text replacement (listed verbatim in the evidence)',
    'V-CLOSURE': 'a closure argument gets explicit parameter types, a named result and an ensures clause; its body text is kept byte for byte (Verus derives no postcondition for unannotated closures)',
    'V-ASSERT': '`assert!(E);` -> `{ let __c: bool = E; if !__c { rust_panic(); } }` (rust_panic requires false): the absence of the panic becomes an obligation',
    'V-BLOCK': 'a compound statement (loop / if / match) located by its header and extracted byte for byte; the unit wraps it in a function whose parameters are its free variables',
    'V-FNPTR': 'function-pointer parameter typed as `impl Fn + Copy`; constructor paths passed for it written as closures',
    'V-HOIST': 'function-local item declared outside the function, same text',
    'V-COMB': 'std combinator replaced by its definition',
    'V-PAT': '`Some(&x) => E` -> `Some(__p_x) => { let x = *__p_x; E }` (Verus has no ref patterns; E verbatim)',
    'V-ITER': 'declared desugaring of an iterator adapter / for-loop over a collection into an index loop (listed verbatim)',
}

STD_REWRITES = [
    ('V-ATTR', r'^[ \t]*#\[(?:inline(?:\([a-z]+\))?|derive\([^\]]*\)|derivative\([^\]]*\)|allow\([^\]]*\)|must_use|default|cfg\(feature = "timestamp"\))\][ \t]*\n', ''),
    ('V-LOG', r'^[ \t]*(?:log|tracing)::(?:trace|debug|info|warn|error)!\((?:[^()]|\((?:[^()]|\([^()]*\))*\))*\);[ \t]*\n', ''),
    ('V-VIS', r'\bpub(?:\((?:crate|super)\))?[ \t]+', ''),
]


class Extractor:
    def __init__(self, repo):
        self.repo = repo
        self._src = {}
        self.fragments = []

    def src(self, rel):
        if rel not in self._src:
            p = os.path.join(self.repo, rel)
            if not os.path.exists(p):
                raise ScanError(f"{rel}: file not found")
            with open(p) as f:
                self._src[rel] = Source(rel, f.read())
        return self._src[rel]

    def _frag(self, rel, s, e, what, std=True):
        text = self.src(rel).text[s:e]
        fr = Fragment(rel, text, what)
        fr.src_span = (s, e)
        fr.src_line = self.src(rel).text.count('\n', 0, s) + 1
        if std:
            for cls, rx, rep in STD_REWRITES:
                fr.sub(cls, rx, rep, detail=REWRITE_CLASSES[cls])
        self.fragments.append(fr)
        return fr

    def item(self, rel, kind, name):
        s, e = self.src(rel).top_item(kind, name)
        return self._frag(rel, s, e, f"{rel}:{kind} {name}")

    def struct(self, rel, name):
        return self.item(rel, 'struct', name)

    def enum(self, rel, name):
        return self.item(rel, 'enum', name)

    def top_fn(self, rel, name):
        s, _, e = self.src(rel).top_fn(name)
        return self._frag(rel, s, e, f"{rel}:fn {name}")

    def method(self, rel, ty, name, trait=None, wrap=None):
        """extract `fn name` from `impl [trait for] ty`.  The fragment is the bare fn; the caller wraps it
        in whatever `impl` header Verus needs (V-TRAIT when trait is not None)."""
        (s, _, e), blk = self.src(rel).method(ty, name, trait)
        fr = self._frag(rel, s, e, f"{rel}:{ty}::{name}" + (f" (impl {trait})" if trait else ''))
        fr.impl_header = blk[3]
        if trait:
            fr.note('V-TRAIT', 1, REWRITE_CLASSES['V-TRAIT'])
        return fr

    def stmt(self, rel, ty, name, header_regex, trait=None):
        """V-BLOCK: one compound statement (loop / if / match) of `fn name`, located by the regex of its header and
        extended to the matching closing brace, byte for byte.  The caller wraps it in a function whose parameters
        are the statement's free variables."""
        src = self.src(rel)
        (s, _, e), blk = src.method(ty, name, trait)
        mm = next(src.find_code(header_regex, s, e), None)
        if mm is None:
            raise ScanError(f"{rel}: statement `{header_regex}` not found in {ty}::{name}")
        ob = src.body_open(mm.start())
        if ob < 0:
            raise ScanError(f"{rel}: statement `{header_regex}` in {ty}::{name} has no body")
        ce = src.match_close(ob)
        fr = self._frag(rel, mm.start(), ce + 1, f"{rel}:{ty}::{name}/statement `{header_regex}`")
        fr.note('V-BLOCK', 1, 'compound statement extracted from the function body (byte for byte) and wrapped in a function whose parameters are its free variables')
        return fr

    def stmts(self, rel, ty, name, start_regex, end_regex, trait=None):
        """V-BLOCK: a run of consecutive statements of `fn name`, from the line matching start_regex up to (not including)
        the line matching end_regex, byte for byte.  The caller wraps it in a function whose parameters are the free
        variables of the run and whose result are the variables it defines that are used afterwards."""
        src = self.src(rel)
        (s, _, e), blk = src.method(ty, name, trait)
        m1 = next(src.find_code(start_regex, s, e), None) or next(re.compile(start_regex, re.M).finditer(src.text, s, e), None)
        if m1 is None:
            raise ScanError(f"{rel}: statement run start `{start_regex}` not found in {ty}::{name}")
        m2 = next(re.compile(end_regex, re.M).finditer(src.text, m1.end(), e), None)
        if m2 is None:
            raise ScanError(f"{rel}: statement run end `{end_regex}` not found in {ty}::{name}")
        a = src.text.rfind('\n', 0, m1.start()) + 1
        b = src.text.rfind('\n', 0, m2.start()) + 1
        fr = self._frag(rel, a, b, f"{rel}:{ty}::{name}/statements `{start_regex}` .. `{end_regex}`")
        fr.note('V-BLOCK', 1, 'run of consecutive statements extracted from the function body (byte for byte) and wrapped in a function of its free variables')
        return fr

    def impl_block(self, rel, ty, trait=None, nth=0):
        """whole `impl [trait for] ty { .. }` block (ty may be '=Exact<Type>' to match the full self type)."""
        blocks = self.src(rel).impl_blocks(ty, trait)
        if len(blocks) <= nth:
            raise ScanError(f"{rel}: impl {trait or ''} for {ty} not found")
        s, ob, e, hdr = blocks[nth]
        fr = self._frag(rel, s, e, f"{rel}:impl {trait + ' for ' if trait else ''}{ty.lstrip('=')}")
        fr.impl_header = hdr
        return fr

    def macro_instance(self, rel, name, subst, what):
        """V-MACRO: the body of the (single-arm) macro_rules! `name` with its metavariables substituted."""
        src = self.src(rel)
        s, ob, e = src.macro_rules(name)
        arm = src.text.find('=>', ob)
        bo = src.body_open(arm)
        bc = src.match_close(bo)
        body = src.text[bo + 1:bc]
        fr = Fragment(rel, body, f"{rel}:macro_rules! {name} instantiated {subst} ({what})")
        fr.src_span = (bo + 1, bc)
        fr.src_line = src.text.count('\n', 0, bo) + 1
        n = 0
        for k, v in subst.items():
            n += fr.text.count(k)
            fr.text = fr.text.replace(k, v)
        fr.note('V-MACRO', n, REWRITE_CLASSES['V-MACRO'] + f" {subst}")
        for cls, rx, rep in STD_REWRITES:
            fr.sub(cls, rx, rep, detail=REWRITE_CLASSES[cls])
        self.fragments.append(fr)
        return fr

    def macro_body(self, rel, name):
        s, ob, e = self.src(rel).macro_rules(name)
        return self._frag(rel, s, e, f"{rel}:macro_rules! {name}", std=False)


def load_unit(unit_dir):
    p = os.path.join(unit_dir, 'unit.py')
    spec = importlib.util.spec_from_file_location('unit_' + os.path.basename(unit_dir), p)
    mod = importlib.util.module_from_spec(spec)
    spec.loader.exec_module(mod)
    return mod


VIOLATION_MSGS = (
    'postcondition not satisfied', 'precondition not satisfied', 'assertion failed',
    'invariant not satisfied', 'possible arithmetic', 'possible division by zero',
    'decreases not satisfied', 'possible bit shift', 'unwrap', 'index out of bounds',
    'loop invariant', 'assertion not satisfied', 'could not prove termination',
    'failed this', 'call to non-terminating', 'may not terminate', 'post-condition', 'pre-condition',
)
UNDECIDED_MSGS = ('rlimit', 'resource limit', 'timed out', 'does not yet support', 'not supported',
                  'unsupported', 'cannot find', 'mismatched types', 'unresolved', 'internal error',
                  'expected ', 'no method named', 'the trait bound', 'panicked')


def assemble(pieces):
    head = "// GENERATED by /verif/engine/vx.py from /repo sources - do not edit\n" \
           "#![feature(allocator_api)]\n" \
           "#![allow(unused_imports, unused_variables, dead_code, unused_mut, unused_parens, unreachable_patterns, non_snake_case)]\n" \
           "use vstd::prelude::*;\n"
    lines_map = []  # (first_line, last_line, fragment)
    out = [head, "verus! {\n"]
    cur = ''.join(out).count('\n') + 1
    for p in pieces:
        if isinstance(p, Fragment):
            p.text = p.fmt(p.text)
            p.auto_annotate_pure_predicates()
            txt = p.text if p.text.endswith('\n') else p.text + '\n'
            n = txt.count('\n')
            lines_map.append((cur, cur + n - 1, p))
        else:
            txt = p if p.endswith('\n') else p + '\n'
            n = txt.count('\n')
        out.append(txt)
        cur += n
    out.append("} // verus!\nfn main() {}\n")
    return ''.join(out), lines_map


def find_obl(lines, line_no, line_end=None):
    """`#obl:NAME` tag inside the lines of the span (a clause may span several lines, tag at its end)."""
    if not line_no:
        return None
    for k in range(line_no, (line_end or line_no) + 1):
        if 0 <= k - 1 < len(lines):
            mm = re.search(r'#obl:([A-Za-z0-9_.\-]+)', lines[k - 1])
            if mm:
                return mm.group(1)
    return None


def in_proof_fn(lines, line_no):
    """is line_no inside (the signature/spec of) a `proof fn`?"""
    for k in range(line_no, 0, -1):
        mm = re.match(r'\s*(?:pub\s+)?((?:proof\s+|spec\s+|exec\s+|open\s+|closed\s+|broadcast\s+)*)fn\s+[A-Za-z0-9_]+', lines[k - 1])
        if mm:
            return 'proof' in mm.group(1)
    return False


def enclosing_fn(lines, line_no):
    """name of the function containing line_no; for a method of an `impl .. for Range<u8>` style block the
    self type is appended so instances of one generic method get distinct obligation names."""
    name = None
    for k in range(line_no, 0, -1):
        l = lines[k - 1]
        if name is None:
            mm = re.match(r'\s*(?:pub\s+)?(?:proof\s+|spec\s+|exec\s+|open\s+|closed\s+|broadcast\s+)*fn\s+([A-Za-z0-9_]+)', l)
            if mm:
                name = mm.group(1)
                if not l.startswith((' ', '\t')):
                    return name
        else:
            mi = re.match(r'\s*impl\b.*\bfor\s+([A-Za-z0-9_:]+<[A-Za-z0-9_]+>)\s*\{?\s*$', l)
            if mi:
                return f"{name}[{mi.group(1)}]"
            if re.match(r'(impl|fn|proof fn|spec fn|trait|struct|enum)\b', l):
                return name
    return name or '?'


def run_unit(unit_dir, repo, workdir, rlimit=None, extra_args=None, timeout=900):
    """run the unit; if the only thing in the way of a verdict is the solver's resource limit, retry once with 4x rlimit."""
    r = _run_unit(unit_dir, repo, workdir, rlimit=rlimit, extra_args=extra_args, timeout=timeout)
    if r['status'] == 'undecided' and 'rlimit' in r.get('reason', '').lower():
        # (a) the search for *further* errors after a first failing assertion is what usually exhausts the limit:
        #     ask for one error per query; (b) otherwise 4x the limit
        r1 = _run_unit(unit_dir, repo, workdir, rlimit=rlimit, extra_args=extra_args, timeout=timeout, multiple_errors=1)
        r1['time_s'] += r['time_s']
        r1['rlimit_retry'] = 'multiple-errors 1'
        if r1['status'] != 'undecided':
            return r1
        r2 = _run_unit(unit_dir, repo, workdir, rlimit=240, extra_args=extra_args, timeout=timeout)
        r2['time_s'] += r1['time_s']
        r2['rlimit_retry'] = 'rlimit 240'
        return r2
    return r


def _run_unit(unit_dir, repo, workdir, rlimit=None, extra_args=None, timeout=900, multiple_errors=8):
    """returns a result dict (see keys below)."""
    name = os.path.basename(unit_dir.rstrip('/'))
    res = {'unit': name, 'engine': 'verus', 'status': 'undecided', 'reason': '', 'obligations': 0,
           'discharged': 0, 'verified_fns': 0, 'failures': [], 'functions': [], 'rewrites': [],
           'assumptions': [], 'time_s': 0.0, 'smt_time_s': 0.0, 'file': None, 'named_obligations': []}
    t0 = time.time()
    try:
        mod = load_unit(unit_dir)
        x = Extractor(repo)
        pieces = mod.build(x)
        text, lmap = assemble(pieces)
    except ScanError as e:
        res['reason'] = f"extraction failed: {e}"
        res['time_s'] = time.time() - t0
        return res
    except Exception as e:   # any other failure of a unit's extraction script is a limit of the machinery: undecided, never an alarm
        res['reason'] = f"extraction failed ({type(e).__name__}): {e}"
        res['time_s'] = time.time() - t0
        return res
    os.makedirs(workdir, exist_ok=True)
    path = os.path.join(workdir, f"{name}.rs")
    with open(path, 'w') as f:
        f.write(text)
    res['file'] = path
    lines = text.split('\n')
    res['named_obligations'] = sorted(set(re.findall(r'#obl:([A-Za-z0-9_.\-]+)', text)))
    for fr in x.fragments:
        if any(fr is p for p in pieces):
            res['functions'].append({'item': fr.what, 'src_line': fr.src_line, 'sha256_16': rsx.sha(fr.orig)})
            for cls, cnt, detail in fr.rewrites:
                res['rewrites'].append({'item': fr.what, 'class': cls, 'count': cnt, 'detail': detail[:200]})
    # assumption scan
    for mm in re.finditer(r'^(.*\b(assume\s*\(|admit\s*\(|external_body|assume_specification|external_fn_specification|external_type_specification)\b.*)$', text, re.M):
        l = mm.group(1).strip()
        if l.startswith('//'):
            continue
        res['assumptions'].append(l[:160])
    declared = getattr(mod, 'ASSUMPTIONS', [])
    res['declared_assumptions'] = declared
    cmd = ['verus', path, '--error-format=json', '--output-json', '--time', '--multiple-errors', str(multiple_errors),
           '--num-threads', '8']
    margs = list(getattr(mod, 'VERUS_ARGS', []))
    if rlimit and '--rlimit' in margs:
        k = margs.index('--rlimit')
        del margs[k:k + 2]
    if rlimit:
        cmd += ['--rlimit', str(rlimit)]
    cmd += margs
    if extra_args:
        cmd += extra_args
    res['cmd'] = ' '.join(cmd)
    try:
        pr = subprocess.run(cmd, capture_output=True, text=True, timeout=timeout, cwd=workdir)
    except subprocess.TimeoutExpired:
        res['reason'] = f"verus timeout after {timeout}s"
        res['time_s'] = time.time() - t0
        return res
    res['time_s'] = time.time() - t0
    diags = []
    for l in pr.stderr.split('\n'):
        l = l.strip()
        if l.startswith('{') and '"$message_type"' in l:
            try:
                diags.append(json.loads(l))
            except Exception:
                pass
    summary = None
    try:
        j0 = pr.stdout.index('{')
        summary = json.loads(pr.stdout[j0:])
    except Exception:
        summary = None
    res['raw_stderr_tail'] = '\n'.join(d.get('rendered', '') for d in diags if d.get('level') == 'error')[-6000:]
    if summary is None:
        res['reason'] = 'verus produced no JSON summary: ' + (pr.stderr[-800:] or pr.stdout[-800:])
        return res
    vr = summary.get('verification-results', {})
    res['verified_fns'] = vr.get('verified', 0)
    tm = summary.get('times-ms', {})
    res['smt_time_s'] = (tm.get('smt', {}).get('total', 0)) / 1000.0
    res['verus_total_s'] = tm.get('total', 0) / 1000.0
    errors = [d for d in diags if d.get('level') == 'error' and not d.get('message', '').startswith('aborting due to')]
    viol, undec = [], []
    for d in errors:
        msg = d.get('message', '')
        prim = [s for s in d.get('spans', []) if s.get('is_primary')]
        sp = prim[0] if prim else (d.get('spans') or [{}])[0]
        ln = sp.get('line_start', 0)
        frag = None
        for a, b, fr in lmap:
            if a <= ln <= b:
                frag = fr
        # secondary spans may point into a real function (e.g. "at this call-site")
        sec_frag = None
        sec_line = None
        for s2 in d.get('spans', []):
            for a, b, fr in lmap:
                if a <= s2.get('line_start', 0) <= b:
                    sec_frag = fr
                    sec_line = s2.get('line_start')
        low = msg.lower()
        fn_name = enclosing_fn(lines, ln)
        if frag is None and sec_frag is not None and sec_line:
            # primary span is in hand-written spec text (e.g. the ensures of a model trait); name the real function
            fn_name = enclosing_fn(lines, sec_line)
        obl = find_obl(lines, ln, sp.get('line_end'))
        if not obl:
            kind = ('no_overflow' if 'arithmetic' in low or 'division' in low else
                    'callee_precondition' if 'precondition' in low else
                    'loop_invariant' if 'invariant' in low else
                    'termination' if 'decreases' in low or 'terminat' in low else
                    'proof_step' if 'assertion' in low else 'contract')
            obl = f"{fn_name}.{kind}"
        entry = {'message': msg, 'line': ln, 'text': (sp.get('text') or [{}])[0].get('text', '').strip()[:200],
                 'obligation': obl,
                 'function': fn_name,
                 'in_real_code': (frag or sec_frag).what if (frag or sec_frag) else None,
                 '_frag': (frag or sec_frag),
                 'rendered': d.get('rendered', '')[:3000]}
        # untagged `assert` in a proof block / precondition of a lemma call: a step of OUR proof script, not a clause
        # of a contract.  Its failure means the script no longer replays on this code -> undecided, never an alarm.
        proof_internal = (not find_obl(lines, ln, sp.get('line_end'))) and (
            'assertion failed' in low or 'assertion not satisfied' in low
            or ('precondition not satisfied' in low and in_proof_fn(lines, ln)))
        if proof_internal:
            entry['message'] = 'proof step of the verification script does not replay: ' + msg
            undec.append(entry)
        elif any(k in low for k in UNDECIDED_MSGS) and not any(k in low for k in VIOLATION_MSGS):
            undec.append(entry)
        elif vr.get('encountered-vir-error'):
            undec.append(entry)
        elif any(k in low for k in VIOLATION_MSGS):
            viol.append(entry)
        else:
            undec.append(entry)
    # proof hints whose anchor statement changed were skipped: then only failures of *named contract clauses* count as
    # violations; failures of proof-internal steps (asserts of hints, lemma preconditions, overflow side conditions,
    # untagged loop invariants) mean the proof could not be replayed -> undecided
    lost = [h for fr in x.fragments for h in getattr(fr, 'lost_hints', [])]
    res['lost_hint_anchors'] = lost
    # a closure of the real code that no rewrite gave a contract is an arbitrary function for the verifier: failures in
    # the function that contains it may be artefacts of that -> undecided
    if viol:
        keep = []
        for v in viol:
            fr = v.get('_frag')
            uc = fr.unannotated_closures() if fr is not None else []
            if uc:
                undec.append(dict(v, message='the function contains a closure without contract (`' + uc[0][:60] + '`), its result is arbitrary for the verifier: ' + v['message']))
            else:
                keep.append(v)
        viol = keep
    if lost and viol:
        # a function whose proof script lost an anchor is not decided by its failures (tagged or not): the proof may
        # simply be incomplete for the changed code.  Failures in functions whose script is intact still count.
        keep = []
        for v in viol:
            fr = v.get('_frag')
            if fr is not None and getattr(fr, 'lost_hints', []):
                undec.append(dict(v, message='proof script lost an anchor in this function (' + str(fr.lost_hints[0])[:60] + '): ' + v['message']))
            else:
                keep.append(v)
        viol = keep
    for v in viol + undec:
        v.pop('_frag', None)
    nobl = len(res['named_obligations'])
    res['obligations'] = res['verified_fns'] + vr.get('errors', 0)
    res['discharged'] = res['verified_fns']
    # a query that ran out of solver resources says nothing about the *other* queries: failures reported with a
    # solver model in those stay violations
    # ... and so do failures of functions whose own script is intact when ANOTHER function of the unit lost an anchor or
    # contains a closure without contract: every function is verified on its own, against contracts only
    soft = [u for u in undec if any(k in u['message'].lower() for k in ('rlimit', 'resource limit', 'proof step of the verification script',
                                                                         'proof script lost an anchor in this function', 'the function contains a closure without contract'))]
    if viol and undec and len(soft) == len(undec):
        res['rlimit_queries'] = [f"{u['function']} @{u['line']}" for u in soft]
        # kept for the caller: if every violation turns out to be a listed known finding, these decide (-> undecided)
        res['soft_undecided'] = [dict(u) for u in soft]
        undec = []
    if undec:
        res['status'] = 'undecided'
        res['reason'] = '; '.join(f"{u['message'][:160]} @{u['line']}" for u in undec[:4])
        res['failures'] = undec + viol
    elif viol:
        res['status'] = 'violation'
        res['failures'] = viol
        res['reason'] = '; '.join(f"{v['obligation'] or v['function']}: {v['message']}" for v in viol[:6])
    elif vr.get('success') and res['verified_fns'] > 0 and pr.returncode == 0:
        res['status'] = 'holds'
        if nobl == 0:
            res['status'] = 'undecided'
            res['reason'] = 'vacuity guard: no named obligation in unit'
    else:
        res['reason'] = f"verus exit {pr.returncode}, summary {vr}; " + pr.stderr[-500:]
    # vacuity guard: the unit may demand a minimum number of verified functions
    need = getattr(mod, 'MIN_VERIFIED', 1)
    if res['status'] == 'holds' and res['verified_fns'] < need:
        res['status'] = 'undecided'
        res['reason'] = f"vacuity guard: {res['verified_fns']} functions verified < {need} expected"
    return res


if __name__ == '__main__':
    import sys
    ud = sys.argv[1]
    repo = sys.argv[2] if len(sys.argv) > 2 else '/repo'
    r = run_unit(ud, repo, '/var/tmp/vx/work')
    tail = r.pop('raw_stderr_tail', '')
    fl = r.pop('failures')
    print(json.dumps({k: v for k, v in r.items() if k not in ('functions', 'rewrites')}, indent=1))
    for f_ in fl[:12]:
        print('---', f_['message'], '| obl:', f_['obligation'], '| fn:', f_['function'], '| line', f_['line'])
        print(f_['rendered'][:1500])
