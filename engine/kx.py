"""kx — Kani engine: contract harnesses overlaid on a scratch copy of the *real crate*.

A kani unit is /verif/contracts/<unit>/unit.py with

    ENGINE = 'kani'
    OVERLAY   = [(dest path inside the crate, file in the unit dir)]         # added files (cfg(kani) harness modules)
    MOD_LINES = [(existing crate file, line appended at its end)]            # `#[cfg(kani)] mod verif_x;`
    PATCHES   = [(crate file, exact old text, new text, why)]                # declared replacements (R-RNG, R-CLOCK ...)
    SHIMS     = [(crate file, file in /verif/engine/shims)]                  # declared file swaps (R-CHAN)
    HARNESSES = [{'name':..., 'tier':'quick'|'thorough', 'timeout':s, 'form':'K-step'|'K-seq'|'K-attr', 'bounds':'...'}]
    KANI_ARGS = [...]

Obligations are `kani::assert(cond, "obl:<name>")`; vacuity guards are `kani::cover!(cond, "cov:<name>")`.
Classification per harness:
  an "obl:" check FAILURE                                  -> VIOLATION (named), counterexample via concrete playback
  unwinding assertion / timeout / OOM / compile error / unsatisfied cover / unsupported construct -> UNDECIDED
  any other failing check (panic, overflow, OOB inside real code) -> VIOLATION if the harness says no_panic, else UNDECIDED
"""
import concurrent.futures
import fcntl
import resource
import importlib.util
import os
import re
import shutil
import subprocess
import time

VERIF = os.path.dirname(os.path.dirname(os.path.abspath(__file__)))
CACHE = os.path.join(VERIF, '.cache', 'kani-target')


def load_unit(unit_dir):
    p = os.path.join(unit_dir, 'unit.py')
    spec = importlib.util.spec_from_file_location('kunit_' + os.path.basename(unit_dir), p)
    mod = importlib.util.module_from_spec(spec)
    spec.loader.exec_module(mod)
    return mod


def prepare(unit_dir, mod, repo, work):
    """copy the working tree and apply the overlay. returns (crate_dir, problems)"""
    crate = os.path.join(work, 'crate')
    os.makedirs(work, exist_ok=True)
    subprocess.run(['rsync', '-a', '--delete', '--exclude', 'target', '--exclude', '.git', repo.rstrip('/') + '/', crate + '/'], check=True)
    problems = []
    for dest, src in getattr(mod, 'OVERLAY', []):
        d = os.path.join(crate, dest)
        os.makedirs(os.path.dirname(d), exist_ok=True)
        shutil.copy(os.path.join(unit_dir, src), d)
    for f, line in getattr(mod, 'MOD_LINES', []):
        p = os.path.join(crate, f)
        if not os.path.exists(p):
            problems.append(f"overlay target missing: {f}")
            continue
        with open(p, 'a') as fh:
            fh.write('\n' + line + '\n')
    for f, old, new, why in getattr(mod, 'PATCHES', []):
        p = os.path.join(crate, f)
        if not os.path.exists(p):
            problems.append(f"patch target missing: {f}")
            continue
        s = open(p).read()
        if s.count(old) != 1:
            problems.append(f"patch anchor occurs {s.count(old)}x in {f}: {old[:60]!r}")
            continue
        open(p, 'w').write(s.replace(old, new))
    for f, shim in getattr(mod, 'SHIMS', []):
        shutil.copy(os.path.join(VERIF, 'engine', 'shims', shim), os.path.join(crate, f))
    return crate, problems


CHECK_RE = re.compile(r'^Check (\d+): (\S+)\n\s+- Status: (\w+)\n\s+- Description: "(.*?)"\n(?:\s+- Location: (.*)\n)?', re.M)


def run_harness(crate, h, kani_args, log_dir):
    name = h['name']
    cmd = ['cargo', 'kani', '--target-dir', CACHE, '--harness', name] + list(kani_args) + list(h.get('args', []))
    env = dict(os.environ, CARGO_NET_OFFLINE='true')
    t0 = time.time()
    out = ''
    status = 'ok'
    try:
        mem = int(h.get('mem_gb', 16)) << 30

        def _limit():
            resource.setrlimit(resource.RLIMIT_AS, (mem, mem))
        pr = subprocess.run(cmd, cwd=crate, env=env, capture_output=True, text=True, timeout=h.get('timeout', 900), preexec_fn=_limit)
        out = pr.stdout + '\n' + pr.stderr
    except subprocess.TimeoutExpired as e:
        out = (e.stdout or b'').decode(errors='replace') if isinstance(e.stdout, bytes) else (e.stdout or '')
        status = 'timeout'
        subprocess.run(['pkill', 'cbmc'], capture_output=True)
    dt = time.time() - t0
    os.makedirs(log_dir, exist_ok=True)
    with open(os.path.join(log_dir, name + '.log'), 'w') as f:
        f.write(out)
    res = {'harness': name, 'time_s': dt, 'status': 'undecided', 'reason': '', 'obl': {}, 'covers': {}, 'failed': [], 'checks': 0,
           'cmd': ' '.join(cmd), 'form': h.get('form', 'K-step'), 'bounds': h.get('bounds', ''), 'cbmc_s': None}
    if status == 'timeout':
        res['reason'] = f"timeout after {h.get('timeout', 900)}s"
        return res
    m = re.search(r'Verification Time: ([0-9.]+)s', out)
    if m:
        res['cbmc_s'] = float(m.group(1))
    checks = CHECK_RE.findall(out)
    res['checks'] = len(checks)
    if not checks:
        tail = out[-1500:]
        res['reason'] = 'no check results (compile error / ICE / OOM?): ' + tail
        return res
    unwind_fail, other_fail = [], []
    for num, cname, st, desc, loc in checks:
        if desc.startswith('obl:'):
            o = desc[4:].split(' ')[0]
            prev = res['obl'].get(o)
            # an obligation may be instantiated several times (loop unrolling): FAILURE dominates
            if st == 'FAILURE' or prev is None or (prev == 'UNREACHABLE' and st == 'SUCCESS'):
                if prev != 'FAILURE':
                    res['obl'][o] = st
        elif desc.startswith('cov:'):
            o = desc[4:].split(' ')[0]
            if res['covers'].get(o) != 'SATISFIED':
                res['covers'][o] = st
        elif st == 'FAILURE':
            if 'unwinding assertion' in desc:
                unwind_fail.append((cname, desc))
            else:
                other_fail.append((cname, desc, loc))
    failed_obl = [o for o, st in res['obl'].items() if st == 'FAILURE']
    unreach_obl = [o for o, st in res['obl'].items() if st == 'UNREACHABLE']
    bad_cov = [c for c, st in res['covers'].items() if st != 'SATISFIED']
    if unwind_fail:
        res['reason'] = 'unwinding assertion failed (bound too small): ' + '; '.join(c for c, _ in unwind_fail[:3])
        return res
    if failed_obl:
        res['status'] = 'violation'
        res['failed'] = [{'obligation': o, 'message': 'Kani: assertion failed', 'function': name} for o in failed_obl]
        res['reason'] = ', '.join(failed_obl)
        return res
    if other_fail:
        if h.get('no_panic'):
            res['status'] = 'violation'
            res['failed'] = [{'obligation': f"{name}.no_panic", 'message': f"{d} @ {l}", 'function': name} for c, d, l in other_fail[:3]]
            res['reason'] = '; '.join(d for _, d, _ in other_fail[:3])
        else:
            res['reason'] = 'check failed inside real code under the harness precondition (needs contract, not a violation): ' + \
                            '; '.join(f"{d} @ {l}" for _, d, l in other_fail[:3])
        return res
    if bad_cov:
        res['reason'] = 'vacuity guard: cover not satisfied: ' + ', '.join(bad_cov)
        return res
    if unreach_obl:
        res['reason'] = 'vacuity guard: obligation unreachable: ' + ', '.join(unreach_obl)
        return res
    if not res['obl']:
        res['reason'] = 'vacuity guard: harness has no obl: assertion'
        return res
    if 'VERIFICATION:- SUCCESSFUL' not in out:
        res['reason'] = 'kani did not report success: ' + out[-600:]
        return res
    res['status'] = 'holds'
    return res


def playback(crate, h, kani_args, log_dir):
    """concrete playback: ask Kani for a unit test reproducing the failure (the real function is then run natively)."""
    cmd = ['cargo', 'kani', '--target-dir', CACHE, '--harness', h['name'], '-Z', 'concrete-playback',
           '--concrete-playback=print'] + list(kani_args) + list(h.get('args', []))
    try:
        pr = subprocess.run(cmd, cwd=crate, env=dict(os.environ, CARGO_NET_OFFLINE='true'), capture_output=True, text=True,
                            timeout=h.get('timeout', 900))
    except subprocess.TimeoutExpired:
        return None
    out = pr.stdout
    m = re.search(r'```\n?(.*?#\[test\].*?)```', out, re.S)
    if not m:
        m = re.search(r'(#\[test\]\s*fn kani_concrete_playback.*?\n\}\n)', out, re.S)
    return m.group(1) if m else None


def run_unit(unit_dir, repo, work, tier='quick', prop=None):
    name = os.path.basename(unit_dir.rstrip('/'))
    res = {'unit': name, 'engine': 'kani', 'status': 'undecided', 'reason': '', 'obligations': 0, 'discharged': 0,
           'failures': [], 'functions': [], 'rewrites': [], 'assumptions': [], 'time_s': 0.0, 'smt_time_s': 0.0,
           'file': None, 'named_obligations': [], 'declared_assumptions': [], 'cmd': '', 'bounds': None}
    t0 = time.time()
    mod = load_unit(unit_dir)
    res['declared_assumptions'] = list(getattr(mod, 'ASSUMPTIONS', []))
    crate, problems = prepare(unit_dir, mod, repo, work)
    if problems:
        res['reason'] = 'overlay failed: ' + '; '.join(problems)
        return res
    for f, old, new, why in getattr(mod, 'PATCHES', []):
        res['rewrites'].append({'item': f, 'class': 'K-PATCH', 'count': 1, 'detail': f"{old!r} -> {new!r}: {why}"})
    for f, shim in getattr(mod, 'SHIMS', []):
        res['rewrites'].append({'item': f, 'class': 'K-SHIM', 'count': 1, 'detail': f"file replaced by engine/shims/{shim}"})
    for dest, src in getattr(mod, 'OVERLAY', []):
        res['rewrites'].append({'item': dest, 'class': 'K-ADD', 'count': 1, 'detail': 'harness module added (cfg(kani))'})
    for fn in getattr(mod, 'FUNCTIONS', []):
        res['functions'].append({'item': fn})
    hs = [h for h in mod.HARNESSES if tier == 'thorough' or h.get('tier', 'quick') == 'quick']
    if not hs:
        res['status'] = 'holds'
        res['reason'] = 'no harness in this tier'
        return res
    kargs = list(getattr(mod, 'KANI_ARGS', []))
    log_dir = os.path.join(VERIF, 'replays', 'kani-logs', name)
    # two checks sharing this unit (C05, C13) may run at the same time: the shared target directory is used by one
    # cargo-kani session at a time
    os.makedirs(os.path.dirname(CACHE), exist_ok=True)
    lock = open(CACHE + '.lock', 'w')
    fcntl.flock(lock, fcntl.LOCK_EX)
    try:
        # first harness alone (it builds the crate), the rest in parallel
        results = [run_harness(crate, hs[0], kargs, log_dir)]
        if results[0]['status'] == 'undecided' and results[0]['reason'].startswith('no check results'):
            results = [run_harness(crate, hs[0], kargs, log_dir)]   # one retry of a build that produced no result
        if len(hs) > 1:
            with concurrent.futures.ThreadPoolExecutor(max_workers=int(os.environ.get('VERIF_KANI_JOBS', '4'))) as ex:
                results += list(ex.map(lambda h: run_harness(crate, h, kargs, log_dir), hs[1:]))
        res['harnesses'] = results
        viol0 = [r for r in results if r['status'] == 'violation']
        tests = {}
        for r in viol0:
            h = next(h for h in hs if h['name'] == r['harness'])
            tests[r['harness']] = playback(crate, h, kargs, log_dir)
    finally:
        fcntl.flock(lock, fcntl.LOCK_UN)
        lock.close()
    res['bounds'] = '; '.join(sorted(set(f"{r['harness']}: {r['bounds']}" for r in results if r['bounds'])))
    res['cmd'] = results[0]['cmd'].replace(hs[0]['name'], '<harness>')
    res['smt_time_s'] = sum(r['cbmc_s'] or 0 for r in results)
    names = set()
    for r in results:
        for o, st in r['obl'].items():
            names.add(o)
    res['named_obligations'] = sorted(names)
    res['obligations'] = sum(len(r['obl']) for r in results)
    res['discharged'] = sum(1 for r in results for o, st in r['obl'].items() if st == 'SUCCESS' and r['status'] in ('holds', 'violation'))
    viol = [r for r in results if r['status'] == 'violation']
    und = [r for r in results if r['status'] == 'undecided']
    if viol:
        res['status'] = 'violation'
        for r in viol:
            test = tests.get(r['harness'])
            for f in r['failed']:
                f['in_real_code'] = ', '.join(getattr(mod, 'FUNCTIONS', []))
                f['rendered'] = f"harness {r['harness']} ({r['form']}, {r['bounds']}): obligation {f['obligation']} FAILED\n"
                if test:
                    f['witness'] = {'kind': 'kani concrete playback test (bytes of every kani::any())', 'harness': r['harness'], 'test': test}
                res['failures'].append(f)
        res['reason'] = '; '.join(r['reason'] for r in viol)
    elif und:
        res['status'] = 'undecided'
        res['reason'] = '; '.join(f"{r['harness']}: {r['reason'][:300]}" for r in und)
    else:
        res['status'] = 'holds'
    res['time_s'] = time.time() - t0
    return res


if __name__ == '__main__':
    import json, sys, tempfile
    ud = sys.argv[1]
    repo = sys.argv[2] if len(sys.argv) > 2 else '/repo'
    tier = sys.argv[3] if len(sys.argv) > 3 else 'quick'
    work = tempfile.mkdtemp(prefix='kx.', dir='/var/tmp')
    try:
        r = run_unit(ud, repo, work, tier=tier)
    finally:
        shutil.rmtree(work, ignore_errors=True)
    hs = r.pop('harnesses', [])
    print(json.dumps({k: v for k, v in r.items() if k not in ('functions', 'rewrites', 'declared_assumptions')}, indent=1)[:6000])
    for h in hs:
        print('HARNESS', h['harness'], h['status'], f"{h['time_s']:.0f}s cbmc={h['cbmc_s']}", h['reason'][:300], {k: v for k, v in h['obl'].items() if v != 'SUCCESS'}, h['covers'])
