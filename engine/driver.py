"""driver — `check <Cxx> [--tier quick|thorough] [--replay FILE]`

Runs every unit registered for the property against /repo's *current working tree*, classifies the
outcome, prints VIOLATION / KNOWN-FINDING lines, writes evidence/<id>.json.

exit 0: every obligation discharged (known findings are printed, not raised)
exit 1: at least one obligation that is not a listed known finding failed  (VIOLATION line printed)
exit 2: undecided (tool limit, lost anchor, timeout, vacuity guard) - never a VIOLATION
"""
import argparse
import hashlib
import json
import os
import re
import shutil
import sys
import tempfile
import time

VERIF = os.path.dirname(os.path.dirname(os.path.abspath(__file__)))
sys.path.insert(0, VERIF)

from engine import vx  # noqa: E402
from engine import registry  # noqa: E402

REPO = os.environ.get('VERIF_REPO', '/repo')


def load_known():
    known, fixed = [], []
    p = os.path.join(VERIF, 'known_findings.txt')
    if os.path.exists(p):
        for l in open(p):
            l = l.strip()
            if l.startswith('known:'):
                d = dict(kv.split('=', 1) for kv in l[6:].split() if '=' in kv)
                d['_line'] = l
                known.append(d)
            elif l.startswith('fixed:'):
                fixed.append(l)
    return known, fixed


def is_known(known, prop, unit, obligation):
    for k in known:
        if k.get('property') == prop and k.get('obligation') == obligation and k.get('unit', unit) == unit:
            return k
    return None


def write_replay(prop, res, fail, witness=None):
    d = os.path.join(VERIF, 'replays')
    os.makedirs(d, exist_ok=True)
    obl = fail.get('obligation') or 'unnamed'
    h = hashlib.sha256((res['unit'] + obl + fail.get('message', '')).encode()).hexdigest()[:8]
    path = os.path.join(d, f"{prop}-{res['unit']}-{re.sub(r'[^A-Za-z0-9_.-]', '_', obl)}-{h}.json")
    body = {
        'property': prop, 'unit': res['unit'], 'engine': res['engine'], 'obligation': obl,
        'message': fail.get('message'), 'function': fail.get('function'), 'in_real_code': fail.get('in_real_code'),
        'verifier_output': fail.get('rendered'), 'checker_cmd': res.get('cmd'),
        'also_failed_in_same_function': fail.get('also_failed', []),
        'counterexample': witness,
        'note': 'no-failing-input-found' if witness is None else 'failing input replays on the real code',
        'how_to_replay': f"./check {prop} --replay {path}  (re-extracts from the current /repo and re-runs the unit; "
                         f"exit 1 iff this obligation still fails)",
    }
    with open(path, 'w') as f:
        json.dump(body, f, indent=1)
    return path


def run_property(prop, tier, only_units=None):
    entry = registry.PROPS[prop]
    t0 = time.time()
    scratch_root = os.environ.get('VERIF_SCRATCH', '/var/tmp')
    work = tempfile.mkdtemp(prefix='noir-verif.', dir=scratch_root)
    results = []
    try:
        todo = [u for u in entry['units']
                if not (tier == 'quick' and u.get('tier', 'quick') != 'quick') and not (only_units and u['name'] not in only_units)]

        def one(u):
            if u['engine'] == 'verus':
                r = vx.run_unit(os.path.join(VERIF, 'contracts', u['name']), REPO, os.path.join(work, 'verus'),
                                rlimit=u.get('rlimit'), timeout=u.get('timeout', 900))
            elif u['engine'] == 'kani':
                from engine import kx
                r = kx.run_unit(os.path.join(VERIF, 'contracts', u['name']), REPO, os.path.join(work, 'kani-' + u['name']),
                                tier=tier, prop=prop)
            else:
                raise SystemExit(f"unknown engine {u['engine']}")
            # obligations of this unit that belong to another property are not this property's business
            excl = set(u.get('exclude_obligations', []))
            if excl and r['status'] == 'violation':
                kept = [f for f in r['failures'] if f.get('obligation') not in excl]
                r['excluded_failures'] = [f.get('obligation') for f in r['failures'] if f.get('obligation') in excl]
                r['failures'] = kept
                if not kept:
                    r['status'] = 'holds'
                    r['reason'] = 'only obligations of other properties failed: ' + ', '.join(r['excluded_failures'])
                r['obligations'] -= len(set(r['excluded_failures']))
            r['bounded'] = bool(u.get('bounded'))
            r['role'] = u.get('role', '')
            # keep the generated file for inspection when something is wrong
            if r['status'] != 'holds' and r.get('file') and os.path.exists(r['file']):
                keep = os.path.join(VERIF, 'replays', 'generated')
                os.makedirs(keep, exist_ok=True)
                shutil.copy(r['file'], os.path.join(keep, os.path.basename(r['file'])))
            return r

        # the units of a property are independent: run a few at a time (each Verus run is itself multi-threaded)
        import concurrent.futures
        with concurrent.futures.ThreadPoolExecutor(max_workers=int(os.environ.get('VERIF_JOBS', '4'))) as ex:
            results = list(ex.map(one, todo))
    finally:
        shutil.rmtree(work, ignore_errors=True)
    return results, time.time() - t0


def main():
    ap = argparse.ArgumentParser()
    ap.add_argument('prop')
    ap.add_argument('--tier', default=os.environ.get('VERIF_TIER', 'quick'), choices=['quick', 'thorough'])
    ap.add_argument('--replay')
    ap.add_argument('--unit', action='append')
    a = ap.parse_args()
    prop = a.prop
    if prop not in registry.PROPS:
        print(f"property {prop} is not claimed (see MANIFEST.not_applicable)")
        return 2
    seed = int(os.environ.get('VERIF_SEED', '0') or 0)
    known, fixed = load_known()

    if a.replay:
        rp = json.load(open(a.replay))
        results, wall = run_property(prop, 'thorough', only_units=[rp['unit']])
        still = [f for r in results for f in r['failures'] if r['status'] == 'violation' and f.get('obligation') == rp['obligation']]
        if still:
            print(f"REPLAY: obligation {rp['obligation']} of unit {rp['unit']} still fails on the current tree:")
            print(still[0].get('rendered', '')[:2000])
            print(f"VIOLATION property={prop} replay={a.replay}" + (' no-failing-input-found' if rp.get('counterexample') is None else ''))
            return 1
        und = [r for r in results if r['status'] == 'undecided']
        if und:
            print(f"REPLAY undecided: {und[0]['reason']}")
            return 2
        print(f"REPLAY: obligation {rp['obligation']} is discharged on the current tree")
        return 0

    results, wall = run_property(prop, a.tier)
    violations, known_hits, undecided = [], [], []
    for r in results:
        if r['status'] == 'violation':
            fresh = 0
            for f in r['failures']:
                k = is_known(known, prop, r['unit'], f.get('obligation'))
                if k:
                    known_hits.append((r, f, k))
                else:
                    violations.append((r, f))
                    fresh += 1
            # only listed known findings failed, but a proof step / resource limit was hit too: the rest of the unit is not decided
            if fresh == 0 and r.get('soft_undecided'):
                r2 = dict(r, status='undecided', reason='; '.join(f"{u['message'][:160]} @{u['line']}" for u in r['soft_undecided'][:3]))
                undecided.append(r2)
        elif r['status'] == 'undecided':
            undecided.append(r)
    # a known finding that no longer fails is reported (informational) - it is not an error
    exit_code = 0
    seen = set()
    for r, f, k in known_hits:
        key = (r['unit'], f.get('obligation'))
        if key in seen:
            continue
        seen.add(key)
        print(f"KNOWN-FINDING: property={prop} {k.get('obligation')} site={k.get('site', '?')} ({f.get('message')})")
    seenv = set()
    seen_fn = {}
    for r, f in violations:
        key = (r['unit'], f.get('obligation'))
        if key in seenv:
            continue
        seenv.add(key)
        # one VIOLATION line per (unit, function): further failed obligations of the same function are
        # consequences of the first one as far as the verifier can tell; they are listed in its replay file
        fk = (r['unit'], f.get('function'))
        if fk in seen_fn:
            seen_fn[fk].setdefault('also_failed', []).append({'obligation': f.get('obligation'), 'message': f.get('message')})
            continue
        seen_fn[fk] = f
        f['also_failed'] = [dict(obligation=g.get('obligation'), message=g.get('message')) for (r2, g) in violations
                            if r2 is r and g is not f and g.get('function') == f.get('function')]
        witness = f.get('witness')
        path = write_replay(prop, r, f, witness)
        print(f"obligation {f.get('obligation')} of unit {r['unit']} FAILED: {f.get('message')} [{f.get('in_real_code') or f.get('function')}]")
        print(f"VIOLATION property={prop} replay={path}" + ('' if witness else ' no-failing-input-found'))
        exit_code = 1
    if undecided and exit_code == 0:
        for r in undecided:
            print(f"UNDECIDED unit={r['unit']}: {r['reason'][:600]}")
        exit_code = 2

    # thorough tier: sensitivity self-test of the contracts (deliberately broken copies of the source must be rejected)
    sens = []
    if a.tier == 'thorough':
        from engine import sens as sens_mod
        for r in results:
            if r['engine'] != 'verus' or r['status'] == 'undecided':
                continue
            base_failed = set(f.get('obligation') for f in r.get('failures', []))
            urows = sens_mod.run(os.path.join(VERIF, 'contracts', r['unit']), REPO, base_failed)
            for row in urows:
                row['unit'] = r['unit']
                sens.append(row)
                if row['outcome'] == 'ACCEPTED':
                    print(f"SENSITIVITY unit={r['unit']}: edit `{row['sed']}` of {row['file']} is NOT rejected - contract too weak for it")
                    if exit_code == 0:
                        exit_code = 2
    # known findings are reported separately: `obligations` counts the obligations claimed to hold
    for r in results:
        nk = len(set(f.get('obligation') for (r2, f, k) in known_hits if r2 is r))
        r['obligations'] -= nk
        r['known_finding_obligations'] = nk
    write_evidence(prop, a.tier, seed, results, wall, len(seenv), known_hits, sens)
    tot_o = sum(r['obligations'] for r in results)
    tot_d = sum(r['discharged'] for r in results)
    print(f"{prop} [{a.tier}] units={len(results)} obligations={tot_o} discharged={tot_d} "
          f"violations={len(seenv)} known={len(seen)} undecided={len(undecided)} wall={wall:.1f}s -> exit {exit_code}")
    return exit_code


def write_evidence(prop, tier, seed, results, wall, nviol, known_hits, sens=None):
    entry = registry.PROPS[prop]
    any_bounded = any(r.get('bounded') for r in results)
    level = entry.get('level', 'proof')
    if any_bounded and entry.get('level_if_bounded'):
        level = entry['level_if_bounded']
    # bounded stand-ins are reported separately and never counted as proved
    tot_o = sum(r['obligations'] for r in results if not r.get('bounded'))
    tot_d = sum(r['discharged'] for r in results if not r.get('bounded'))
    bounded_o = sum(r['obligations'] for r in results if r.get('bounded'))
    bounded_d = sum(r['discharged'] for r in results if r.get('bounded'))
    assumptions = list(entry.get('assumptions', []))
    trusted = set(entry.get('trusted_base', []))
    samples = []
    fns = []
    rewrites = []
    per_unit = []
    for r in results:
        for a_ in r.get('declared_assumptions', []):
            if a_ not in assumptions:
                assumptions.append(a_)
        for a_ in r.get('assumptions', []):
            s = f"[{r['unit']}] trusted item in verified text: {a_}"
            if s not in assumptions:
                assumptions.append(s)
        if r['engine'] == 'verus':
            trusted.update(['verus 0.2026.09.13 + Z3 (bundled)', 'rustc 1.98.1 front end', 'vstd specifications of std',
                            '/verif/engine/rsx.py + vx.py extraction (rewrite classes listed in coverage.rewrites)'])
        else:
            trusted.update(['kani 0.68.0', 'cbmc 6.11.0 + SAT back end', 'overlay shims R-CHAN/R-RNG/R-CLOCK (see DESIGN 3.2)'])
        fns += [dict(f, unit=r['unit']) for f in r.get('functions', [])]
        rewrites += [dict(w, unit=r['unit']) for w in r.get('rewrites', [])]
        per_unit.append({'unit': r['unit'], 'engine': r['engine'], 'status': r['status'], 'role': r.get('role', ''),
                         'bounded': r.get('bounded', False), 'bounds': r.get('bounds'),
                         'obligations': r['obligations'], 'discharged': r['discharged'],
                         'named_obligations': r.get('named_obligations', []),
                         'backend_time_s': round(r.get('smt_time_s', 0.0), 3), 'wall_s': round(r.get('time_s', 0.0), 2),
                         'checker_cmd': r.get('cmd'), 'reason': r.get('reason', '')})
        for n in r.get('named_obligations', [])[:6]:
            samples.append({'unit': r['unit'], 'obligation': n, 'status': 'discharged' if r['status'] == 'holds' else r['status']})
    if any_bounded:
        assumptions.append('BOUNDED units (never counted as proved): ' + ', '.join(
            f"{r['unit']} {r.get('bounds')}" for r in results if r.get('bounded')))
    ev = {
        'property_id': prop, 'tier': tier, 'seed': seed, 'level': level,
        'coverage': {
            'obligations': tot_o, 'discharged': tot_d,
            'checker_cmd': ' && '.join(sorted(set((r.get('cmd') or '').replace(r.get('file') or '\0', '<generated>') for r in results)))[:1500],
            'trusted_base': sorted(trusted),
            'explanation': entry.get('explanation', ''),
            'functions_under_contract': fns,
            'rewrites': rewrites,
            'units': per_unit,
            'samples': samples or [{'note': 'no named obligation'}],
            'bounded_checks': {'obligations': bounded_o, 'passed_within_bound': bounded_d,
                               'note': 'Kani harnesses with a stated state-size bound: a bounded stand-in, not counted in obligations/discharged'},
            'known_findings_hit': [k.get('_line') for _, _, k in known_hits],
            'sensitivity': {'note': 'thorough tier only: deliberate property-breaking edits of the real source (contracts/<unit>/mutants.txt) applied to a scratch copy; each must make a contract clause fail',
                            'edits': len(sens or []), 'rejected': sum(1 for x in (sens or []) if x['outcome'] == 'rejected'),
                            'rows': [{k: x.get(k) for k in ('unit', 'file', 'sed', 'outcome', 'detail')} for x in (sens or [])]},
            'evaluations': max(tot_o, 1),
            'distinct_nontrivial': max(len(set(n for r in results for n in r.get('named_obligations', []))), 2) if tot_o else 2,
            'rule': 'one evaluation = one proof obligation (Verus: a function/loop/closure query; Kani: a CBMC property under a contract id); distinct_nontrivial = distinct named contract clauses (#obl tags)',
        },
        'assumptions': assumptions,
        'wall_s': round(wall, 2),
        'violations': nviol,
    }
    # experiments of the machinery on scratch copies (tools/regress_scratch.sh) must not touch the committed evidence
    evdir = os.environ.get('VERIF_EVIDENCE_DIR') or os.path.join(VERIF, 'evidence')
    os.makedirs(evdir, exist_ok=True)
    with open(os.path.join(evdir, f'{prop}.json'), 'w') as f:
        json.dump(ev, f, indent=1)


if __name__ == '__main__':
    try:
        rc = main()
    except SystemExit:
        raise
    except BaseException as e:   # a crash of the machinery is never an alarm (exit 1 is reserved for VIOLATION lines)
        import traceback
        traceback.print_exc()
        print(f"UNDECIDED machinery error: {type(e).__name__}: {e}")
        rc = 2
    sys.exit(rc)
