"""sensitivity self-test (thorough tier): every unit may carry `mutants.txt` — deliberate property-breaking edits of the
real source (`<relative file><TAB><sed expression>[<TAB>comment]`).  Each is applied to a scratch copy of /repo/src and the
unit is re-run on it: a contract that still verifies is too weak (reported, exit 2 — never a VIOLATION of the property).
This is the vacuity guard the guidance asks for: behind every contract an edit that must make it fail."""
import os, shutil, subprocess, tempfile
from engine import vx


def load(unit_dir):
    p = os.path.join(unit_dir, 'mutants.txt')
    out = []
    if not os.path.exists(p):
        return out
    for line in open(p):
        line = line.rstrip('\n')
        if not line.strip() or line.startswith('#'):
            continue
        parts = line.split('\t')
        if len(parts) >= 2:
            out.append({'file': parts[0], 'sed': parts[1], 'comment': parts[2] if len(parts) > 2 else ''})
    return out


def run(unit_dir, repo, baseline_failed, rlimit=None):
    res = []
    muts = load(unit_dir)
    if not muts:
        return res
    root = tempfile.mkdtemp(prefix='noir-verif-mut.', dir=os.environ.get('VERIF_SCRATCH', '/var/tmp'))
    try:
        for m in muts:
            shutil.rmtree(os.path.join(root, 'src'), ignore_errors=True)
            shutil.copytree(os.path.join(repo, 'src'), os.path.join(root, 'src'))
            target = os.path.join(root, m['file'])
            before = open(target).read() if os.path.exists(target) else None
            if before is None:
                res.append(dict(m, outcome='not-applicable', detail='file not found'))
                continue
            subprocess.run(['sed', '-i', m['sed'], target], check=False)
            if open(target).read() == before:
                # the anchored text is gone from the real source (the code changed): nothing to learn from this edit
                res.append(dict(m, outcome='not-applicable', detail='edit does not apply to the current source'))
                continue
            r = vx.run_unit(unit_dir, root, os.path.join(root, 'work'), rlimit=rlimit)
            failed = sorted(set(f.get('obligation') for f in r.get('failures', []) if r['status'] == 'violation'))
            new = [o for o in failed if o not in baseline_failed]
            if r['status'] == 'violation' and new:
                res.append(dict(m, outcome='rejected', detail=', '.join(new[:4])))
            elif r['status'] == 'undecided' or r.get('soft_undecided'):
                res.append(dict(m, outcome='undecided', detail=r.get('reason', '')[:200]))
            else:
                res.append(dict(m, outcome='ACCEPTED', detail='the unit still verifies with this edit: the contract does not pin this behaviour down'))
    finally:
        shutil.rmtree(root, ignore_errors=True)
    return res
