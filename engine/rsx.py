"""rsx — a small Rust source scanner used to extract items *byte for byte* from /repo.

It is not a parser: it tokenises just enough (comments, string/char literals, lifetimes, brackets)
to find the text span of
  * a top-level `struct`/`enum`/`fn`/`type`/`const` item by name,
  * an `impl` block by self type (and optionally by trait),
  * a `fn` inside an impl block,
  * the n-th loop header inside a function body.
Everything returned is a (start, end) span into the original text, so the caller can prove that what
it verified is the text that is on disk (sha256 of the span is recorded in the evidence).
"""
import hashlib
import re


class ScanError(Exception):
    """An item/anchor could not be located -> the unit is *undecided* (exit 2), never a violation."""


def code_mask(src):
    """Return a bytearray-like list m where m[i] is True iff src[i] is code (not inside a comment,
    string literal or char literal).  Lifetimes ('a) are code."""
    n = len(src)
    m = [True] * n
    i = 0
    while i < n:
        c = src[i]
        if c == '/' and i + 1 < n and src[i + 1] == '/':
            j = src.find('\n', i)
            if j < 0:
                j = n
            for k in range(i, j):
                m[k] = False
            i = j
        elif c == '/' and i + 1 < n and src[i + 1] == '*':
            depth = 1
            j = i + 2
            while j < n and depth:
                if src.startswith('/*', j):
                    depth += 1
                    j += 2
                elif src.startswith('*/', j):
                    depth -= 1
                    j += 2
                else:
                    j += 1
            for k in range(i, j):
                m[k] = False
            i = j
        elif c == '"' or (c == 'b' and src.startswith('b"', i) and (i == 0 or not (src[i-1].isalnum() or src[i-1] == '_'))):
            j = i + (2 if c == 'b' else 1)
            while j < n and src[j] != '"':
                if src[j] == '\\':
                    j += 1
                j += 1
            j = min(j + 1, n)
            for k in range(i, j):
                m[k] = False
            i = j
        elif c == 'r' and re.match(r'r#*"', src[i:i + 12]) and (i == 0 or not (src[i-1].isalnum() or src[i-1] == '_')):
            mm = re.match(r'r(#*)"', src[i:i + 12])
            closer = '"' + mm.group(1)
            j = src.find(closer, i + len(mm.group(0)))
            j = n if j < 0 else j + len(closer)
            for k in range(i, j):
                m[k] = False
            i = j
        elif c == "'":
            # char literal or lifetime
            mm = re.match(r"'(\\.[^']*|[^'\\])'", src[i:i + 12])
            if mm:
                j = i + len(mm.group(0))
                for k in range(i, j):
                    m[k] = False
                i = j
            else:
                i += 1
        else:
            i += 1
    return m


class Source:
    def __init__(self, path, text):
        self.path = path
        self.text = text
        self.mask = code_mask(text)

    # ---- low level -------------------------------------------------------------------------
    def match_close(self, open_idx):
        """index of the bracket closing the one at open_idx ((), [], {})."""
        t, m = self.text, self.mask
        pairs = {'(': ')', '[': ']', '{': '}'}
        o = t[open_idx]
        c = pairs[o]
        depth = 0
        for i in range(open_idx, len(t)):
            if not m[i]:
                continue
            if t[i] == o:
                depth += 1
            elif t[i] == c:
                depth -= 1
                if depth == 0:
                    return i
        raise ScanError(f"{self.path}: unbalanced {o} at {open_idx}")

    def find_code(self, regex, start=0, end=None):
        """iterate regex matches whose first char is code."""
        end = len(self.text) if end is None else end
        for mm in re.compile(regex, re.M).finditer(self.text, start, end):
            if self.mask[mm.start()]:
                yield mm

    def depth_at(self, idx, start=0):
        d = 0
        t, m = self.text, self.mask
        for i in range(start, idx):
            if m[i]:
                if t[i] == '{':
                    d += 1
                elif t[i] == '}':
                    d -= 1
        return d

    def body_open(self, start, end=None):
        """first '{' at ()/[]/<>-agnostic paren depth 0 after start (used for fn / impl / loop headers)."""
        t, m = self.text, self.mask
        end = len(t) if end is None else end
        depth = 0
        i = start
        while i < end:
            if m[i]:
                ch = t[i]
                if ch in '([':
                    depth += 1
                elif ch in ')]':
                    depth -= 1
                elif ch == '{' and depth == 0:
                    return i
                elif ch == ';' and depth == 0:
                    return -1
            i += 1
        return -1

    def item_start(self, kw_idx):
        """extend an item start backwards over attributes, doc comments and visibility on preceding lines."""
        t = self.text
        # go to start of the line containing kw_idx
        ls = t.rfind('\n', 0, kw_idx) + 1
        start = ls
        while True:
            pe = start - 1
            if pe <= 0:
                break
            ps = t.rfind('\n', 0, pe) + 1
            line = t[ps:pe].strip()
            if line.startswith('#[') or line.startswith('///') or line.startswith('//!'):
                start = ps
                continue
            # multi-line attribute: line ends an attribute started above
            if line.endswith(')]') and not line.startswith('#['):
                q = ps
                found = False
                for _ in range(12):
                    q2 = t.rfind('\n', 0, q - 1) + 1
                    l2 = t[q2:q - 1].strip()
                    if l2.startswith('#['):
                        start = q2
                        found = True
                        break
                    q = q2
                    if q <= 0:
                        break
                if found:
                    continue
            break
        return start

    # ---- items -----------------------------------------------------------------------------
    def top_item(self, kind, name):
        """span of `kind name ...` (struct/enum/fn/type/const/trait) at brace depth 0."""
        rx = r'\b' + kind + r'\s+' + re.escape(name) + r'\b'
        for mm in self.find_code(rx):
            if self.depth_at(mm.start()) != 0:
                continue
            s = self.item_start(mm.start())
            ob = self.body_open(mm.end())
            if ob < 0:
                e = self.text.find(';', mm.end()) + 1
            else:
                e = self.match_close(ob) + 1
                # tuple struct `struct X(..);`
            return (s, e)
        raise ScanError(f"{self.path}: top-level `{kind} {name}` not found")

    def impl_blocks(self, self_ty, trait=None):
        """spans (start, body_open, end) of impl blocks whose self type starts with self_ty and,
        if trait is given, implement that trait (trait=None -> inherent impls only, trait='*' -> any)."""
        out = []
        for mm in self.find_code(r'^\s*(?:unsafe\s+)?impl\b'):
            kw = self.text.index('impl', mm.start())
            if self.depth_at(kw) != 0:
                continue
            ob = self.body_open(kw)
            if ob < 0:
                continue
            header = self.text[kw:ob]
            # strip where-clause for matching
            hdr = header.split('\nwhere')[0]
            hdr = re.split(r'\bwhere\b', hdr)[0]
            # drop the generic parameter list right after impl
            h = hdr[4:].lstrip()
            if h.startswith('<'):
                depth = 0
                for k, ch in enumerate(h):
                    if ch == '<':
                        depth += 1
                    elif ch == '>' and h[k - 1] != '-':
                        depth -= 1
                        if depth == 0:
                            h = h[k + 1:]
                            break
            h = ' '.join(h.split())
            mfor = re.search(r'\bfor\b', h)
            if mfor:
                tr, ty = h[:mfor.start()].strip(), h[mfor.end():].strip()
            else:
                tr, ty = None, h.strip()
            ty_name = re.match(r'[A-Za-z_][A-Za-z0-9_:]*', ty)
            ty_name = ty_name.group(0).split('::')[-1] if ty_name else ty
            if ty_name != self_ty and not (self_ty.startswith('=') and ty == self_ty[1:]):
                continue
            if trait is None and tr is not None:
                continue
            if trait not in (None, '*'):
                if tr is None:
                    continue
                trn = re.match(r'[A-Za-z_][A-Za-z0-9_:]*', tr).group(0).split('::')[-1]
                if trn != trait:
                    continue
            out.append((self.item_start(kw), ob, self.match_close(ob) + 1, header))
        return out

    def fn_in(self, span, name):
        """span of `fn name` directly inside the block span=(start, body_open, end, ...)."""
        _, ob, e = span[0], span[1], span[2]
        rx = r'\bfn\s+' + re.escape(name) + r'\b'
        for mm in self.find_code(rx, ob, e):
            if self.depth_at(mm.start(), ob) != 1:
                continue
            s = self.item_start(mm.start())
            fob = self.body_open(mm.end())
            if fob < 0:
                continue
            return (s, fob, self.match_close(fob) + 1)
        return None

    def method(self, self_ty, name, trait=None):
        blocks = self.impl_blocks(self_ty, trait)
        for b in blocks:
            f = self.fn_in(b, name)
            if f:
                return f, b
        raise ScanError(f"{self.path}: fn `{name}` in impl {'(' + trait + ') ' if trait else ''}{self_ty} not found")

    def top_fn(self, name):
        rx = r'\bfn\s+' + re.escape(name) + r'\b'
        for mm in self.find_code(rx):
            if self.depth_at(mm.start()) != 0:
                continue
            s = self.item_start(mm.start())
            fob = self.body_open(mm.end())
            return (s, fob, self.match_close(fob) + 1)
        raise ScanError(f"{self.path}: top-level fn `{name}` not found")

    def macro_rules(self, name):
        for mm in self.find_code(r'\bmacro_rules!\s*' + re.escape(name) + r'\b'):
            ob = self.body_open(mm.end())
            return (mm.start(), ob, self.match_close(ob) + 1)
        raise ScanError(f"{self.path}: macro_rules! {name} not found")


def sha(text):
    return hashlib.sha256(text.encode()).hexdigest()[:16]


class Fragment:
    """A piece of extracted text that can be edited while remembering where it came from."""

    def __init__(self, path, text, what):
        self.path = path
        self.orig = text
        self.text = text
        self.what = what
        self.rewrites = []  # (class, count, detail)

    def _src(self):
        return Source(self.path, self.text)

    def note(self, cls, count, detail=''):
        if count:
            self.rewrites.append((cls, count, detail))

    def sub(self, cls, regex, repl, detail='', flags=re.M, must=False):
        """regex substitution applied to code positions only."""
        s = self._src()
        out = []
        last = 0
        cnt = 0
        for mm in re.compile(regex, flags).finditer(self.text):
            if not s.mask[mm.start()]:
                continue
            if mm.start() < last:
                continue
            out.append(self.text[last:mm.start()])
            out.append(mm.expand(repl) if isinstance(repl, str) else repl(mm))
            last = mm.end()
            cnt += 1
        out.append(self.text[last:])
        self.text = ''.join(out)
        if must and cnt == 0:
            raise ScanError(f"{self.what}: rewrite {cls} `{regex}` did not apply")
        self.note(cls, cnt, detail or regex)
        return cnt

    def replace_exact(self, cls, old, new, detail='', count=1):
        """exact-text replacement; the anchor must occur exactly `count` times (None = any >=1)."""
        c = self.text.count(old)
        if c == 0 or (count is not None and c != count):
            raise ScanError(f"{self.what}: anchor for {cls} occurs {c}x (expected {count}): {old!r}")
        self.text = self.text.replace(old, new)
        self.note(cls, c, detail or f"{old!r} -> {new!r}")

    # --- names of locals of the real code -------------------------------------------------------
    # Ghost text refers to a local variable of the code as §logical§; bind() looks the actual identifier up in the
    # extracted text, so that renaming a local (or adding a type annotation to its `let`) does not break the script.
    def bind(self, logical, regex, group=1):
        if not hasattr(self, 'names'):
            self.names = {}
        s = self._src()
        for mm in re.compile(regex, re.S).finditer(self.text):
            if s.mask[mm.start()]:
                self.names[logical] = mm.group(group)
                if mm.group(group) != logical:
                    self.note('V-SPEC', 1, f"local `{mm.group(group)}` of the code is the `{logical}` of the ghost text")
                return True
        self.names[logical] = logical
        self._lost(f'local {logical}: {regex}')
        return False

    def auto_annotate_pure_predicates(self):
        """V-CLOSURE (automatic): a closure argument that no unit-specific rewrite has given a contract, whose body is a
        pure boolean expression (field accesses, identifiers, literals, comparison / arithmetic / logic operators, no
        calls, no blocks), gets `-> (__r: bool) ensures __r == (body)`; the body is kept byte for byte."""
        cnt = 0
        pos = 0
        while True:
            s = self._src()
            m = None
            for mm in re.finditer(r'[(,]\s*(?:move\s+)?\|([^|\n]*)\|\s*(?!->)', self.text[pos:]):
                if s.mask[pos + mm.start()]:
                    m = mm
                    break
            if m is None:
                break
            b0 = pos + m.end()
            line = self.text[self.text.rfind('\n', 0, b0) + 1:self.text.find('\n', b0)]
            depth = 0
            i = b0
            while i < len(self.text):
                ch = self.text[i]
                if s.mask[i]:
                    if ch in '([{':
                        depth += 1
                    elif ch in ')]}':
                        if depth == 0:
                            break
                        depth -= 1
                    elif ch == ',' and depth == 0:
                        break
                i += 1
            body = self.text[b0:i]
            params = m.group(1)
            pure = (re.fullmatch(r'[\w\s.*&!<>=|+\-()]+', body) is not None and not re.search(r'[A-Za-z_]\w*\s*\(', body)
                    and re.search(r'<=|>=|==|!=|<|>|&&|\|\|', body) is not None and '_' not in re.sub(r'\w+', lambda q: '' if q.group(0) != '_' else '_', params)
                    and not re.search(r'forall\||exists\||choose\||Seq::new|assert|invariant|ensures|requires|spec fn|proof|decreases', line))
            if pure and body.strip():
                new = f"-> (__r: bool) ensures __r == ({body.strip()}) {{ {body.strip()} }}"
                self.text = self.text[:b0] + new + self.text[i:]
                cnt += 1
                pos = b0 + len(new)
            else:
                pos = b0
        if cnt:
            self.note('V-CLOSURE', cnt, 'automatic: predicate closure with a pure boolean expression body gets `-> (__r: bool) ensures __r == (body)`; body verbatim')
        return cnt

    def unannotated_closures(self):
        """exec closures of the extracted code that carry no contract (`|x| body` without `-> (r: T) ensures ..`): the
        verifier treats their result as arbitrary, so a failure in this function may be an artefact."""
        s = self._src()
        out = []
        for m in re.finditer(r'(?:[(,=]|\breturn|=>)\s*(?:move\s+)?\|([^|\n]*)\|\s*(?!->)(\S)', self.text):
            if not s.mask[m.start()]:
                continue
            if '-> (' in self.text[m.end() - 1:m.end() + 6]:
                continue
            line = self.text[self.text.rfind('\n', 0, m.start()) + 1:self.text.find('\n', m.end())]
            if re.search(r'forall\||exists\||choose\||Seq::new|assert|invariant|ensures|requires|spec fn|proof|decreases', line):
                continue
            out.append(line.strip()[:100])
        return out

    def fmt(self, text):
        names = getattr(self, 'names', {})
        return re.sub(r'§(\w+)§', lambda m: names.get(m.group(1), m.group(1)), text)

    def _find_anchor(self, anchor, nth=1):
        """(start, end) of the nth occurrence of anchor (str or compiled regex) or None."""
        if isinstance(anchor, str):
            anchor = self.fmt(anchor)
        if hasattr(anchor, 'finditer'):
            ms = list(anchor.finditer(self.text))
            if len(ms) < nth:
                return None
            return ms[nth - 1].start(), ms[nth - 1].end()
        idx = -1
        start = 0
        for _ in range(nth):
            idx = self.text.find(anchor, start)
            if idx < 0:
                return None
            start = idx + 1
        return idx, idx + len(anchor)

    def _lost(self, anchor):
        if not hasattr(self, 'lost_hints'):
            self.lost_hints = []
        self.lost_hints.append(getattr(anchor, 'pattern', anchor))

    def insert_before(self, anchor, text, cls='V-SPEC', nth=1, optional=False):
        if hasattr(anchor, 'finditer') or getattr(self, 'tolerant', True):
            pos = self._find_anchor(anchor, nth)
            if pos is None:
                self._lost(anchor)
                return False
            self.text = self.text[:pos[0]] + text + self.text[pos[0]:]
            self.note(cls, 1, f"ghost text before {getattr(anchor, 'pattern', anchor)!r}")
            return True
        return self._insert_before_strict(anchor, text, cls, nth, optional)

    def _insert_before_strict(self, anchor, text, cls='V-SPEC', nth=1, optional=False):
        idx = -1
        start = 0
        for _ in range(nth):
            idx = self.text.find(anchor, start)
            if idx < 0:
                break
            start = idx + 1
        if idx < 0:
            if optional:
                return False
            raise ScanError(f"{self.what}: anchor not found: {anchor!r}")
        # keep indentation: insert at start of the line containing the anchor if anchor begins a statement
        self.text = self.text[:idx] + text + self.text[idx:]
        self.note(cls, 1, f"ghost text before {anchor!r}")
        return True

    def insert_after(self, anchor, text, cls='V-SPEC', nth=1, optional=False):
        pos = self._find_anchor(anchor, nth)
        if pos is None:
            self._lost(anchor)
            return False
        self.text = self.text[:pos[1]] + text + self.text[pos[1]:]
        self.note(cls, 1, f"ghost text after {getattr(anchor, 'pattern', anchor)!r}")
        return True

    def _insert_after_strict(self, anchor, text, cls='V-SPEC', nth=1, optional=False):
        idx = -1
        start = 0
        for _ in range(nth):
            idx = self.text.find(anchor, start)
            if idx < 0:
                break
            start = idx + 1
        if idx < 0:
            if optional:
                return False
            raise ScanError(f"{self.what}: anchor not found: {anchor!r}")
        idx += len(anchor)
        self.text = self.text[:idx] + text + self.text[idx:]
        self.note(cls, 1, f"ghost text after {anchor!r}")
        return True

    def insert_after_stmt(self, anchor, text, cls='V-SPEC'):
        """insert ghost text after the statement that starts with `anchor` (up to its terminating `;` at bracket depth 0)."""
        pos = self._find_anchor(anchor)
        if pos is None:
            self._lost(anchor)
            return False
        idx = pos[0]
        s = self._src()
        depth = 0
        i = idx
        while i < len(self.text):
            if s.mask[i]:
                ch = self.text[i]
                if ch in '([{':
                    depth += 1
                elif ch in ')]}':
                    depth -= 1
                elif ch == ';' and depth == 0:
                    break
            i += 1
        if i >= len(self.text):
            raise ScanError(f"{self.what}: statement end not found after {anchor!r}")
        self.text = self.text[:i + 1] + text + self.text[i + 1:]
        self.note(cls, 1, f"ghost text after the statement starting with {anchor!r}")

    def annotate_closure(self, call, params, ret, ensures, nth=1, requires=None, obl=None):
        """V-CLOSURE: the closure passed as (last) argument of the nth `call` (e.g. '.filter(') gets explicit
        parameter types, a named result and an `ensures` clause.  The closure *body text is kept byte for
        byte*; only `|a, b|` becomes `|a: T, b: U| -> (r: R) ensures E { body }`."""
        s = self._src()
        idx = -1
        if hasattr(call, 'finditer'):
            # regex anchor (must end with the opening parenthesis of the call)
            ms = [m for m in call.finditer(self.text) if s.mask[m.start()]]
            if len(ms) >= nth:
                idx = ms[nth - 1].start()
                call_len = ms[nth - 1].end() - ms[nth - 1].start()
            call_repr = call.pattern
        else:
            call_repr = call
            call_len = len(call)
            start = 0
            for _ in range(nth):
                idx = self.text.find(call, start)
                while idx >= 0 and not s.mask[idx]:
                    idx = self.text.find(call, idx + 1)
                if idx < 0:
                    break
                start = idx + 1
        if idx < 0:
            # the closure is gone (e.g. the combinator was written out as a match): nothing to annotate
            self._lost(f'closure {call_repr}')
            return False
        open_paren = idx + call_len - 1
        if self.text[open_paren] != '(':
            raise ScanError(f"{self.what}: closure anchor must end with '(': {call_repr!r}")
        close = s.match_close(open_paren)
        inner = self.text[open_paren + 1:close]
        mm = re.match(r'(\s*)(move\s+)?\|([^|]*)\|\s*', inner)
        if not mm:
            raise ScanError(f"{self.what}: argument of {call_repr!r} is not a closure")
        body = inner[mm.end():].rstrip()
        tail_ws = inner[len(inner.rstrip()):]
        if body.endswith(','):
            body = body[:-1].rstrip()
        if body.startswith('{') and s.match_close(open_paren + 1 + mm.end()) == open_paren + 1 + mm.end() + len(body) - 1:
            blk = body
        else:
            blk = '{ ' + body + ' }'
        spec = ''
        if requires:
            spec += f' requires {requires}'
        spec += f' ensures {ensures}' + (f' /* #obl:{obl} */' if obl else '')
        new_inner = f"{mm.group(1)}{mm.group(2) or ''}|{params}| -> ({ret}){spec} {blk}{tail_ws}"
        self.text = self.text[:open_paren + 1] + new_inner + self.text[close:]
        self.note('V-CLOSURE', 1, f"closure in {call_repr!r}: params `{mm.group(3)}` typed as `{params}`, result named, ensures added; body kept verbatim")

    def expand_local_macro(self, name):
        """V-MACRO: a single-arm `macro_rules! name { (params) => {{ body }}; }` defined inside the function is removed and
        every invocation `name!(args);` is replaced by `{ body[params := args] }` (textual substitution, what rustc does)."""
        s = self._src()
        mm = re.search(r'macro_rules!\s*' + re.escape(name) + r'\s*\{', self.text)
        if not mm:
            raise ScanError(f"{self.what}: local macro {name} not found")
        ob = mm.end() - 1
        cb = s.match_close(ob)
        inner = self.text[ob + 1:cb]
        pm = re.match(r'\s*\((?P<params>[^)]*)\)\s*=>\s*\{', inner)
        if not pm:
            raise ScanError(f"{self.what}: macro {name}: unsupported arm shape")
        params = re.findall(r'\$(\w+):\w+', pm.group('params'))
        body_open = ob + 1 + pm.end() - 1
        body_close = s.match_close(body_open)
        body = self.text[body_open + 1:body_close]
        # drop the macro definition (and a trailing `;`)
        end = cb + 1
        while end < len(self.text) and self.text[end] in ' \t':
            end += 1
        if end < len(self.text) and self.text[end] == ';':
            end += 1
        self.text = self.text[:mm.start()] + self.text[end:]
        # expand invocations
        cnt = 0
        while True:
            s = self._src()
            im = None
            for cand in re.finditer(re.escape(name) + r'!\(', self.text):
                if s.mask[cand.start()]:
                    im = cand
                    break
            if not im:
                break
            op = im.end() - 1
            cl = s.match_close(op)
            args, depth, cur = [], 0, ''
            for q in range(op + 1, cl):
                ch = self.text[q]
                if s.mask[q] and ch in '([{':
                    depth += 1
                elif s.mask[q] and ch in ')]}':
                    depth -= 1
                if s.mask[q] and ch == ',' and depth == 0:
                    args.append(cur.strip()); cur = ''
                else:
                    cur += ch
            if cur.strip():
                args.append(cur.strip())
            if len(args) != len(params):
                raise ScanError(f"{self.what}: macro {name}: arity mismatch")
            b = body
            for pn, av in zip(params, args):
                b = re.sub(r'\$' + pn + r'\b', lambda _m, av=av: av, b)
            e = cl + 1
            if e < len(self.text) and self.text[e] == ';':
                e += 1
            self.text = self.text[:im.start()] + '{' + b + '}' + self.text[e:]
            cnt += 1
        self.note('V-MACRO', cnt, f"local macro_rules! {name} expanded at {cnt} call sites by textual substitution of {params}")

    def desugar_assert(self):
        """V-ASSERT: `assert!(E);` / `debug_assert!(E);` -> `{ let __c: bool = E; if !__c { rust_panic(); } }` where rust_panic() requires false
        (so the absence of the panic is a proof obligation and Verus syntax may be used inside E)."""
        s = self._src()
        out = []
        last = 0
        cnt = 0
        for mm in re.finditer(r'\b(?:debug_)?assert!\(', self.text):
            if not s.mask[mm.start()] or mm.start() < last:
                continue
            op = mm.end() - 1
            cl = s.match_close(op)
            inner = self.text[op + 1:cl]
            # drop a trailing message argument `, "..."`: keep the text up to the first top-level comma
            depth = 0
            for q in range(op + 1, cl):
                if not s.mask[q]:
                    continue
                ch = self.text[q]
                if ch in '([{':
                    depth += 1
                elif ch in ')]}':
                    depth -= 1
                elif ch == ',' and depth == 0:
                    inner = self.text[op + 1:q]
                    break
            j = cl + 1
            while j < len(self.text) and self.text[j] in ' \t':
                j += 1
            if j < len(self.text) and self.text[j] == ';':
                j += 1
            out.append(self.text[last:mm.start()])
            out.append('{ let __c: bool = ' + inner.strip() + '; if !__c { rust_panic(); } }')
            last = j
            cnt += 1
        out.append(self.text[last:])
        self.text = ''.join(out)
        self.note('V-ASSERT', cnt, '`assert!(E);` -> `{ let __c: bool = E; if !__c { rust_panic(); } }` with `fn rust_panic() requires false`')

    # --- V-ITER: declared desugarings of std iterator adapter chains (templates, see DESIGN.md 3.3) ---------
    def iter_skip_take_foreach(self, nth=1):
        """X.iter_mut().skip_while(|w| P).take_while(|w| Q).for_each(|w| { B });  ->  two index loops.
        P, Q and B are copied verbatim."""
        rx = re.compile(r'(?P<x>[A-Za-z_]\w*(?:\s*\.\s*[A-Za-z_]\w*)*?)\s*\.iter_mut\(\)\s*\.skip_while\(\|(?P<v1>\w+)\|\s*(?P<p>[^)]*?)\)\s*'
                        r'\.take_while\(\|(?P<v2>\w+)\|\s*(?P<q>[^)]*?)\)\s*\.for_each\(\|(?P<v3>\w+)\|\s*\{(?P<b>.*?)\}\s*\);', re.S)
        m = None
        it = list(rx.finditer(self.text))
        if len(it) < nth:
            raise ScanError(f"{self.what}: V-ITER skip_while/take_while/for_each chain #{nth} not found")
        m = it[nth - 1]
        x = re.sub(r'\s+', '', m.group('x'))
        new = (f"let mut __i: usize = 0;\n"
               f"                while __i < {x}.len() && ({re.sub(chr(92) + 'b' + m.group('v1') + chr(92) + 'b', x + '[__i]', m.group('p').strip())}) {{ __i += 1; }}\n"
               f"                while __i < {x}.len() && ({re.sub(chr(92) + 'b' + m.group('v2') + chr(92) + 'b', x + '[__i]', m.group('q').strip())}) {{\n"
               f"                    {{ let {m.group('v3')} = &mut {x}[__i];{m.group('b')}}}\n"
               f"                    __i += 1;\n"
               f"                }}\n"
               f"                /*@foreach_end*/")
        self.text = self.text[:m.start()] + new + self.text[m.end():]
        self.note('V-ITER', 1, '`X.iter_mut().skip_while(|w| P).take_while(|w| Q).for_each(|w| {B});` -> `let mut __i = 0; while __i < X.len() && (P[w := X[__i]]) { __i += 1; } while __i < X.len() && (Q[w := X[__i]]) { { let w = &mut X[__i]; B } __i += 1; }` (P, Q with the closure parameter substituted, B verbatim)')

    def iter_partition_point(self, nth=1):
        """let S = X.partition_point(|w| P);  ->  linear scan for the first element falsifying P.
        Equal to the binary search of std when X is partitioned w.r.t. P (an obligation of the unit)."""
        rx = re.compile(r'let (?P<s>\w+)(?:\s*:\s*[\w<>:]+)? = (?P<x>[A-Za-z_]\w*(?:\s*\.\s*[A-Za-z_]\w*)*?)\s*\.partition_point\(\|(?P<v>\w+)\|\s*(?P<p>[^)]*?)\);')
        it = list(rx.finditer(self.text))
        if len(it) < nth:
            raise ScanError(f"{self.what}: V-ITER partition_point #{nth} not found")
        m = it[nth - 1]
        x, sv = re.sub(r'\s+', '', m.group('x')), m.group('s')
        if not hasattr(self, 'names'):
            self.names = {}
        self.names['partition_point_var'] = sv
        new = (f"let mut {sv}: usize = 0;\n"
               f"        while {sv} < {x}.len() && ({re.sub(chr(92) + 'b' + m.group('v') + chr(92) + 'b', x + '[' + sv + ']', m.group('p').strip())}) {{ {sv} += 1; }};")
        self.text = self.text[:m.start()] + new + self.text[m.end():]
        self.note('V-ITER', 1, '`let s = X.partition_point(|w| P);` -> `let mut s = 0; while s < X.len() && P[X[s]] { s += 1; }` (P verbatim; equal to std binary search on a partitioned sequence)')

    def iter_drain_filter_map_collect(self, nth=1):
        """X.drain(R).filter(|w| F).map(|w| M).collect()  ->  pop_front loop pushing M for the elements satisfying F.
        R is `..` or `..split`."""
        rx = re.compile(r'(?P<x>[A-Za-z_]\w*(?:\s*\.\s*[A-Za-z_]\w*)*?)\s*\.drain\((?P<r>\.\.\w*)\)\s*\.(?P<ad>filter|take_while)\(\|(?P<v1>\w+)\|\s*(?P<f>[^)]*?)\)\s*'
                        r'\.map\(\|(?P<v2>\w+)\|\s*(?P<m>.*?)\)\s*\.collect\(\)', re.S)
        it = list(rx.finditer(self.text))
        if len(it) < nth:
            raise ScanError(f"{self.what}: V-ITER drain/filter/map/collect chain #{nth} not found")
        m = it[nth - 1]
        x = re.sub(r'\s+', '', m.group('x'))
        rng = m.group('r')
        cond = f"{x}.len() > 0" if rng == '..' else f"__j < {rng[2:]}"
        counter = '' if rng == '..' else ' let mut __j: usize = 0;'
        step = '' if rng == '..' else '                __j += 1;\n'
        if m.group('ad') == 'take_while':
            # take_while stops yielding at the first element falsifying F; dropping the Drain still removes the whole range
            counter += ' let mut __stop: bool = false;'
            test = f"!__stop && {{ let {m.group('v1')} = &__w; {m.group('f').strip()} }}"
            orelse = ' else { __stop = true; }'
        else:
            test = f"{{ let {m.group('v1')} = &__w; {m.group('f').strip()} }}"
            orelse = ''
        new = (f"{{ let mut __out = Vec::new();{counter}\n"
               f"            while {cond} {{\n"
               f"                let __w = {x}.pop_front().unwrap();\n"
               f"                if {test} {{ let {m.group('v2')} = __w; __out.push({m.group('m').strip()}); }}{orelse}\n"
               f"{step}"
               f"            }}\n"
               f"            /*@drain_end*/\n"
               f"            __out }}")
        self.text = self.text[:m.start()] + new + self.text[m.end():]
        self.note('V-ITER', 1, '`X.drain(R).filter|take_while(|w| F).map(|w| M).collect()` -> loop popping the whole range from the front, pushing M for the elements the adapter yields (F, M verbatim)')

    def iter_flat_map_collect(self, nth=1):
        """let D = X.into_iter().flat_map(|v| { B; res }).collect::<Vec<_>>();  ->  loop over the iterator appending the
        Vec produced by the closure body for each element (B verbatim)."""
        rx = re.compile(r'let (?P<d>\w+) = (?P<x>\w+)\s*\.into_iter\(\)\s*\.flat_map\(\|(?P<v>\w+)\|\s*\{(?P<b>.*?)\}\)\s*\.collect::<Vec<_>>\(\);', re.S)
        it = list(rx.finditer(self.text))
        if len(it) < nth:
            raise ScanError(f"{self.what}: V-ITER into_iter/flat_map/collect chain #{nth} not found")
        m = it[nth - 1]
        d, xv, v, b = m.group('d'), m.group('x'), m.group('v'), m.group('b')
        new = (f"let mut {d} = Vec::new();\n"
               f"        let mut __it = {xv}.into_iter();\n"
               f"        loop {{\n"
               f"            match __it.next() {{\n"
               f"                None => {{ break; }}\n"
               f"                Some({v}) => {{\n"
               f"                    /*@flat_map_item*/\n"
               f"                    let mut __part = {{{b}}};\n"
               f"                    {d}.append(&mut __part);\n"
               f"                    /*@flat_map_item_end*/\n"
               f"                }}\n"
               f"            }}\n"
               f"        }}\n"
               f"        /*@flat_map_end*/")
        self.text = self.text[:m.start()] + new + self.text[m.end():]
        self.note('V-ITER', 1, '`let D = X.into_iter().flat_map(|v| {B}).collect::<Vec<_>>();` -> `let mut D = Vec::new(); let mut __it = X.into_iter(); loop { match __it.next() { None => break, Some(v) => { let mut __part = {B}; D.append(&mut __part); } } }` (B verbatim)')

    def iter_repeat_collect(self, nth=1):
        """(0..N).map(|_| E).collect()  ->  a block building a Vec with N copies of E."""
        rx = re.compile(r'\(0\.\.(?P<n>\w+)\)\s*\.map\(\|_\|\s*(?P<e>[^)]*?)\)\s*\.collect\(\)', re.S)
        it = list(rx.finditer(self.text))
        if len(it) < nth:
            raise ScanError(f"{self.what}: V-ITER (0..N).map(|_| E).collect() #{nth} not found")
        m = it[nth - 1]
        n, e = m.group('n'), m.group('e').strip()
        new = (f"{{ let mut __v = Vec::new(); let mut __k: usize = 0;\n"
               f"                    while __k < {n} {{ __v.push({e}); __k += 1; }}\n"
               f"                    /*@repeat_end*/\n"
               f"                    __v }}")
        self.text = self.text[:m.start()] + new + self.text[m.end():]
        self.note('V-ITER', 1, '`(0..N).map(|_| E).collect()` -> `{ let mut __v = Vec::new(); let mut __k = 0; while __k < N { __v.push(E); __k += 1; } __v }` (E verbatim)')

    def iter_extend_map(self, nth=1):
        """Q.extend(R.into_iter().map(|e| EXPR));  ->  pop-front loop over R pushing EXPR to the back of Q (EXPR verbatim)."""
        rx = re.compile(r'(?P<q>[A-Za-z_][\w\.]*?)\s*\.extend\(\s*(?P<r>\w+)\s*\.into_iter\(\)\s*\.map\(\|(?P<v>\w+)\|\s*(?P<e>.*?)\),?\s*\);', re.S)
        s = self._src()
        it = [m for m in rx.finditer(self.text) if s.mask[m.start()]]
        if len(it) < nth:
            raise ScanError(f"{self.what}: V-ITER extend/into_iter/map #{nth} not found")
        m = it[nth - 1]
        q, r, v, e = re.sub(r'\s+', '', m.group('q')), m.group('r'), m.group('v'), m.group('e').strip()
        new = (f"{{ let mut __it = {r}; /*@extend_begin*/\n"
               f"                        while __it.len() > 0 {{ let {v} = __it.remove(0); {q}.push_back({e}); /*@extend_item*/ }}\n"
               f"                        /*@extend_end*/ }}")
        self.text = self.text[:m.start()] + new + self.text[m.end():]
        self.note('V-ITER', 1, '`Q.extend(R.into_iter().map(|e| EXPR));` -> `let mut __it = R; while __it.len() > 0 { let e = __it.remove(0); Q.push_back(EXPR); }` (EXPR verbatim)')

    def iter_retain(self, nth=1):
        """M.retain(|k, v| { STMTS; KEEP });  ->  loop over the keys of the map-view model (arbitrary order): the entry is borrowed
        mutably for STMTS and KEEP, and removed when KEEP is false (STMTS and KEEP verbatim)."""
        rx = re.compile(r'(?P<m>[A-Za-z_][\w\.]*?)\s*\.retain\(\|(?P<k>\w+), (?P<v>\w+)\|\s*\{', re.S)
        s = self._src()
        it = [m for m in rx.finditer(self.text) if s.mask[m.start()]]
        if len(it) < nth:
            raise ScanError(f"{self.what}: V-ITER retain #{nth} not found")
        m = it[nth - 1]
        ob = m.end() - 1
        cb = s.match_close(ob)
        body = self.text[ob + 1:cb]
        # the statement `.retain( ... );` ends after the closure's closing brace: `})` then `;`
        tail = re.match(r'\s*\)\s*;', self.text[cb + 1:])
        if not tail:
            raise ScanError(f"{self.what}: V-ITER retain: unexpected text after the closure")
        end = cb + 1 + tail.end()
        # split the closure body into statements and the final expression (after the last `;` at depth 0)
        depth = 0
        last_semi = -1
        for i in range(ob + 1, cb):
            if not s.mask[i]:
                continue
            ch = self.text[i]
            if ch in '([{':
                depth += 1
            elif ch in ')]}':
                depth -= 1
            elif ch == ';' and depth == 0:
                last_semi = i
        stmts = self.text[ob + 1:last_semi + 1]
        keep = self.text[last_semi + 1:cb].strip()
        mp, k, v = re.sub(r'\s+', '', m.group('m')), m.group('k'), m.group('v')
        new = (f"{{ let __keys = {mp}.keys_vec(); let mut __q: usize = 0; /*@retain_begin*/\n"
               f"                    while __q < __keys.len() {{\n"
               f"                        let {k} = &__keys[__q]; /*@retain_key*/\n"
               f"                        let __keep: bool = {{ let {v} = {mp}.get_mut_some({k});{stmts}\n                            {keep} }};\n"
               f"                        /*@retain_decided*/\n"
               f"                        if !__keep {{ {mp}.remove({k}); }}\n"
               f"                        __q += 1; /*@retain_step*/\n"
               f"                    }}\n"
               f"                    /*@retain_end*/ }}")
        self.text = self.text[:m.start()] + new + self.text[end:]
        self.note('V-ITER', 1, '`M.retain(|k, v| { S; KEEP });` -> `for k in M.keys_vec() { let keep = { let v = M.get_mut_some(k); S; KEEP }; if !keep { M.remove(k); } }` over the map-view model, keys in arbitrary order (S, KEEP verbatim)')

    # --- function-shaped fragments -----------------------------------------------------------
    def fn_body_open(self):
        s = self._src()
        mm = next(s.find_code(r'\bfn\s+[A-Za-z_]'), None)
        if mm is None:
            raise ScanError(f"{self.what}: not a function")
        ob = s.body_open(mm.end())
        if ob < 0:
            raise ScanError(f"{self.what}: function without body")
        return ob

    def insert_at_body_start(self, text):
        ob = self.fn_body_open()
        self.text = self.text[:ob + 1] + text + self.text[ob + 1:]
        self.note('V-SPEC', 1, 'ghost text at function body start')

    def add_spec(self, spec):
        """insert requires/ensures between the signature and the body."""
        ob = self.fn_body_open()
        self.text = self.text[:ob].rstrip() + '\n' + spec.rstrip() + '\n' + self.text[ob:]
        self.note('V-SPEC', 1, 'requires/ensures after signature')

    def name_result(self, name):
        """`-> T {` becomes `-> (name: T) {` (Verus syntax for naming the result)."""
        s = self._src()
        ob = self.fn_body_open()
        mm = next(s.find_code(r'\bfn\s+[A-Za-z_]'), None)
        sig = self.text[mm.start():ob]
        # find the last top-level '->' in sig
        depth = 0
        arrow = -1
        for i, ch in enumerate(sig):
            if ch in '(<[':
                depth += 1
            elif ch in ')]':
                depth -= 1
            elif ch == '>' and sig[i - 1] != '-':
                depth -= 1
            if sig.startswith('->', i) and depth == 0:
                arrow = i
        if arrow < 0:
            raise ScanError(f"{self.what}: no return type to name")
        ret = sig[arrow + 2:]
        mwh = re.search(r'\bwhere\b', ret)
        ty = ret[:mwh.start()] if mwh else ret
        rest = ret[mwh.start():] if mwh else ''
        new_sig = sig[:arrow] + f'-> ({name}: {ty.strip()})' + ('\n' + rest if rest else ' ')
        self.text = self.text[:mm.start()] + new_sig + self.text[ob:]
        self.note('V-SPEC', 1, f'result named {name}')

    def deref_patterns(self):
        """V-PAT: a match arm `Some(&x) => E` (by-copy deref pattern; Verus has no ref patterns) ->
        `Some(__p_x) => { let x = *__p_x; E }` (E verbatim)."""
        cnt = 0
        while True:
            s = self._src()
            mm = next((m for m in re.finditer(r'\bSome\(&(\w+)\)\s*=>\s*', self.text) if s.mask[m.start()]), None)
            if not mm:
                break
            x = mm.group(1)
            i = mm.end()
            if self.text[i] == '{':
                e = s.match_close(i) + 1
                body = self.text[i:e]
                comma = ''
            else:
                depth = 0
                e = i
                while e < len(self.text):
                    ch = self.text[e]
                    if s.mask[e]:
                        if ch in '([{':
                            depth += 1
                        elif ch in ')]}':
                            if depth == 0:
                                break
                            depth -= 1
                        elif ch == ',' and depth == 0:
                            break
                    e += 1
                body = self.text[i:e].rstrip()
                comma = ''
            self.text = self.text[:mm.start()] + f"Some(__p_{x}) => {{ let {x} = *__p_{x}; {body} }}" + comma + self.text[e:]
            cnt += 1
        self.note('V-PAT', cnt, '`Some(&x) => E` -> `Some(__p_x) => { let x = *__p_x; E }` (Verus has no ref patterns; E verbatim)')
        return cnt

    def pull_hint(self, hint, indent='            '):
        """ghost text right after the element is pulled from `self.prev`.  `hint` names the pulled element `__e`.
        `match self.prev.next() {` -> `let __e = self.prev.next(); <hint> match __e {` (scrutinee bound to a ghost-visible name);
        if the code already binds it (`let x = self.prev.next();`) the hint is placed after that statement with x for __e."""
        s = self._src()
        m = next((m for m in re.finditer(r'match self\.prev\.next\(\) \{', self.text) if s.mask[m.start()]), None)
        if m:
            self.text = self.text[:m.start()] + 'let __e = self.prev.next();\n' + indent + hint + '\n' + indent + 'match __e {' + self.text[m.end():]
            self.note('V-SPEC', 1, 'scrutinee bound to a ghost-visible name `__e`')
            return '__e'
        m = next((m for m in re.finditer(r'let (?:mut )?(\w+)(?:\s*:[^=;]*)? = self\.prev\.next\(\);', self.text) if s.mask[m.start()]), None)
        if m:
            name = m.group(1)
            self.text = self.text[:m.end()] + '\n' + indent + re.sub(r'\b__e\b', name, hint) + self.text[m.end():]
            self.note('V-SPEC', 1, f'ghost text after `let {name} = self.prev.next();`')
            return name
        raise ScanError(f"{self.what}: the statement pulling from self.prev was not found")

    def loops(self):
        """[(kw_idx, body_open_idx)] of while/for/loop headers inside the fn body, in source order."""
        s = self._src()
        ob = self.fn_body_open()
        res = []
        for mm in s.find_code(r'\b(while|for|loop)\b', ob):
            kw = mm.group(1)
            if kw == 'for':
                # skip `for<'a>` HRTB and `impl X for Y`
                after = self.text[mm.end():mm.end() + 2]
                if after.lstrip().startswith('<'):
                    continue
            b = s.body_open(mm.end())
            if b < 0:
                continue
            res.append((mm.start(), b))
        return res

    def insert_after_loop(self, ordinal, text):
        """ghost text right after the closing brace of the n-th loop of the function."""
        ls = self.loops()
        if ordinal < 1 or ordinal > len(ls):
            self._lost(f'loop #{ordinal}')
            return False
        _, b = ls[ordinal - 1]
        e = self._src().match_close(b)
        self.text = self.text[:e + 1] + text + self.text[e + 1:]
        self.note('V-SPEC', 1, f'ghost text after loop #{ordinal}')
        return True

    def insert_at_loop_end(self, ordinal, text):
        """ghost text as the last statement of the body of the n-th loop."""
        ls = self.loops()
        if ordinal < 1 or ordinal > len(ls):
            self._lost(f'loop #{ordinal}')
            return False
        _, b = ls[ordinal - 1]
        e = self._src().match_close(b)
        self.text = self.text[:e] + text + self.text[e:]
        self.note('V-SPEC', 1, f'ghost text at the end of the body of loop #{ordinal}')
        return True

    def add_loop_spec(self, ordinal, spec):
        ls = self.loops()
        if ordinal < 1 or ordinal > len(ls):
            raise ScanError(f"{self.what}: loop #{ordinal} not found ({len(ls)} loops)")
        _, b = ls[ordinal - 1]
        self.text = self.text[:b].rstrip() + '\n' + spec.rstrip() + '\n' + self.text[b:]
        self.note('V-SPEC', 1, f'invariant/decreases on loop #{ordinal}')
