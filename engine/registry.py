"""Which units decide which property.  A unit listed with tier 'thorough' only runs in the thorough tier."""

PROPS = {
    'C12': {
        'level': 'proof',
        'units': [
            {'engine': 'verus', 'name': 'count_window', 'tier': 'quick', 'role': 'CountWindowManager::process contract + whole-history lemma'},
            {'engine': 'verus', 'name': 'window_operator', 'tier': 'quick', 'role': 'WindowOperator::next: a data element goes to the manager of its key only (created from init on first use), its results are queued with that key; a control element goes to every manager and is queued AFTER all their results; recycled managers are dropped; the queue is served in order'},
        ],
        'explanation': 'Verus proof, unbounded in N, S, history length and number of open slots, of the per-call contract of '
                       'CountWindowManager::process extracted from /repo, plus the induction lemma_history turning the per-call '
                       'relation into "groups are exactly [jS, jS+N)".',
        'assumptions': [
            'per-key separation (one manager per key, control elements forwarded to every manager) is KeyedWindowManager/WindowOperator code, not covered by this unit',
        ],
    },
    'C15': {
        'level': 'proof',
        'units': [
            {'engine': 'verus', 'name': 'par_range', 'tier': 'quick', 'role': 'IntoParallelSource::generate_iterator for Range<u64> and the 9 macro instances + partition lemma'},
            {'engine': 'verus', 'name': 'file_source', 'tier': 'quick', 'role': 'FileSource::{setup,next}: byte ranges tile the file; a replica emits exactly the lines starting in (lo, hi]'},
            {'engine': 'verus', 'name': 'channel_source', 'tier': 'quick', 'role': 'ChannelSource::next: every received item is emitted once, in order'},
            {'engine': 'verus', 'name': 'csv_source', 'tier': 'quick', 'role': 'byte-range computation of CsvSource::setup: start/end aligned to record boundaries, end of replica g == start of replica g+1, for any file size and replica count'},
            {'engine': 'verus', 'name': 'iterator_source', 'tier': 'quick', 'role': 'IteratorSource::{next,replication}: every item of the iterator once, in order, then one FlushAndRestart, then Terminate forever; a single replica'},
            {'engine': 'verus', 'name': 'csv_next', 'tier': 'quick', 'role': "CsvSource::next: every record of the replica's reader emitted once, in order, as its deserialised item; one FlushAndRestart when the range is exhausted, then Terminate forever"},
        ],
        'explanation': 'Verus proof (unbounded) that every integer-range instance of generate_iterator returns exactly the chunk '
                       '[lo+min(n,i*c), lo+min(n,(i+1)*c)) without panicking for all bounds incl. reversed and near-limit ones, and a pure '
                       'lemma that these chunks are a disjoint cover of the range.',
        'assumptions': [
            'the csv::Reader built over the byte range and quoted record terminators are not under contract',
        ],
    },
    'C02': {
        'level': 'proof',
        'units': [
            {'engine': 'verus', 'name': 'batcher', 'tier': 'quick', 'role': 'Batcher::{enqueue,flush,end}, NetworkMessage::{new_single,new_batch,sender}: view equation all = sent ++ pending'},
            {'engine': 'verus', 'name': 'framing', 'tier': 'quick', 'role': 'remote_send/remote_recv: frame = header ++ body; recv returns the sent (endpoint, message) and consumes exactly one frame'},
            {'engine': 'verus', 'name': 'start_next', 'tier': 'quick', 'exclude_obligations': ['start.progress_on_replica_end'], 'role': 'receiving side: batches are iterated completely and in order (NetworkMessage::into_iter, NetworkDataIterator::next, Start::next stream equation)'},
            {'engine': 'verus', 'name': 'muxdemux', 'tier': 'quick', 'role': 'the forwarding loops of mux_thread / demux_thread: every queued (destination, message) written once in queue order; every decoded (destination, message) handed to the local channel of exactly that destination, in stream order; the loops stop only when the queue is closed / the stream has ended'},
            {'engine': 'verus', 'name': 'network_sender', 'tier': 'quick', 'role': 'NetworkSender::send: a local sender puts the message unchanged on its channel; a remote sender enqueues (its own receiver endpoint, message) on the multiplexer queue; a failed send sends nothing and names the endpoint'},
        ],
        'explanation': 'Verus proof (unbounded buffer length / batch size, every batch mode, every timing) that the real Batcher hands the link '
                       'exactly the enqueued sequence: enqueue appends to the abstract view, flush/end send the whole pending tail as one batch '
                       'stamped with the producer coordinate, nothing is dropped, duplicated or reordered.',
        'assumptions': [
            'flume channels and TCP are reliable FIFOs (R-CHAN, not verified); the forwarding loops of the mux / demux threads are under contract (unit muxdemux), their start-up, connection set-up and shutdown are not',
        ],
    },
    'C03': {
        'level': 'proof',
        'units': [
            {'engine': 'verus', 'name': 'next_strategy', 'tier': 'quick', 'role': 'NextStrategy::index'},
            {'engine': 'verus', 'name': 'end_next', 'tier': 'quick', 'role': 'End::next routing contract'},
            {'engine': 'verus', 'name': 'route_next', 'tier': 'quick', 'role': 'RoutingEnd::next: control elements reach every connected replica'},
            {'engine': 'verus', 'name': 'setup_senders', 'tier': 'quick', 'role': 'End::setup_senders: block_senders partitions the sender indexes into non-empty groups - singletons for All (broadcast), otherwise exactly the senders of one downstream block per group in sorted-endpoint order - i.e. End.inv, the precondition of End::next, is now PROVED on the real body (HashMap by its map view, the two iterator chains desugared by declared templates)'},
            {'engine': 'verus', 'name': 'setup_endpoints', 'tier': 'quick', 'role': 'RoutingEnd::setup_endpoints: endpoint g is route g (same order, block, predicate) with exactly the senders of that block in sorted-endpoint order; the endpoints partition the senders; the structural part of RoutingEnd.inv (precondition of RoutingEnd::next) is now PROVED on the real body'},
        ],
        'explanation': 'Verus proof, for any number of senders/groups, that End::next hands a data element to exactly one sender of every '
                       'downstream group (the one at index(m) mod |group|) and to no other, broadcasts Watermark/FlushAndRestart to every sender, '
                       'Terminate to every sender but the feedback edge; NextStrategy::index returns 0 / keyer(m) / any per connection kind.',
        'assumptions': [
            'builder wiring (which strategy a Stream method passes) is read, not verified',
            'the sort of the senders by endpoint (glidesort / sort_unstable_by_key) is a permutation stub; that every producer sees the same endpoint set is the scheduler\'s business',
        ],
    },
    'C09': {
        'level': 'proof',
        'units': [
            {'engine': 'verus', 'name': 'end_next', 'tier': 'quick', 'role': 'split (one copy per downstream block) and broadcast (All: singleton groups)'},
            {'engine': 'verus', 'name': 'zip', 'tier': 'quick', 'role': 'Zip::next: positional one-to-one pairing, min(|a|,|b|) pairs'},
            {'engine': 'verus', 'name': 'route_next', 'tier': 'quick', 'role': 'RoutingEnd::next: first matching route wins, no other route, unmatched dropped, control to every sender'},
            {'engine': 'verus', 'name': 'binary_select', 'tier': 'quick', 'role': 'merge (and the input side of zip / joins): the two-input receiver delivers every batch it reads from either link element by element, in order, wrapped in the variant of its side (read_step / out_rel); one side is read per call'},
            {'engine': 'verus', 'name': 'merge', 'tier': 'quick', 'role': 'Stream::merge: the unwrapping closure keeps every element of either side unchanged and drops only the side end markers (with binary_select and chain_ops: multiset union)'},
            {'engine': 'verus', 'name': 'setup_senders', 'tier': 'quick', 'role': 'End::setup_senders: block_senders partitions the sender indexes into non-empty groups - singletons for All (broadcast), otherwise exactly the senders of one downstream block per group in sorted-endpoint order - i.e. End.inv, the precondition of End::next, is now PROVED on the real body (HashMap by its map view, the two iterator chains desugared by declared templates)'},
            {'engine': 'verus', 'name': 'setup_endpoints', 'tier': 'quick', 'role': 'RoutingEnd::setup_endpoints: endpoint g is route g (same order, block, predicate) with exactly the senders of that block in sorted-endpoint order; the endpoints partition the senders; the structural part of RoutingEnd.inv (precondition of RoutingEnd::next) is now PROVED on the real body'},
            {'engine': 'verus', 'name': 'replication', 'tier': 'quick', 'role': 'Replication::intersect (what Stream::zip / iterate rely on when they ask for a single replica with scheduling.replication(Replication::One)): the intersection is the most restrictive of the two requirements, in particular anything intersected with One is One'},
        ],
        'explanation': 'End::next sends one copy of every element to each downstream block group (split) and, with singleton groups (All), to every replica (broadcast).',
        'assumptions': [],
    },
    'C18': {
        'level': 'proof',
        'units': [
            {'engine': 'verus', 'name': 'batcher', 'tier': 'quick', 'role': 'enqueue flushes on full batch / expired delay; view independent of batch mode'},
            {'engine': 'verus', 'name': 'end_next', 'tier': 'quick', 'role': 'FlushBatch / FlushAndRestart flush every batcher; Terminate ends every batcher'},
            {'engine': 'verus', 'name': 'start_next', 'tier': 'quick', 'exclude_obligations': ['start.progress_on_replica_end'], 'role': 'a receive timeout is turned into FlushBatch (and only then)'},
            {'engine': 'verus', 'name': 'channel_source', 'tier': 'quick', 'role': 'ChannelSource::next: FlushBatch before every blocking wait; the idle budget restarts after every item'},
            {'engine': 'verus', 'name': 'route_next', 'tier': 'quick', 'role': 'RoutingEnd::next: FlushBatch / FlushAndRestart flush every batcher'},
        ],
        'explanation': 'no-withholding safety: after End::next returns FlushBatch or FlushAndRestart no batcher has pending elements; adaptive/fixed batchers '
                       'flush when full or when the delay expired (clock = any value); the delivered sequence is the same for every batch mode. '
                       'The wall-clock bound itself is NOT decided (liveness/timing).',
        'assumptions': ['wall-clock bound and thread scheduling are out of reach of this technique'],
    },
    'C05': {
        'level': 'proof',
        'units': [
            {'engine': 'verus', 'name': 'start_next', 'tier': 'quick', 'exclude_obligations': ['start.progress_on_replica_end'], 'role': 'Start::next: Terminate / FlushAndRestart accounting, absorbed control elements, per-iteration reset'},
            {'engine': 'verus', 'name': 'reorder', 'tier': 'quick', 'role': 'Reorder::next: FlushAndRestart only when the buffer is empty; nothing carried over'},
            {'engine': 'verus', 'name': 'zip', 'tier': 'quick', 'role': 'Zip::next: stashes cleared at FlushAndRestart'},
            {'engine': 'kani', 'name': 'transaction_window', 'tier': 'quick', 'role': 'TransactionWindowManager::process: nothing carried over at FlushAndRestart (KNOWN-FINDING F8)'},
            {'engine': 'verus', 'name': 'fold', 'tier': 'quick', 'role': 'Fold::next: result before the end marker, reset at FlushAndRestart, Terminate sticky'},
            {'engine': 'verus', 'name': 'keyed_fold', 'tier': 'quick', 'role': 'KeyedFold::next: all results of an iteration, then the held-back watermark, then the end marker; maps and queue empty again after FlushAndRestart; Terminate sticky'},
            {'engine': 'verus', 'name': 'event_time_v', 'tier': 'quick', 'exclude_obligations': ['process.early_element_not_dropped'], 'role': 'event-time windows: everything fires at FlushAndRestart, nothing carried over'},
            {'engine': 'verus', 'name': 'count_window', 'tier': 'quick', 'role': 'count windows: slots cleared at FlushAndRestart/Terminate'},
            {'engine': 'verus', 'name': 'channel_source', 'tier': 'quick', 'role': 'ChannelSource::next: one FlushAndRestart when the channel closes, then Terminate forever'},
            {'engine': 'verus', 'name': 'collect_vec', 'tier': 'quick', 'role': 'CollectVecSink::next publishes its result exactly when Terminate arrives (once, complete), nothing before'},
            {'engine': 'verus', 'name': 'window_operator', 'tier': 'quick', 'role': 'WindowOperator::next: a data element goes to the manager of its key only (created from init on first use), its results are queued with that key; a control element goes to every manager and is queued AFTER all their results; recycled managers are dropped; the queue is served in order'},
            {'engine': 'verus', 'name': 'add_timestamps', 'tier': 'quick', 'role': "AddTimestamp::next: item stamped with the generator's timestamp, the generator's watermark leaves in the very next call before anything else is pulled, control elements pass through unchanged; DropTimestamp::next: watermarks absorbed, timestamps stripped, the rest unchanged"},
            {'engine': 'verus', 'name': 'iterator_source', 'tier': 'quick', 'role': 'IteratorSource::{next,replication}: every item of the iterator once, in order, then one FlushAndRestart, then Terminate forever; a single replica'},
            {'engine': 'verus', 'name': 'chain_ops', 'tier': 'quick', 'role': 'Map/KeyBy/FilterMap/Filter/Inspect::next and StreamElement::map: one output per surviving input in pull order, kind and timestamp kept, control elements (Watermark, FlushBatch, FlushAndRestart, Terminate) pass through unchanged and are never created or swallowed; filters drop exactly the rejected data elements'},
            {'engine': 'verus', 'name': 'sinks', 'tier': 'quick', 'role': 'ForEach / CollectCountSink / CollectChannelSink::next: every data element consumed exactly once in arrival order (closure call log, running count, channel log); result published / channel closed exactly at Terminate; control elements forwarded unchanged'},
            {'engine': 'verus', 'name': 'flat_map', 'tier': 'quick', 'role': "FlatMap::next: the items of an input element leave one per call in order, stamped with that element's timestamp; the next input is pulled only when the iterator is exhausted, so control elements (Watermark) leave unchanged and only after every derived item"},
            {'engine': 'verus', 'name': 'sort_merge', 'tier': 'quick', 'role': "JoinLocalSortMerge::{discard_right,next} (NARROWED: the iteration protocol around the merge): sides stored with their keyer's key, sorted at their end marker, tuples only after both sides ended, unmatched right element padded once iff outer, constructor state restored at FlushAndRestart (nothing carried over). The merge loop  is ASSUMED, not verified"},
            {'engine': 'verus', 'name': 'interval_join', 'tier': 'quick', 'role': "IntervalJoin::{advance,next} (NARROWED: soundness + iteration protocol): a left element is queued at the back of the left queue, a right element at the back of its key's queue, with their timestamps; every emitted tuple pairs a left and a right element stored under the SAME key with lt - lower <= rt <= lt + upper, stamped max(lt, rt); queues are consumed from the front only; both sides are emptied at the end of the iteration and the constructor state is restored at FlushAndRestart (the real code's asserts are proved). Completeness (every pair in the interval emitted) is NOT decided"},
            {'engine': 'verus', 'name': 'rich_map', 'tier': 'quick', 'role': "RichMap::next (keyed stateful map): one instance of the user's function per key, a clone of the initial one at the key's first element; an element is handed exactly once to the instance of ITS key, other keys' state untouched; key, kind and timestamp kept; control elements unchanged and touching no state"},
            {'engine': 'verus', 'name': 'keyed_join', 'tier': 'quick', 'role': 'JoinKeyedInner::{process_item,next} (the inner keyed-stream join): an arriving element is paired in order with EVERY element the other side stored under its key and then stored itself (so every same-key pair is emitted exactly once, when its later element arrives); a store is dropped when the side it serves has ended; both stores empty and flags reset at FlushAndRestart. JoinKeyedOuter::process_item: element arms fully, end arms only which stores / key sets are dropped'},
            {'engine': 'verus', 'name': 'csv_next', 'tier': 'quick', 'role': "CsvSource::next: every record of the replica's reader emitted once, in order, as its deserialised item; one FlushAndRestart when the range is exhausted, then Terminate forever"},
        ],
        'explanation': 'Verus proof of the per-call contract of Start::next (any number of upstream replicas, any batches): FlushAndRestart is returned exactly when every '
                       'upstream FlushAndRestart of the iteration was consumed (and the per-iteration state restarts), Terminate exactly when every upstream Terminate was consumed, '
                       'and then forever; only control elements are absorbed. Stateful operators (folds, joins, windows, reorder, zip) are added as further units.',
        'assumptions': ['termination of next() (it blocks on the network) is not verified', 'Replay/Iterate/IterationLeader as grammar transducers are not covered (their logic is under C10); the outer keyed-stream join is not covered'],
    },
    'C16': {
        'level': 'proof',
        'units': [
            {'engine': 'verus', 'name': 'batcher', 'tier': 'quick', 'role': 'batches are sent whole and in order'},
            {'engine': 'verus', 'name': 'start_next', 'tier': 'quick', 'exclude_obligations': ['start.progress_on_replica_end'], 'role': 'old.unread ++ received == taken ++ new.unread; data returned unchanged in pull order'},
            {'engine': 'verus', 'name': 'end_next', 'tier': 'quick', 'role': 'one sender per group: every element is appended to that sender in arrival order'},
            {'engine': 'verus', 'name': 'reorder', 'tier': 'quick', 'role': 'Reorder::next: releases the minimum first, only when covered by a watermark / iteration end, no loss'},
            {'engine': 'verus', 'name': 'collect_vec', 'tier': 'quick', 'role': 'the sink end of the chain: CollectVecSink::next keeps every data element in arrival order and publishes the whole vector at Terminate'},
            {'engine': 'verus', 'name': 'iterator_source', 'tier': 'quick', 'role': 'IteratorSource::{next,replication}: every item of the iterator once, in order, then one FlushAndRestart, then Terminate forever; a single replica'},
            {'engine': 'verus', 'name': 'chain_ops', 'tier': 'quick', 'role': 'Map/KeyBy/FilterMap/Filter/Inspect::next and StreamElement::map: one output per surviving input in pull order, kind and timestamp kept, control elements (Watermark, FlushBatch, FlushAndRestart, Terminate) pass through unchanged and are never created or swallowed; filters drop exactly the rejected data elements'},
            {'engine': 'verus', 'name': 'sinks', 'tier': 'quick', 'role': 'ForEach / CollectCountSink / CollectChannelSink::next: every data element consumed exactly once in arrival order (closure call log, running count, channel log); result published / channel closed exactly at Terminate; control elements forwarded unchanged'},
            {'engine': 'verus', 'name': 'flat_map', 'tier': 'quick', 'role': "FlatMap::next: the items of an input element leave one per call in order, stamped with that element's timestamp; the next input is pulled only when the iterator is exhausted, so control elements (Watermark) leave unchanged and only after every derived item"},
        ],
        'explanation': 'order preservation along a single-replica path: Batcher view equation (Verus), Start::next stream equation (nothing lost, duplicated or reordered between link and chain), End::next appends in arrival order.',
        'assumptions': ['Collect::next (iter::from_fn over a closure capturing &mut self.prev) is not under contract'],
    },
    'C17': {
        'level': 'proof',
        'units': [
            {'engine': 'verus', 'name': 'start_next', 'tier': 'quick', 'role': 'a pulled watermark that advances the frontier is forwarded at once; no silent frontier progress (KNOWN-FINDING on the FlushAndRestart arm)'},
            {'engine': 'verus', 'name': 'frontier_v', 'tier': 'quick', 'role': 'WatermarkFrontier::update returns Some(new minimum) whenever the minimum increased (O1), any number of replicas'},
            {'engine': 'kani', 'name': 'frontier', 'tier': 'thorough', 'bounded': True, 'role': 'same contract on the real IndexMap, 2 replicas'},
        ],
        'explanation': 'Start::next returns Watermark(new frontier) immediately when a pulled watermark advances the frontier (O2) and never lets the frontier advance silently; '
                       'the obligation fails on the FlushAndRestart arm (update(sender, MAX) result discarded) which is the recorded known finding F1.',
        'assumptions': ['WatermarkFrontier::update contract (unit frontier)'],
    },
    'C06': {
        'level': 'proof',
        'units': [
            {'engine': 'verus', 'name': 'start_next', 'tier': 'quick', 'exclude_obligations': ['start.progress_on_replica_end'], 'role': 'Start::next forwards exactly the frontier announcements; announced watermarks strictly increase; data is never altered'},
            {'engine': 'verus', 'name': 'reorder', 'tier': 'quick', 'role': 'Reorder::next: the watermark follows every buffered element it covers and is forwarded unchanged'},
            {'engine': 'verus', 'name': 'zip', 'tier': 'quick', 'role': 'Zip::next: a pair carries the max of the two timestamps'},
            {'engine': 'verus', 'name': 'event_time_v', 'tier': 'quick', 'exclude_obligations': ['process.early_element_not_dropped'], 'role': 'EventTimeWindowManager::process: after Watermark(w) no window that can still fire has end <= w'},
            {'engine': 'verus', 'name': 'fold', 'tier': 'quick', 'role': 'Fold::next: watermark held back until the result (stamped with the max timestamp) is out'},
            {'engine': 'verus', 'name': 'keyed_fold', 'tier': 'quick', 'role': 'KeyedFold::next: the watermark (max of the iteration\'s watermarks) is held back until every result is out; a result carries the max timestamp of its key'},
            {'engine': 'verus', 'name': 'frontier_v', 'tier': 'quick', 'role': 'WatermarkFrontier::{update,compute_frontier,reset}: front = min of entries or None, returns the new frontier iff it changed, announced values strictly increase (any number of replicas; IndexMap modelled)'},
            {'engine': 'kani', 'name': 'frontier', 'tier': 'thorough', 'bounded': True, 'role': 'same contract on the REAL IndexMap + fxhash, 2 upstream replicas; opt_join complete'},
            {'engine': 'verus', 'name': 'window_operator', 'tier': 'quick', 'role': 'WindowOperator::next: a data element goes to the manager of its key only (created from init on first use), its results are queued with that key; a control element goes to every manager and is queued AFTER all their results; recycled managers are dropped; the queue is served in order'},
            {'engine': 'verus', 'name': 'add_timestamps', 'tier': 'quick', 'role': "AddTimestamp::next: item stamped with the generator's timestamp, the generator's watermark leaves in the very next call before anything else is pulled, control elements pass through unchanged; DropTimestamp::next: watermarks absorbed, timestamps stripped, the rest unchanged"},
            {'engine': 'verus', 'name': 'chain_ops', 'tier': 'quick', 'role': 'Map/KeyBy/FilterMap/Filter/Inspect::next and StreamElement::map: one output per surviving input in pull order, kind and timestamp kept, control elements (Watermark, FlushBatch, FlushAndRestart, Terminate) pass through unchanged and are never created or swallowed; filters drop exactly the rejected data elements'},
            {'engine': 'verus', 'name': 'flat_map', 'tier': 'quick', 'role': "FlatMap::next: the items of an input element leave one per call in order, stamped with that element's timestamp; the next input is pulled only when the iterator is exhausted, so control elements (Watermark) leave unchanged and only after every derived item"},
            {'engine': 'verus', 'name': 'rich_map', 'tier': 'quick', 'role': "RichMap::next (keyed stateful map): one instance of the user's function per key, a clone of the initial one at the key's first element; an element is handed exactly once to the instance of ITS key, other keys' state untouched; key, kind and timestamp kept; control elements unchanged and touching no state"},
        ],
        'explanation': 'per-operator watermark contracts proved on the real next() functions (Verus, unbounded) plus the frontier / event-time window contracts (Kani single-call harnesses, bounded state size).',
        'assumptions': ['W_in: the operator input respects the watermark contract (at sources: the user\'s watermark generator)', 'joins are not under a watermark contract'],
    },
    'C13': {
        'level': 'proof',
        'units': [
            {'engine': 'verus', 'name': 'event_time_v', 'tier': 'quick', 'role': 'EventTimeWindowManager::{alloc_windows,process}: assignment to exactly the covering windows, firing rule, nothing carried over'},
            {'engine': 'kani', 'name': 'transaction_window', 'tier': 'quick', 'exclude_obligations': ['transaction.iteration_end_carries_nothing_over'], 'role': 'TransactionWindowManager::process: commits exactly as the user logic dictates (loop-free harness: complete)'},
            {'engine': 'verus', 'name': 'window_operator', 'tier': 'quick', 'role': 'WindowOperator::next: a data element goes to the manager of its key only (created from init on first use), its results are queued with that key; a control element goes to every manager and is queued AFTER all their results; recycled managers are dropped; the queue is served in order'},
        ],
        'explanation': 'Verus proof (any number of open windows, any size/slide, |t| <= 2^60) on the extracted alloc_windows/process: a non-late element is added to exactly the windows whose '
                       'interval contains it (at least one when it is not before the first open window, at most ceil(size/slide)), a watermark fires exactly the windows it passed, oldest first, '
                       'FlushAndRestart fires everything and carries nothing over. The out-of-order-before-first-window case is the recorded known finding F7.',
        'assumptions': ['iterator chains desugared by the declared V-ITER templates', 'transaction windows: unit transaction_window (Kani) when registered'],
    },
    'C07': {
        'level': 'proof',
        'units': [
            {'engine': 'verus', 'name': 'fold', 'tier': 'quick', 'role': 'Fold::next = sequential left fold of the iteration, one result iff non-empty, timestamp = max'},
            {'engine': 'verus', 'name': 'keyed_fold', 'tier': 'quick', 'role': 'KeyedFold::{process_item,next}: per iteration exactly one result per key that occurs = sequential left fold of the key\'s values from a clone of init (lemma_run_per_key), stamped with the key\'s max timestamp; any HashMap drain order'},
            {'engine': 'verus', 'name': 'two_phase', 'tier': 'quick', 'role': 'lemma: local-then-global fold over any partition equals the sequential fold (assoc/commutative laws as hypotheses)'},
            {'engine': 'verus', 'name': 'aggregators', 'tier': 'quick', 'role': 'the closures of group_by_reduce / reduce / reduce_assoc (first value starts, f folds the rest; partial results merged with f, an empty partial changes nothing) and the (local, global) closure pairs of group_by_avg / group_by_sum / group_by_count: local adds one value (and counts it), global merges partial sums and adds partial counts; lemma: merging the totals of two runs == total of the concatenation (associative +)'},
            {'engine': 'verus', 'name': 'rich_map', 'tier': 'quick', 'role': "RichMap::next (keyed stateful map): one instance of the user's function per key, a clone of the initial one at the key's first element; an element is handed exactly once to the instance of ITS key, other keys' state untouched; key, kind and timestamp kept; control elements unchanged and touching no state"},
        ],
        'explanation': 'Verus proof on the real Fold::next that each iteration yields exactly the sequential left fold of its items (user closure = assumed function), plus a pure lemma that the '
                       'two-phase (local pre-aggregation, then global) form equals the sequential fold for every partition of the input, empty partitions included.',
        'assumptions': ['KeyedFold: std HashMap by its map view, Entry API replaced by its definition (unit keyed_fold)', 'totality / transitivity of the user Ord behind group_by_min/max_element and the final float division of avg are not covered'],
    },
    'C14': {
        'level': 'proof',
        'units': [
            {'engine': 'verus', 'name': 'session_v', 'tier': 'quick', 'role': 'SessionWindowManager::process: every item in exactly one session, sessions emitted whole and once, flushed at iteration end'},
            {'engine': 'verus', 'name': 'processing_time_v', 'tier': 'quick', 'role': 'ProcessingTimeWindowManager::process: item in every window covering now (>=1, <= ceil(size/slide)), closed windows emitted once in order, all flushed at iteration end'},
            {'engine': 'verus', 'name': 'window_operator', 'tier': 'quick', 'role': 'WindowOperator::next: a data element goes to the manager of its key only (created from init on first use), its results are queued with that key; a control element goes to every manager and is queued AFTER all their results; recycled managers are dropped; the queue is served in order'},
        ],
        'explanation': 'Verus proofs on the extracted process functions with the clock modelled as an arbitrary value (every timing explored): conservation of elements for session and '
                       'processing-time windows, unbounded in the number of open windows.',
        'assumptions': ['R-CLOCK integer model of Instant/Duration; clock monotone w.r.t. the first open window'],
    },
    'C19': {
        'level': 'proof',
        'units': [
            {'engine': 'verus', 'name': 'ports', 'tier': 'quick', 'role': 'the port-assignment loop of NetworkTopology::build: port = base_port(host) + rank of the coordinate among its host\'s coordinates in sorted order; two demultiplexers of a host never share a port'},
            {'engine': 'verus', 'name': 'wiring', 'tier': 'quick', 'role': 'the replica-to-replica wiring loop of Scheduler::build_execution_graph: all-to-all on ordinary edges; on forward edges exactly one consumer per producer replica, the same-index one when it exists'},
            {'engine': 'verus', 'name': 'replication', 'tier': 'quick', 'role': 'Replication::{clamp,intersect}, DemuxCoord::{new,includes_channel}, From impls'},
            {'engine': 'verus', 'name': 'placement', 'tier': 'quick', 'role': 'Scheduler::remote_block_info: replicas per host (all cores / min(n, cores) filled host by host / one per host / one) and contiguous global ids in host order; the function never reads the local host id'},
        ],
        'explanation': 'Verus proofs of the placement of a block on the hosts (Scheduler::remote_block_info, any number of hosts and cores: replicas per host per replication kind, global ids contiguous in host order, hence distinct and in [0,#replicas), computed without reading the local host id), of the placement arithmetic (Replication::clamp/intersect) of the demultiplexer coordinate of a link, and of the replica-to-replica wiring loop of build_execution_graph (ordinary edge: all-to-all; forward edge: exactly one consumer per producer replica, the same-index one when it exists - KNOWN FINDING F4 when no same-index consumer exists). '
                       'and of the port-assignment loop of NetworkTopology::build (address of a demultiplexer = host address, base_port + its rank among the host\'s coordinates in the SORTED coordinate list: a function of the set of coordinates only, collision-free per host). NOT under contract: Scheduler::local_block_info, the enumeration loops around the wiring loop, and the collection+sort of the coordinates that precedes the port loop (IndexSet::sort).',
        'assumptions': ['local_block_info is NOT under contract; the coordinate list given to the port loop is sorted and duplicate-free (IndexSet + sort: assumed)', 'base_port + number of demultiplexers of a host <= 65535 (otherwise `base_port + offset` overflows u16: panic in debug builds, wrap-around and colliding ports in release builds)', 'std HashMap modelled by its map view', 'NetworkTopology::connect modelled as appending to a ghost log of links'],
    },
    'C10': {
        'level': 'proof',
        'units': [
            {'engine': 'verus', 'name': 'leader', 'tier': 'quick', 'role': 'IterationLeader::{process_updates, final_result, next}: one delta per end replica folded once per round, stop iff !cond || bound, feedback to every sender once per round, final state once then FlushAndRestart, restart'},
            {'engine': 'verus', 'name': 'iteration_end', 'tier': 'quick', 'role': 'IterationEnd::next: deltas forwarded to the leader, exactly one default delta when the replica saw no element'},
            {'engine': 'verus', 'name': 'replay', 'tier': 'quick', 'role': 'Replay::{input_next, wait_update, next}: round 1 forwards and records the input; later rounds re-feed exactly the recording in order; state lock taken when a round\'s FlushAndRestart goes out; a new round only after the leader\'s verdict was synchronised; Finished drops the recording'},
            {'engine': 'verus', 'name': 'iterate', 'tier': 'quick', 'role': 'Iterate::{input_or_feedback, wait_update, next_input, next_stored, feedback_finished, next}: round 1 forwards the outside input FIFO; later rounds feed back exactly the previous round\'s feedback (up to its FlushAndRestart) in order; new round only after the synchronised verdict; Finished sends the last round\'s elements to the output block in one batch'},
        ],
        'explanation': 'NARROWED scope: Verus proofs of the sequential leader / end / replay / iterate logic of a loop (any number of end replicas and feedback senders, any closures): a round consumes exactly one delta per end '
                       'replica and folds each once in arrival order, the loop stops exactly when the condition is false or the bound is reached, every feedback sender gets the verdict and the state once per '
                       'round, the final state is output once followed by FlushAndRestart and the leader restarts. The central sentence of C10 - every replica on every host evaluates round k against exactly '
                       'the state of round k-1 - is a cross-thread protocol (IterationStateLock, barrier, UnsafeCell) and is NOT decided.',
        'assumptions': ['stale/newer state reads across threads and hosts (IterationStateHandler: lock, barrier, UnsafeCell): not decided - the handler is the environment of unit replay', 'Iterate::input_or_feedback / wait_update are verified (exactly what each link handed out is appended whole, in order, to its own stash; early input is stashed while waiting for the verdict)'],
    },
    'C11': {
        'level': 'proof',
        'units': [
            {'engine': 'verus', 'name': 'binary_select', 'tier': 'quick', 'role': 'BinaryStartReceiver::{select, process_side}, SideReceiver::{recv, reset, is_ended, is_terminated, cache_finished, next_cached_item}, SimpleStartReceiver::{recv, recv_timeout}, StreamElement::map + history lemma lemma_rounds'},
        ],
        'explanation': 'Verus proof of the side-input cache of the two-input receiver, for any number of replicas, batches and rounds and any interleaving of the two links and timeouts: '
                       'the cached side is read from its producers only until its cache is full (never again afterwards) and the cache is then frozen; in the first round what is delivered is exactly '
                       'what is cached, batch by batch, each batch being the wrapped image of the batch read (Terminate kept out, end marker before the last FlushAndRestart); in every later round '
                       'the batches delivered from the cached side are cache[0], cache[1], ... in order, one per call, and a new round starts only after the whole cache was replayed (lemma_rounds: '
                       'induction over any sequence of calls); the outside stream\'s Terminate markers are re-synthesised only when both sides are terminated. '
                       'NOT decided: that the loop terminates (liveness), the interplay with Start\'s own marker counters, and binary_connection choosing which side is cached.',
        'assumptions': ['R-CHAN / R-PROTO environment contracts of the links (see unit assumptions)', 'termination of the loop and marker accounting in Start::next across rounds: not decided here (Start::next is under contract in unit start_next for a single-input receiver model)'],
    },
    'C08': {
        'level': 'proof',
        'units': [
            {'engine': 'verus', 'name': 'hash_join', 'tier': 'quick', 'role': 'JoinLocalHash::{add_item, side_ended}, JoinVariant::{left_outer,right_outer} + lemma_inner_history (all interleavings) + refinement lemmas'},
            {'engine': 'verus', 'name': 'binary_select', 'tier': 'quick', 'role': 'the two-input receiver that feeds every join: each side delivered completely, in order, wrapped in its variant, with the side end marker before the FlushAndRestart that completes the iteration'},
            {'engine': 'verus', 'name': 'sort_merge', 'tier': 'quick', 'role': "JoinLocalSortMerge::{discard_right,next} (NARROWED: the iteration protocol around the merge): sides stored with their keyer's key, sorted at their end marker, tuples only after both sides ended, unmatched right element padded once iff outer, constructor state restored at FlushAndRestart (nothing carried over). The merge loop  is ASSUMED, not verified"},
            {'engine': 'verus', 'name': 'interval_join', 'tier': 'quick', 'role': "IntervalJoin::{advance,next} (NARROWED: soundness + iteration protocol): a left element is queued at the back of the left queue, a right element at the back of its key's queue, with their timestamps; every emitted tuple pairs a left and a right element stored under the SAME key with lt - lower <= rt <= lt + upper, stamped max(lt, rt); queues are consumed from the front only; both sides are emptied at the end of the iteration and the constructor state is restored at FlushAndRestart (the real code's asserts are proved). Completeness (every pair in the interval emitted) is NOT decided"},
            {'engine': 'verus', 'name': 'keyed_join', 'tier': 'quick', 'role': 'JoinKeyedInner::{process_item,next} (the inner keyed-stream join): an arriving element is paired in order with EVERY element the other side stored under its key and then stored itself (so every same-key pair is emitted exactly once, when its later element arrives); a store is dropped when the side it serves has ended; both stores empty and flags reset at FlushAndRestart. JoinKeyedOuter::process_item: element arms fully, end arms only which stores / key sets are dropped'},
        ],
        'explanation': 'NARROWED scope: the local hash join (inner / left / outer), Verus. Per-call contracts of JoinLocalHash::add_item (an arriving element is paired, in order, with every element the other side '
                       'has stored under its key; if there is none and the other side has ended and this side is outer it is emitted once padded with None; it is stored for future matches iff the other side '
                       'has not ended; its key is recorded iff the other side is outer) and side_ended (every element the other side stored under a key the ending side never saw is emitted once padded with '
                       'None, in an arbitrary key order; the other side\'s store is emptied). lemma_inner_history proves over the abstract machine defined by these two relations that for EVERY '
                       'interleaving of the two sides and of their end markers the matched pairs emitted under each key are exactly the relational join (each pair once). '
                       'JoinLocalHash::next is under contract too (dispatch with the flags of the variant, asserts at FlushAndRestart). Sort-merge join: soundness of the merge loop and the iteration protocol around it (unit sort_merge); '
                       'NOT decided: the exact multiset of None-padded tuples over a whole history, completeness of the sort-merge merge loop and of the interval join, the left / outer keyed-stream joins (JoinKeyedOuter), ship strategies (same key hash on both sides).',
        'assumptions': ['HashMap/HashSet by their map/set views; drain order arbitrary', 'JoinLocalSortMerge / IntervalJoin: completeness (every same-key pair / every pair inside the interval / every unmatched outer element emitted) is not decided; which unmatched elements JoinKeyedOuter pads at a side end, JoinKeyedOuter::next, ship.rs: not decided', 'correspondence between the add_item/side_ended contracts and the abstract machine js_step/js_out: same clauses (refinement lemmas for the emitted tuples; the stored-state clauses are syntactically the same expressions)'],
    },
}
