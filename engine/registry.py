"""Which units decide which property.  A unit listed with tier 'thorough' only runs in the thorough tier."""

PROPS = {
    'C12': {
        'level': 'proof',
        'units': [
            {'engine': 'verus', 'name': 'count_window', 'tier': 'quick', 'role': 'CountWindowManager::process contract + whole-history lemma'},
        ],
        'explanation': 'Verus proof, unbounded in N, S, history length and number of open slots, of the per-call contract of '
                       'CountWindowManager::process extracted from /repo, plus the induction lemma_history turning the per-call '
                       'relation into "groups are exactly [jS, jS+N)".',
        'assumptions': [
            'per-key separation (one manager per key, control elements forwarded to every manager) is KeyedWindowManager/WindowOperator code, not covered by this unit',
        ],
    },
}
