"""Which units decide which property.  A unit listed with tier 'thorough' only runs in the thorough tier."""

PROPS = {
    'C12': {
        'level': 'proof',
        'units': [
            {'engine': 'verus', 'name': 'count_window', 'tier': 'quick', 'role': 'CountWindowManager::process contract + whole-history lemma'},
        ],
        'explanation': 'Verus proof, unbounded in N, S, history length and number of open slots, of the per-call contract of '
                       'CountWindowManager::process extracted from /repo, plus the induction lemma_history turning the per-call '
                       'relation into "groups are exactly [jS, jS+N)".',
        'assumptions': [
            'per-key separation (one manager per key, control elements forwarded to every manager) is KeyedWindowManager/WindowOperator code, not covered by this unit',
        ],
    },
    'C15': {
        'level': 'proof',
        'units': [
            {'engine': 'verus', 'name': 'par_range', 'tier': 'quick', 'role': 'IntoParallelSource::generate_iterator for Range<u64> and the 9 macro instances + partition lemma'},
        ],
        'explanation': 'Verus proof (unbounded) that every integer-range instance of generate_iterator returns exactly the chunk '
                       '[lo+min(n,i*c), lo+min(n,(i+1)*c)) without panicking for all bounds incl. reversed and near-limit ones, and a pure '
                       'lemma that these chunks are a disjoint cover of the range.',
        'assumptions': [
            'file/CSV sources: see unit list (FileSource bounded, CsvSource not covered)',
        ],
    },
}
