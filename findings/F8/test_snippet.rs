    /// C05 / F8: an uncommitted transaction window survives FlushAndRestart, so elements of iteration 1
    /// end up in a result of iteration 2.
    #[test]
    fn verif_f8_transaction_window_mixes_iterations() {
        use crate::operator::window::aggr::Fold;
        let window = TransactionWindow::new(|x: &i64| if *x == 99 { TransactionOp::Commit } else { TransactionOp::Continue });
        let fold = Fold::new(Vec::new(), |v: &mut Vec<i64>, el| v.push(el));
        let mut manager = window.build(fold);
        assert!(manager.process(StreamElement::Timestamped(1i64, 0)).is_none());
        assert!(manager.process(StreamElement::FlushAndRestart).is_none()); // iteration 1 ends, nothing committed
        let r = manager.process(StreamElement::Timestamped(99i64, 0)); // iteration 2 commits
        let got = r.unwrap().unwrap_item();
        assert_eq!(got, vec![99], "result of iteration 2 contains elements of iteration 1");
    }
