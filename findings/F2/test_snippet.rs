    /// C06 / F2: after Watermark(10) has been processed (and forwarded by WindowOperator), a later watermark makes the
    /// window [0,10) fire with timestamp 10 <= 10.
    #[test]
    fn verif_f2_result_not_at_or_below_emitted_watermark() {
        let window = EventTimeWindow::tumbling(10);
        let fold = Fold::new(Vec::new(), |v, el| v.push(el));
        let mut manager = window.build(fold);
        assert!(manager.process(StreamElement::Timestamped(1i64, 0)).is_empty());
        let at_w10 = manager.process(StreamElement::Watermark(10));
        let at_w11 = manager.process(StreamElement::Watermark(11));
        // whatever fires after Watermark(10) was passed downstream must carry a timestamp > 10
        for r in at_w11 {
            match r {
                WindowResult::Timestamped(_, t) => assert!(t > 10, "result with timestamp {t} emitted after Watermark(10)"),
                WindowResult::Item(_) => panic!("untimestamped result"),
            }
        }
        let _ = at_w10;
    }
