    /// C13 / F7: an element that is not late but arrives before the first open window is silently dropped,
    /// so the result depends on the arrival order.
    #[test]
    fn verif_f7_out_of_order_element_not_dropped() {
        let window = EventTimeWindow::tumbling(5);
        let fold = Fold::new(Vec::new(), |v, el| v.push(el));
        let mut manager = window.build(fold);
        let mut received: Vec<Vec<i64>> = Vec::new();
        save_result!(manager.process(StreamElement::Timestamped(12i64, 12)), received);
        save_result!(manager.process(StreamElement::Timestamped(10i64, 10)), received); // no watermark yet: not late
        save_result!(manager.process(StreamElement::FlushAndRestart), received);
        let all: Vec<i64> = received.into_iter().flatten().collect();
        assert!(all.contains(&10), "element 10 lost: results {all:?}");
    }
