use renoir::operator::source::IntoParallelSource;
#[test]
fn reversed_i32_yields_nothing() {
    for peers in 1..4u64 { for index in 0..peers {
        let v: Vec<i32> = (10i32..5).generate_iterator(index, peers).collect();
        assert!(v.is_empty(), "reversed range 10..5 replica {index}/{peers} yields {v:?}");
    }}
}
#[test]
fn reversed_u64_yields_nothing() {
    let v: Vec<u64> = (10u64..5).generate_iterator(0, 2).collect();
    assert!(v.is_empty());
}
#[test]
fn usize_near_limit() {
    let s = (1usize << 63) + 5;
    let mut all = vec![];
    for i in 0..2 { all.extend((s..s + 10).generate_iterator(i, 2)); }
    assert_eq!(all, (s..s + 10).collect::<Vec<_>>());
}
#[test]
fn reversed_u8_many_peers() {
    for index in 0..8u64 {
        let v: Vec<u8> = (3u8..0).generate_iterator(index, 8).collect();
        assert!(v.is_empty(), "replica {index} yields {v:?}");
    }
}
#[test]
fn u8_near_limit_many_peers() {
    let mut all = vec![];
    for i in 0..4 { all.extend((250u8..255).generate_iterator(i, 4)); }
    assert_eq!(all, (250u8..255).collect::<Vec<_>>());
}
