// Demonstration of finding F4 (C19, forward links): copy to tests/verif_f4.rs and run
//   cargo test --offline --test verif_f4
// A forward link (NextStrategy::OnlyOne) from a block with 4 replicas to a block limited to 3 replicas leaves
// producer replica 3 without any consumer (Scheduler::build_execution_graph connects only equal (host, replica)
// indexes unless the consumer block has a single replica): its quarter of the data never reaches the sink.
use renoir::prelude::*;
use renoir::Replication;

#[test]
fn forward_link_to_fewer_replicas_loses_no_data() {
    let ctx = StreamContext::new(RuntimeConfig::local(4).unwrap());
    let res = ctx
        .stream_par_iter(0..100u64)
        .replication(Replication::Limited(3))
        .collect_vec();
    ctx.execute_blocking();
    let mut v = res.get().unwrap();
    v.sort_unstable();
    assert_eq!(v.len(), 100, "{} of 100 elements delivered", v.len());
}

#[test]
fn forward_link_to_one_replica_is_fine() {
    let ctx = StreamContext::new(RuntimeConfig::local(4).unwrap());
    let res = ctx
        .stream_par_iter(0..100u64)
        .replication(Replication::One)
        .collect_vec();
    ctx.execute_blocking();
    assert_eq!(res.get().unwrap().len(), 100);
}
