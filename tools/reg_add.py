#!/usr/bin/env python3
"""usage: reg_add.py <unit> <role> <prop> [<prop>...]  -- append a quick-tier Verus unit to the unit list of the given properties in engine/registry.py"""
import sys
unit, role, props = sys.argv[1], sys.argv[2], sys.argv[3:]
p = '/verif/engine/registry.py'
s = open(p).read()
for prop in props:
    i = s.index(f"    '{prop}': {{")
    j = s.index("        ],\n        'explanation'", i)
    if f"'name': '{unit}'" in s[i:j]:
        continue
    line = f"            {{'engine': 'verus', 'name': {unit!r}, 'tier': 'quick', 'role': {role!r}}},\n"
    s = s[:j] + line + s[j:]
open(p, 'w').write(s)
