#!/usr/bin/env python3
"""usage: tools/harmless_units.py [diff ...]   (default: every harmless/*.diff)
Fast false-alarm regression on a SCRATCH copy of /repo: for every behaviour-preserving diff, every Verus unit that reads a touched
file is re-run ONCE (not once per property) and its failing obligations are compared with the unit's failing obligations on the
unchanged tree (known findings).  A NEW failing obligation with status `violation` is a false alarm (ALARM); `undecided` is fine."""
import glob, json, os, re, shutil, subprocess, sys, tempfile
V = os.path.dirname(os.path.dirname(os.path.abspath(__file__)))
sys.path.insert(0, V)
from engine import vx
diffs = [os.path.abspath(p) for p in sys.argv[1:]] or sorted(glob.glob(os.path.join(V, 'harmless', '*.diff')))
units = {}
for u in glob.glob(os.path.join(V, 'contracts', '*', 'unit.py')):
    t = open(u).read()
    if "ENGINE = 'kani'" in t:
        continue
    units[os.path.basename(os.path.dirname(u))] = set(re.findall(r"'(src/[^']+\.rs)'", t))
root = tempfile.mkdtemp(prefix='harmless-units.', dir=os.environ.get('VERIF_SCRATCH', '/var/tmp'))
scratch = os.path.join(root, 'repo')
def sync():
    subprocess.run(['rsync', '-a', '--delete', '--exclude', 'target', '--exclude', '.git', '/repo/', scratch + '/'], check=True)
def failing(unit, repo):
    r = vx.run_unit(os.path.join(V, 'contracts', unit), repo, os.path.join(root, 'work'))
    return r['status'], set(f.get('obligation') for f in r.get('failures', []) if r['status'] == 'violation')
base = {}
alarms = 0
try:
    for d in diffs:
        files = set(l[6:].strip() for l in open(d) if l.startswith('+++ b/'))
        sync()
        if subprocess.run(['patch', '-s', '-p1', '-i', d], cwd=scratch).returncode != 0:
            print(os.path.basename(d), 'PATCH DOES NOT APPLY'); continue
        out = []
        for u in sorted(units):
            if not (units[u] & files):
                continue
            if u not in base:
                base[u] = failing(u, '/repo')
            st, fl = failing(u, scratch)
            new = fl - base[u][1]
            if st == 'violation' and new:
                out.append(f"{u}=ALARM({','.join(sorted(str(x) for x in new))[:80]})"); alarms += 1
            else:
                out.append(f"{u}={'ok' if st in ('holds', 'violation') else 'undecided'}")
        print(os.path.basename(d) + ':', ' '.join(out), flush=True)
finally:
    shutil.rmtree(root, ignore_errors=True)
print('false alarms:', alarms)
sys.exit(1 if alarms else 0)
