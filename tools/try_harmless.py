#!/usr/bin/env python3
"""usage: tools/try_harmless.py harmless/*.diff  -- apply each behaviour-preserving diff to /repo, run the quick checks of every
property whose units read a touched file, undo; report VIOLATION (false alarm) / undecided / ok per diff."""
import os, re, subprocess, sys, glob, json
sys.path.insert(0, '/verif')
from engine import registry
unit_files = {}
for u in glob.glob('/verif/contracts/*/unit.py'):
    unit_files[os.path.basename(os.path.dirname(u))] = set(re.findall(r"'(src/[^']+\.rs)'", open(u).read()))
def props_for(files):
    ps = []
    for pid, p in registry.PROPS.items():
        for u in p['units']:
            if unit_files.get(u['name'], set()) & files or (u['engine'] == 'kani' and any('window' in f or 'frontier' in f for f in files)):
                ps.append(pid); break
    return sorted(ps)
res = {}
for d in sys.argv[1:]:
    files = set(l[6:].strip() for l in open(d) if l.startswith('+++ b/'))
    ps = props_for(files)
    if subprocess.run(['git', '-C', '/repo', 'apply', d]).returncode != 0:
        res[d] = 'PATCH DOES NOT APPLY'; continue
    out = []
    try:
        for p in ps:
            r = subprocess.run(['./check', p, '--tier', 'quick'], cwd='/verif', capture_output=True, text=True)
            tag = {0: 'ok', 1: 'VIOLATION', 2: 'undecided'}.get(r.returncode, str(r.returncode))
            why = ''
            if r.returncode != 0:
                why = ' | '.join(l[:200] for l in r.stdout.split('\n') if l.startswith(('VIOLATION', 'UNDECIDED')))
            out.append(f"{p}:{tag}" + (f" [{why}]" if why else ''))
    finally:
        subprocess.run(['git', '-C', '/repo', 'checkout', '--', '.'])
    res[d] = ' '.join(out)
    print(os.path.basename(d), '->', res[d], flush=True)
