#!/bin/sh
# usage: tools/confirm_seed.sh <Cxx>   -- in the agent's scratch worktree: demo must FAIL with the patch and PASS without it
ID=$1; W=/tmp/wt/${ID}; cd $W || exit 2
export CARGO_TARGET_DIR=$W/target
NAMES=$(grep -A3 '^+.*#\[test\]' seed/demo.diff | grep -oE 'fn [a-zA-Z0-9_]+' | awk '{print $2}' | sort -u)
echo "demo tests: $NAMES"
# make sure both are applied
git apply --check -R seed/patch.diff 2>/dev/null || git apply seed/patch.diff
git apply --check -R seed/demo.diff 2>/dev/null || git apply seed/demo.diff
R=0
for n in $NAMES; do
  if cargo test --offline --lib $n 2>&1 | grep -qE "test result: FAILED|panicked"; then echo "WITH patch: $n FAILS (expected)"; else echo "WITH patch: $n did NOT fail"; R=1; fi
done
git apply -R seed/patch.diff
for n in $NAMES; do
  if cargo test --offline --lib $n 2>&1 | grep -qE "test result: ok. [1-9]"; then echo "WITHOUT patch: $n PASSES (expected)"; else echo "WITHOUT patch: $n did NOT pass"; R=1; fi
done
git apply seed/patch.diff
echo "confirm $ID -> $R"
exit $R
