#!/usr/bin/env python3
"""usage: store_seed.py <seed id> <property> <worktree> <needs> <detected: yes|no|undecided> <by> -- copy a confirmed seeded change under /verif/seeded/<id>/"""
import json, os, shutil, subprocess, sys
sid, prop, wt, needs, detected, by = sys.argv[1:7]
d = f'/verif/seeded/{sid}'
os.makedirs(d, exist_ok=True)
shutil.copy(f'{wt}/seed/patch.diff', f'{d}/patch.diff')
shutil.copy(f'{wt}/seed/demo.diff', f'{d}/demo.diff')
if os.path.exists(f'{wt}/seed/notes.md'):
    shutil.copy(f'{wt}/seed/notes.md', f'{d}/notes.md')
files = [l[6:].strip() for l in open(f'{d}/patch.diff') if l.startswith('+++ b/')]
meta = {
    'id': sid, 'breaks_property': prop, 'changed_files': files,
    'needs_to_manifest': needs,
    'origin': 'fresh sub-agent given only the property text and its own scratch worktree (nothing from /verif)',
    'confirmed': f'tools/confirm_seed.sh {prop}: the demonstration test FAILS with patch.diff applied and PASSES without it; the agent ran cargo test --offline --lib (+ related integration tests) with the change: all pre-existing tests pass',
    'checks_run': f'tools/try_seed.sh {d}/patch.diff {prop}  (git -C /repo apply; ./check {prop} --tier quick; git -C /repo checkout -- .)',
    'detected': detected, 'detected_by': by,
}
json.dump(meta, open(f'{d}/meta.json', 'w'), indent=1)
print('stored', d)
