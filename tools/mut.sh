#!/bin/sh
# usage: tools/mut.sh <unit> <relative file> <sed expr>   -- run a unit against a mutated scratch copy of /repo
M=/var/tmp/vx/mut
rsync -a --delete --exclude target --exclude .git /repo/ $M/
sed -i "$3" $M/$2
if diff -q /repo/$2 $M/$2 >/dev/null; then echo "MUTATION DID NOT APPLY"; exit 3; fi
cd /verif && python3 -m engine.vx contracts/$1 $M 2>&1 | sed -n '/"status"/,/"reason"/p' | cut -c1-400
