#!/usr/bin/env python3
"""usage: tools/mutation_sweep.py [unit ...]   (one-off experiment, not a registered check)
Generic mutation operators applied to the source span of every function under contract (one change per mutant, on a
scratch copy of /repo/src); each mutant is run through its unit.  Survivors (mutants the contracts accept) are printed
for manual triage: either an equivalent mutant or a contract that is too weak."""
import os, re, sys, json, random, shutil, tempfile, glob
from concurrent.futures import ProcessPoolExecutor
sys.path.insert(0, '/verif')
from engine import vx, rsx

REPO = '/repo'
CAP = int(os.environ.get('SWEEP_CAP', '30'))

OPS = [
    (r' == ', ' != '), (r' != ', ' == '), (r' <= ', ' < '), (r' < ', ' <= '), (r' >= ', ' > '), (r' > ', ' >= '),
    (r' && ', ' || '), (r' \|\| ', ' && '), (r'\+ 1\b', '+ 2'), (r'- 1\b', '- 2'), (r'\+= 1\b', '+= 2'), (r'-= 1\b', '-= 2'),
    (r'\btrue\b', 'false'), (r'\bfalse\b', 'true'), (r'\.max\(', '.min('), (r'\.min\(', '.max('),
]

def mutants_of(text, s, e, mask):
    out = []
    seg = text[s:e]
    # operator mutations
    for rx, rep in OPS:
        for m in re.finditer(rx, seg):
            a = s + m.start()
            if not mask[a]:
                continue
            line = text[text.rfind('\n', 0, a) + 1:text.find('\n', a)]
            if re.search(r'^\s*(//|log::|assert|debug_assert|#\[)|\bfn\b|->|=>\s*$|impl<|where', line):
                continue
            if rx in (r' < ', r' > ') and re.search(r'[A-Za-z_]\s*<[A-Za-z_:&\' ,]+>', line):
                continue
            out.append((a, a + (m.end() - m.start()), rep, f"{m.group(0).strip()} -> {rep.strip()} @ {line.strip()[:70]}"))
    # statement deletions: single-line assignments / method-call statements
    pos = s
    for line in seg.split('\n'):
        a = pos
        pos += len(line) + 1
        st = line.strip()
        if not st.endswith(';') or st.startswith(('let ', 'return', '//', 'log::', 'assert', 'debug_assert', 'break', 'continue', '}', 'use ')):
            continue
        if not mask[a + len(line) - len(line.lstrip())]:
            continue
        if re.match(r'^[\w\.\[\]\*\(\)&]+\s*(=|\+=|-=)\s*[^=].*;$', st) or re.match(r'^[\w\.\[\]]+\.\w+\(.*\);$', st):
            out.append((a, a + len(line), '', f"delete `{st[:70]}`"))
    return out

def run_one(job):
    unit, rel, a, b, rep, desc = job
    root = tempfile.mkdtemp(prefix='sweep.', dir='/var/tmp')
    try:
        shutil.copytree(os.path.join(REPO, 'src'), os.path.join(root, 'src'))
        p = os.path.join(root, rel)
        t = open(p).read()
        open(p, 'w').write(t[:a] + rep + t[b:])
        r = vx._run_unit(os.path.join('/verif/contracts', unit), root, os.path.join(root, 'work'))
        if r['status'] == 'undecided' and 'rlimit' in r.get('reason', '').lower():
            outcome = 'undecided'
        failed = sorted(set(f.get('obligation') for f in r.get('failures', [])))
        return dict(unit=unit, file=rel, desc=desc, status=r['status'], failed=failed, reason=r.get('reason', '')[:160], soft=bool(r.get('soft_undecided')))
    finally:
        shutil.rmtree(root, ignore_errors=True)

def main():
    units = sys.argv[1:] or sorted(os.path.basename(os.path.dirname(u)) for u in glob.glob('/verif/contracts/*/unit.py'))
    random.seed(1)
    jobs = []
    base = {}
    for unit in units:
        if unit in ('frontier', 'transaction_window'):
            continue
        mod = vx.load_unit(os.path.join('/verif/contracts', unit))
        x = vx.Extractor(REPO)
        pieces = mod.build(x)
        r0 = vx._run_unit(os.path.join('/verif/contracts', unit), REPO, '/var/tmp/vx/sweep0')
        base[unit] = set(f.get('obligation') for f in r0.get('failures', []))
        cand = []
        for fr in x.fragments:
            if not any(fr is p for p in pieces) or not hasattr(fr, 'src_span'):
                continue
            if ':struct ' in fr.what or ':enum ' in fr.what:
                continue
            src = x.src(fr.path)
            s, e = fr.src_span
            for (a, b, rep, desc) in mutants_of(src.text, s, e, src.mask):
                cand.append((unit, fr.path, a, b, rep, fr.what.split(':')[-1][:40] + ': ' + desc))
        random.shuffle(cand)
        jobs += cand[:CAP]
    print(f"{len(jobs)} mutants over {len(units)} units", flush=True)
    res = []
    with ProcessPoolExecutor(max_workers=int(os.environ.get('SWEEP_JOBS', '6'))) as ex:
        for r in ex.map(run_one, jobs):
            new = [o for o in r['failed'] if o not in base[r['unit']]]
            r['outcome'] = 'rejected' if (r['status'] == 'violation' and new) else ('undecided' if (r['status'] == 'undecided' or r.get('soft')) else 'SURVIVED')
            res.append(r)
            if r['outcome'] != 'rejected':
                print(f"{r['outcome']:9s} {r['unit']:18s} {r['desc']}" + (f"   [{r['reason'][:90]}]" if r['outcome'] == 'undecided' else ''), flush=True)
    tot = len(res)
    print(f"TOTAL {tot}: rejected {sum(1 for r in res if r['outcome']=='rejected')}, undecided {sum(1 for r in res if r['outcome']=='undecided')}, survived {sum(1 for r in res if r['outcome']=='SURVIVED')}")
    json.dump(res, open('/var/tmp/sweep_results.json', 'w'), indent=1)

if __name__ == '__main__':
    main()
