#!/bin/sh
# regression of the machinery on a SCRATCH copy of /repo (nothing in /repo or /verif/evidence is touched):
# the unchanged tree, every stored seeded change, every behaviour-preserving change.  usage: tools/regress_scratch.sh [seeds|harmless|all]
WHAT=${1:-all}
S=${VERIF_SCRATCH:-/var/tmp}/regress-repo-$$
export VERIF_REPO=$S VERIF_EVIDENCE_DIR=${VERIF_SCRATCH:-/var/tmp}/regress-evidence-$$
sync_repo() { rsync -a --delete --exclude target --exclude .git /repo/ $S/; }
V=$(cd "$(dirname "$0")/.." && pwd)
cd $V
props_of() { V=$V python3 - "$1" <<'PY'
import sys, re, glob, os
sys.path.insert(0, os.environ['V'])
from engine import registry
files = set(l[6:].strip() for l in open(sys.argv[1]) if l.startswith('+++ b/'))
uf = {os.path.basename(os.path.dirname(u)): set(re.findall(r"'(src/[^']+\.rs)'", open(u).read())) for u in glob.glob(os.environ['V'] + '/contracts/*/unit.py')}
ps = [p for p, e in registry.PROPS.items() if any(uf.get(u['name'], set()) & files or (u['engine'] == 'kani' and any('window' in f or 'frontier' in f for f in files)) for u in e['units'])]
print(' '.join(sorted(ps)))
PY
}
if [ "$WHAT" = seeds ] || [ "$WHAT" = all ]; then
  echo "== seeded changes (expect exit 1; exit 2 = undecided; exit 0 = MISSED)"
  for d in seeded/*/; do id=$(basename $d); prop=${id%-*}; sync_repo
    (cd $S && patch -s -p1 < $V/$d/patch.diff) || { echo "$id PATCH DOES NOT APPLY"; continue; }
    printf "%s " $id; ./check $prop --tier quick 2>&1 | grep -E -- "-> exit" | sed 's/.*-> //'
  done
fi
if [ "$WHAT" = harmless ] || [ "$WHAT" = all ]; then
  echo "== behaviour-preserving changes (expect no exit 1)"
  for d in harmless/*.diff; do sync_repo
    (cd $S && patch -s -p1 < $V/$d) || { echo "$(basename $d) PATCH DOES NOT APPLY"; continue; }
    printf "%s:" $(basename $d)
    for p in $(props_of $V/$d); do printf " %s=%s" $p "$(./check $p --tier quick 2>&1 | grep -E -- '-> exit' | sed 's/.*-> exit //')"; done; echo
  done
fi
rm -rf $S $VERIF_EVIDENCE_DIR
