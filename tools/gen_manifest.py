#!/usr/bin/env python3
"""regenerate MANIFEST.json from engine/registry.py (claimed) and tools/not_applicable.json"""
import json, os, sys
V = os.path.dirname(os.path.dirname(os.path.abspath(__file__)))
sys.path.insert(0, V)
from engine import registry
na = json.load(open(os.path.join(V, 'tools', 'not_applicable.json')))
all_ids = [json.loads(l)['id'] for l in open(os.path.join(V, 'properties.jsonl'))]
checks = []
for pid in all_ids:
    if pid not in registry.PROPS:
        continue
    e = registry.PROPS[pid]
    engines = sorted(set(u['engine'] for u in e['units']))
    bounded = [u['name'] for u in e['units'] if u.get('bounded')]
    checks.append({
        'property_id': pid,
        'quick_cmd': f'./check {pid} --tier quick',
        'thorough_cmd': f'./check {pid} --tier thorough',
        'evidence_file': f'/verif/evidence/{pid}.json',
        'replay_cmd_template': f'./check {pid} --replay {{path}}',
        'engine': '+'.join(engines),
        'level_claimed': {'category': e.get('level', 'proof'), 'text': e['explanation'], 'design_ref': e.get('design_ref', 'DESIGN.md section 5 ' + pid)},
        'level_note': '; '.join(e.get('assumptions', [])) + ('; BOUNDED units (not proof): ' + ', '.join(bounded) if bounded else ''),
        'technique': e.get('technique', 'contract-based deductive verification: ' + ' + '.join(
            {'verus': 'Verus requires/ensures/invariants on functions extracted mechanically from /repo', 'kani': 'Kani single-call contract harnesses on the real crate'}[x] for x in engines)),
    })
claimed = {c['property_id'] for c in checks}
nal = [{'property_id': p, 'reason': na[p]} for p in all_ids if p not in claimed]
missing = [p for p in all_ids if p not in claimed and p not in na]
assert not missing, missing
m = {
    'version': 1,
    'setup_cmd': './setup.sh',
    'hooks': {
        'guard': 'kani',
        'enable': 'no source hooks: contracts live in /verif; the Verus engine extracts functions from /repo on every run, the Kani engine overlays harness modules (#[cfg(kani)]) on a scratch copy of /repo',
        'baseline_off_cmd': 'cd /repo && cargo test --workspace --no-fail-fast --offline',
        'source_commits': json.load(open(os.path.join(V, 'tools', 'source_commits.json'))),
        'add_only': True,
    },
    'engines': [
        {'name': 'verus', 'path': '/verif/engine/vx.py', 'serves_properties': sorted(p for p in claimed if any(u['engine'] == 'verus' for u in registry.PROPS[p]['units'])), 'kind_free_text': 'deductive verifier (Verus/Z3) on mechanically extracted real functions with contracts'},
        {'name': 'kani', 'path': '/verif/engine/kx.py', 'serves_properties': sorted(p for p in claimed if any(u['engine'] == 'kani' for u in registry.PROPS[p]['units'])), 'kind_free_text': 'Kani/CBMC single-call contract harnesses over the real crate (overlay)'},
    ],
    'checks': checks,
    'not_applicable': nal,
    'notes': 'exit 0 holds / 1 VIOLATION / 2 undecided (tool limit, lost anchor; never an alarm). Known findings in /verif/known_findings.txt.',
}
json.dump(m, open(os.path.join(V, 'MANIFEST.json'), 'w'), indent=1)
print('claimed', sorted(claimed), 'n/a', [x['property_id'] for x in nal])
