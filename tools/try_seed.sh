#!/bin/sh
# usage: tools/try_seed.sh <patch file> <Cxx> [<Cxx>...]  -- apply a seeded change to /repo, run the quick checks, undo it
P=$1; shift
cd /repo && git apply "$P" || { echo "PATCH DOES NOT APPLY"; exit 3; }
cd /verif
for c in "$@"; do ./check $c --tier quick 2>&1 | grep -E "VIOLATION|UNDECIDED|-> exit" | cut -c1-220; done
cd /repo && git checkout -- . && git status --short | head -2
