#!/bin/sh
# full regression of the machinery: unchanged tree, every stored seeded change, every behaviour-preserving change
cd /verif
echo "== unchanged tree"
for c in $(python3 -c "import sys; sys.path.insert(0,'/verif'); from engine import registry; print(' '.join(sorted(registry.PROPS)))"); do
  ./check $c --tier quick 2>&1 | grep -E "VIOLATION|UNDECIDED|-> exit" | cut -c1-160
done
echo "== seeded changes (expect exit 1; exit 2 = undecided; exit 0 = MISSED)"
for d in seeded/*/; do id=$(basename $d); prop=${id%-*}; printf "%s " $id; tools/try_seed.sh /verif/$d/patch.diff $prop | grep -E "exit" | sed 's/.*-> //' ; done
echo "== behaviour-preserving changes (expect no VIOLATION)"
python3 tools/try_harmless.py /verif/harmless/*.diff 2>&1 | sed 's/\[[^]]*\]//g' | cut -c1-160
