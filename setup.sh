#!/bin/sh
# offline setup: nothing to build for the Verus engine; warm caches only
cd "$(dirname "$0")" || exit 1
mkdir -p evidence replays
command -v verus >/dev/null || { echo "verus missing"; exit 1; }
exit 0
