"""C06 / C05 / C16 — FlatMap::next (src/operator/flat_map.rs): the items the user function yields for an input element leave one
per call, in the iterator's order, each stamped with the timestamp of THAT input element (none if it had none); the next input
is pulled only when the current iterator is exhausted, so a control element (in particular a Watermark) is returned only after
every item derived from the earlier inputs is out, and unchanged."""
import os, re, sys
sys.path.insert(0, os.path.dirname(os.path.dirname(__file__)))
import std_specs as S

PROPERTIES = ["C06", "C05", "C16"]
MIN_VERIFIED = 2
F = 'src/operator/flat_map.rs'
FO = 'src/operator/mod.rs'
ASSUMPTIONS = [
    "std IntoIterator / Iterator of the user's collection modelled by ghost sequences: into_iter() yields an iterator whose remaining items are the collection's items; next() returns the head and drops it, or None when nothing remains and then stays exhausted (model traits; the user's types are opaque)",
    "user flat-map function: total; its result is related to the argument only by the closure's own (unknown) postcondition",
    "prev.next() returns any element (model trait Operator with a ghost history)",
    "`#[cfg(not(feature = \"timestamp\"))]` match arms are dropped (the default feature `timestamp` is assumed ON, as everywhere)",
    "termination of FlatMap::next (it pulls while the user function yields empty collections) is not verified",
    "KeyedItem::key returns the key of the item (model trait); Clone of a key yields an equal value (axiom_data_clone)",
]
PRELUDE = r'''
type Timestamp = i64;
trait Operator: Sized {
    type Out: Send;
    spec fn hist(&self) -> Seq<StreamElement<Self::Out>>;
    fn next(&mut self) -> (r: StreamElement<Self::Out>)
        ensures final(self).hist() == old(self).hist().push(r);
}
trait Iterator: Sized {
    type Item;
    spec fn remaining(&self) -> Seq<Self::Item>;
    fn next(&mut self) -> (r: Option<Self::Item>)
        ensures
            old(self).remaining().len() > 0 ==> r == Some(old(self).remaining()[0]) && final(self).remaining() == old(self).remaining().skip(1),
            old(self).remaining().len() == 0 ==> r is None && final(self).remaining().len() == 0;
}
trait IntoIterator: Sized {
    type Item;
    type IntoIter: Iterator<Item = Self::Item>;
    spec fn items(&self) -> Seq<Self::Item>;
    fn into_iter(self) -> (r: Self::IntoIter)
        ensures r.remaining() == self.items();
}
trait DataKey: Clone + Send + 'static {}
trait KeyedItem: Sized {
    type Key: DataKey;
    type Value;
    spec fn skey(&self) -> Self::Key;
    fn key(&self) -> (r: &Self::Key) ensures *r == self.skey();
}
broadcast use trusted_axioms::axiom_data_clone;
spec fn is_data<T>(e: StreamElement<T>) -> bool { e is Item || e is Timestamped }
spec fn payload<T>(e: StreamElement<T>) -> T { match e { StreamElement::Item(x) => x, StreamElement::Timestamped(x, _) => x, _ => arbitrary() } }
spec fn ts_of<T>(e: StreamElement<T>) -> Option<Timestamp> { match e { StreamElement::Timestamped(_, t) => Some(t), _ => None } }
spec fn stamp<T>(x: T, t: Option<Timestamp>) -> StreamElement<T> { match t { Some(ts) => StreamElement::Timestamped(x, ts), None => StreamElement::Item(x) } }
spec fn retyped<A, B>(e: StreamElement<A>) -> StreamElement<B> {
    match e {
        StreamElement::Watermark(w) => StreamElement::Watermark(w), StreamElement::Terminate => StreamElement::Terminate,
        StreamElement::FlushAndRestart => StreamElement::FlushAndRestart, _ => StreamElement::FlushBatch,
    }
}
'''
SPEC_IMPL = r'''
impl<It, F, Op> FlatMap<It, F, Op>
where
    Op: Operator,
    It: IntoIterator,
    It::IntoIter: Send,
    It::Item: Send,
    F: Fn(Op::Out) -> It + Clone + Send,
{
    // the items of the current input element that are still to be emitted
    spec fn rem(&self) -> Seq<It::Item> { match self.frontiter { Some(it) => it.remaining(), None => Seq::empty() } }
    // a data element whose image under the user function is empty
    spec fn dropped(f: F, e: StreamElement<Op::Out>) -> bool {
        is_data(e) && exists|c: It| #[trigger] f.ensures((payload(e),), c) && c.items().len() == 0
    }
    // the image of the data element e is non-empty, its head is x and its tail is `rest`
    spec fn expands_to(f: F, e: StreamElement<Op::Out>, x: It::Item, rest: Seq<It::Item>) -> bool {
        is_data(e) && exists|c: It| #[trigger] f.ensures((payload(e),), c) && c.items().len() > 0 && c.items()[0] == x && c.items().skip(1) == rest
    }
    spec fn pulled(o: &Self, n: &Self) -> Seq<StreamElement<Op::Out>> { n.prev.hist().skip(o.prev.hist().len() as int) }
}
'''
K_SPEC_IMPL = r'''
impl<It, F, Op> KeyedFlatMap<It, F, Op>
where
    Op: Operator,
    Op::Out: KeyedItem,
    It: IntoIterator,
    It::IntoIter: Send,
    It::Item: Send,
    F: Fn(Op::Out) -> It + Clone + Send,
{
    spec fn rem(&self) -> Seq<It::Item> { match self.frontiter { Some((_, it)) => it.remaining(), None => Seq::empty() } }
    spec fn dropped(f: F, e: StreamElement<Op::Out>) -> bool {
        is_data(e) && exists|c: It| #[trigger] f.ensures((payload(e),), c) && c.items().len() == 0
    }
    spec fn expands_to(f: F, e: StreamElement<Op::Out>, x: It::Item, rest: Seq<It::Item>) -> bool {
        is_data(e) && exists|c: It| #[trigger] f.ensures((payload(e),), c) && c.items().len() > 0 && c.items()[0] == x && c.items().skip(1) == rest
    }
    spec fn pulled(o: &Self, n: &Self) -> Seq<StreamElement<Op::Out>> { n.prev.hist().skip(o.prev.hist().len() as int) }
}
'''
K_NEXT_SPEC = r'''
        requires forall|x: Op::Out| old(self).f.requires((x,)),
        ensures
            final(self).f == old(self).f,
            final(self).prev.hist().len() >= old(self).prev.hist().len(),
            // items pending from the current input element leave first, one per call, in order, with that element's key and timestamp
            old(self).rem().len() > 0 ==> {
                &&& Self::pulled(old(self), final(self)).len() == 0                                          // #obl:keyed_flat_map.nothing_pulled_while_items_are_pending
                &&& r == stamp(((old(self).frontiter->0).0, old(self).rem()[0]), old(self).timestamp)          // #obl:keyed_flat_map.pending_items_leave_in_order_with_their_inputs_key_and_timestamp
                &&& final(self).rem() == old(self).rem().skip(1) && final(self).timestamp == old(self).timestamp
                &&& final(self).frontiter is Some && (final(self).frontiter->0).0 == (old(self).frontiter->0).0
            },
            old(self).rem().len() == 0 ==> {
                let p = Self::pulled(old(self), final(self));
                &&& p.len() >= 1
                &&& forall|i: int| 0 <= i < p.len() - 1 ==> Self::dropped(old(self).f, #[trigger] p[i])     // #obl:keyed_flat_map.only_inputs_with_an_empty_image_are_skipped
                &&& (!is_data(p.last()) ==> r == retyped::<Op::Out, (<Op::Out as KeyedItem>::Key, It::Item)>(p.last()) && !(p.last() is FlushBatch && !(r is FlushBatch)) && final(self).rem().len() == 0)   // #obl:keyed_flat_map.control_unchanged_and_only_when_nothing_is_pending
                &&& (is_data(p.last()) ==> (r is Item || r is Timestamped) && r == stamp(payload(r), ts_of(p.last()))
                        && payload(r).0 == payload(p.last()).skey()                                          // #obl:keyed_flat_map.items_keep_the_key_of_their_input
                        && Self::expands_to(old(self).f, p.last(), payload(r).1, final(self).rem()) && final(self).timestamp == ts_of(p.last())
                        && final(self).frontiter is Some && (final(self).frontiter->0).0 == payload(p.last()).skey())   // #obl:keyed_flat_map.first_item_of_a_new_input_carries_its_key_and_timestamp
            },
'''
K_LOOP_INV = r'''
            invariant
                self.f == old(self).f, forall|x: Op::Out| self.f.requires((x,)),
                self.prev.hist().len() >= old(self).prev.hist().len(),
                Self::pulled(old(self), self).len() == 0 ==> self.frontiter == old(self).frontiter && self.timestamp == old(self).timestamp,
                Self::pulled(old(self), self).len() > 0 ==> {
                    let p = Self::pulled(old(self), self);
                    &&& old(self).rem().len() == 0
                    &&& forall|i: int| 0 <= i < p.len() - 1 ==> Self::dropped(old(self).f, #[trigger] p[i])
                    &&& is_data(p.last()) && self.frontiter is Some && self.timestamp == ts_of(p.last())   // #obl:keyed_flat_map.items_carry_the_timestamp_of_the_input_they_derive_from
                    &&& (self.frontiter->0).0 == payload(p.last()).skey()                                    // #obl:keyed_flat_map.items_carry_the_key_of_the_input_they_derive_from
                    &&& exists|c: It| #[trigger] old(self).f.ensures((payload(p.last()),), c) && c.items() == (self.frontiter->0).1.remaining()
                },
'''
NEXT_SPEC = r'''
        requires forall|x: Op::Out| old(self).f.requires((x,)),
        ensures
            final(self).f == old(self).f,
            final(self).prev.hist().len() >= old(self).prev.hist().len(),
            // items pending from the current input element leave first, one per call, in order, with that element's timestamp
            old(self).rem().len() > 0 ==> {
                &&& Self::pulled(old(self), final(self)).len() == 0                                          // #obl:flat_map.nothing_pulled_while_items_are_pending
                &&& r == stamp(old(self).rem()[0], old(self).timestamp)                                      // #obl:flat_map.pending_items_leave_in_order_with_their_inputs_timestamp
                &&& final(self).rem() == old(self).rem().skip(1) && final(self).timestamp == old(self).timestamp
            },
            old(self).rem().len() == 0 ==> {
                let p = Self::pulled(old(self), final(self));
                &&& p.len() >= 1
                &&& forall|i: int| 0 <= i < p.len() - 1 ==> Self::dropped(old(self).f, #[trigger] p[i])     // #obl:flat_map.only_inputs_with_an_empty_image_are_skipped
                &&& (!is_data(p.last()) ==> r == retyped::<Op::Out, It::Item>(p.last()) && !(p.last() is FlushBatch && !(r is FlushBatch)) && final(self).rem().len() == 0)   // #obl:flat_map.control_unchanged_and_only_when_nothing_is_pending
                &&& (is_data(p.last()) ==> (r is Item || r is Timestamped) && r == stamp(payload(r), ts_of(p.last()))
                        && Self::expands_to(old(self).f, p.last(), payload(r), final(self).rem()) && final(self).timestamp == ts_of(p.last()))   // #obl:flat_map.first_item_of_a_new_input_carries_its_timestamp
            },
'''
LOOP_INV = r'''
            invariant
                self.f == old(self).f, forall|x: Op::Out| self.f.requires((x,)),
                self.prev.hist().len() >= old(self).prev.hist().len(),
                Self::pulled(old(self), self).len() == 0 ==> self.frontiter == old(self).frontiter && self.timestamp == old(self).timestamp,
                Self::pulled(old(self), self).len() > 0 ==> {
                    let p = Self::pulled(old(self), self);
                    &&& old(self).rem().len() == 0
                    &&& forall|i: int| 0 <= i < p.len() - 1 ==> Self::dropped(old(self).f, #[trigger] p[i])
                    &&& is_data(p.last()) && self.frontiter is Some && self.timestamp == ts_of(p.last())   // #obl:flat_map.items_carry_the_timestamp_of_the_input_they_derive_from
                    &&& exists|c: It| #[trigger] old(self).f.ensures((payload(p.last()),), c) && c.items() == self.frontiter->0.remaining()
                },
'''


def drop_cfg_not_timestamp_arms(fr):
    """the match arms under `#[cfg(not(feature = "timestamp"))]` are not compiled with the default features: dropped whole."""
    cnt = 0
    while True:
        m = re.search(r'[ \t]*#\[cfg\(not\(feature = "timestamp"\)\)\]\s*\n', fr.text)
        if not m:
            break
        s = fr._src()
        arrow = fr.text.index('=>', m.end())
        j = arrow + 2
        while fr.text[j] in ' \t\n':
            j += 1
        if fr.text[j] == '{':
            e = s.match_close(j) + 1
        else:
            e = fr.text.index('\n', j)
        while e < len(fr.text) and fr.text[e] in ', \t':
            e += 1
        if e < len(fr.text) and fr.text[e] == '\n':
            e += 1
        fr.text = fr.text[:m.start()] + fr.text[e:]
        cnt += 1
    fr.note('V-ATTR', cnt, 'match arm under `#[cfg(not(feature = "timestamp"))]` dropped (feature `timestamp` is ON by default)')
    return cnt


def build(x):
    pieces = [PRELUDE, x.enum(FO, 'StreamElement')]
    st = x.struct(F, 'FlatMap')
    st.text = '#[verifier::reject_recursive_types(It)]\n#[verifier::reject_recursive_types(F)]\n#[verifier::reject_recursive_types(Op)]\n' + st.text
    pieces += [st, SPEC_IMPL]
    nx = x.method(F, 'FlatMap', 'next', trait='Operator')
    drop_cfg_not_timestamp_arms(nx)
    nx.sub('V-ATTR', r'[ \t]*#\[cfg\(feature = "timestamp"\)\]\s*\n', '', detail='`#[cfg(feature = "timestamp")]` on a match arm dropped (feature ON)')
    nx.replace_exact('V-TRAIT', 'StreamElement<Self::Out>', 'StreamElement<It::Item>', detail='associated type Out substituted by its definition', count=None)
    nx.name_result('r')
    nx.add_spec(NEXT_SPEC)
    nx.text = '#[verifier::exec_allows_no_decreases_clause]\n' + nx.text
    nx.sub('V-SPEC', r'Some\(\(self\.f\)\((\w+)\)\.into_iter\(\)\)', r'{ let ghost __x = \1; let __c = (self.f)(\1); let ghost __ci = __c; let __it = __c.into_iter(); proof { assert(self.f.ensures((__x,), __ci) && __ci.items() == __it.remaining()); assert(payload(__e) == __x); assert(exists|c: It| #[trigger] old(self).f.ensures((payload(__e),), c) && c.items() == __it.remaining()); } Some(__it) }',
           detail='the user function\'s result bound to a ghost-visible name: `Some((self.f)(x).into_iter())` -> `{ let __c = (self.f)(x); let __it = __c.into_iter(); Some(__it) }`', must=True)
    nx.insert_before('loop', 'proof { assert(Self::pulled(old(self), self) =~= Seq::<StreamElement<Op::Out>>::empty()); }\n        ')
    nx.insert_at_loop_end(1, '''proof {
                let p = Self::pulled(old(self), self);
                assert forall|i: int| 0 <= i < p.len() - 1 implies Self::dropped(old(self).f, #[trigger] p[i]) by { assert(p[i] == h0.skip(old(self).prev.hist().len() as int)[i]); }
                assert(p.last() == __e);
                assert(exists|c: It| #[trigger] old(self).f.ensures((payload(p.last()),), c) && c.items() == self.frontiter->0.remaining());
            }
        ''')
    nx.add_loop_spec(1, LOOP_INV)
    nx.insert_before(re.compile(r'if let Some\((?:ref mut )?\w+\) = self\.frontiter'), 'let ghost fr0 = self.frontiter;\n            ')
    nx.insert_before('match self.prev.next() {', '''let ghost h0 = self.prev.hist();
            proof {
                assert(self.rem().len() == 0);
                let p0 = Self::pulled(old(self), self);
                if p0.len() > 0 {
                    let c = choose|c: It| #[trigger] old(self).f.ensures((payload(p0.last()),), c) && c.items() == fr0->0.remaining();
                    assert(c.items().len() == 0);
                    assert(Self::dropped(old(self).f, p0.last()));
                }
            }
            ''')
    nx.sub('V-SPEC', r'match self\.prev\.next\(\) \{', 'let __e = self.prev.next();\n            proof { let k = old(self).prev.hist().len() as int; assert(self.prev.hist().skip(k) =~= h0.skip(k).push(__e)); assert(self.prev.hist().skip(k).drop_last() =~= h0.skip(k)); }\n            match __e {',
           detail='scrutinee bound to a ghost-visible name `__e`', must=True)
    pieces += ["impl<It, F, Op> FlatMap<It, F, Op>\nwhere\n    Op: Operator,\n    It: IntoIterator,\n    It::IntoIter: Send,\n    It::Item: Send,\n    F: Fn(Op::Out) -> It + Clone + Send,\n{", nx, "}"]

    # ---- KeyedFlatMap
    ks = x.struct(F, 'KeyedFlatMap')
    ks.text = '#[verifier::reject_recursive_types(It)]\n#[verifier::reject_recursive_types(F)]\n#[verifier::reject_recursive_types(Op)]\n' + ks.text
    kn = x.method(F, 'KeyedFlatMap', 'next', trait='Operator')
    drop_cfg_not_timestamp_arms(kn)
    kn.sub('V-ATTR', r'[ \t]*#\[cfg\(feature = "timestamp"\)\]\s*\n', '', detail='`#[cfg(feature = "timestamp")]` on a match arm dropped (feature ON)')
    kn.replace_exact('V-TRAIT', 'StreamElement<Self::Out>', 'StreamElement<(<Op::Out as KeyedItem>::Key, It::Item)>', detail='associated type Out substituted by its definition', count=None)
    kn.name_result('r')
    kn.add_spec(K_NEXT_SPEC)
    kn.text = '#[verifier::exec_allows_no_decreases_clause]\n' + kn.text
    kn.sub('V-SPEC', r'let (\w+) = \(self\.f\)\((\w+)\)\.into_iter\(\);', r'let ghost __x = \2; let __c = (self.f)(\2); let ghost __ci = __c; let \1 = __c.into_iter(); proof { assert(self.f.ensures((__x,), __ci) && __ci.items() == \1.remaining()); assert(payload(__e) == __x); assert(exists|c: It| #[trigger] old(self).f.ensures((payload(__e),), c) && c.items() == \1.remaining()); }',
           detail='the user function\'s result bound to a ghost-visible name: `let iter = (self.f)(kv).into_iter();` -> `let __c = (self.f)(kv); let iter = __c.into_iter();`', must=True)
    kn.insert_before('loop', 'proof { assert(Self::pulled(old(self), self) =~= Seq::<StreamElement<Op::Out>>::empty()); }\n        ')
    kn.insert_at_loop_end(1, '''proof {
                let p = Self::pulled(old(self), self);
                assert forall|i: int| 0 <= i < p.len() - 1 implies Self::dropped(old(self).f, #[trigger] p[i]) by { assert(p[i] == h0.skip(old(self).prev.hist().len() as int)[i]); }
                assert(p.last() == __e);
                assert(exists|c: It| #[trigger] old(self).f.ensures((payload(p.last()),), c) && c.items() == (self.frontiter->0).1.remaining());
            }
        ''')
    kn.add_loop_spec(1, K_LOOP_INV)
    kn.insert_before(re.compile(r'if let Some\(\((?:ref )?\w+, (?:ref mut )?\w+\)\) = self\.frontiter'), 'let ghost fr0 = self.frontiter;\n            ')
    kn.insert_before('match self.prev.next() {', '''let ghost h0 = self.prev.hist();
            proof {
                assert(self.rem().len() == 0);
                let p0 = Self::pulled(old(self), self);
                if p0.len() > 0 {
                    let c = choose|c: It| #[trigger] old(self).f.ensures((payload(p0.last()),), c) && c.items() == (fr0->0).1.remaining();
                    assert(c.items().len() == 0);
                    assert(Self::dropped(old(self).f, p0.last()));
                }
            }
            ''')
    kn.sub('V-SPEC', r'match self\.prev\.next\(\) \{', 'let __e = self.prev.next();\n            proof { let k = old(self).prev.hist().len() as int; assert(self.prev.hist().skip(k) =~= h0.skip(k).push(__e)); assert(self.prev.hist().skip(k).drop_last() =~= h0.skip(k)); }\n            match __e {',
           detail='scrutinee bound to a ghost-visible name `__e`', must=True)
    pieces += [S.CLONE_IS_EQ, ks, K_SPEC_IMPL, "impl<It, F, Op> KeyedFlatMap<It, F, Op>\nwhere\n    Op: Operator,\n    Op::Out: KeyedItem,\n    It: IntoIterator,\n    It::IntoIter: Send,\n    It::Item: Send,\n    F: Fn(Op::Out) -> It + Clone + Send,\n{", kn, "}"]
    return pieces
