"""C19 (addresses) — the port-assignment loop of NetworkTopology::build (src/network/topology.rs): every demultiplexer
coordinate, taken in the order of the SORTED duplicate-free coordinate list, gets the address of its host and the port
base_port(host) + (number of earlier coordinates of the same host).  Hence the address map is a function of the set of
coordinates only (not of hash-map iteration order) and two coordinates of one host never share a port."""
import os, re, sys
sys.path.insert(0, os.path.dirname(os.path.dirname(__file__)))
import std_specs as S

PROPERTIES = ["C19"]
MIN_VERIFIED = 3
F = 'src/network/topology.rs'
FN = 'src/network/mod.rs'
ASSUMPTIONS = [
    "V-BLOCK: the statement `for coord in coords.into_iter() { .. }` is extracted from NetworkTopology::build byte for byte and wrapped in fn assign_ports(self_, config, coords, used_ports) (its free variables); what precedes it (collecting the coordinates of all links into an IndexSet and sorting it) is summarised by the precondition: `coords` is the list of distinct demultiplexer coordinates in sorted order",
    "HashMap<HostId, u16> / HashMap<DemuxCoord, (String, u16)> modelled by their map views (entry(k).or_default() -> entry_or_default(k); insert); String is opaque with Clone = equal value",
    "every host has fewer demultiplexers than ports left above its base_port (base_port + #demux(host) <= 65535); host ids index config.hosts",
    "V-ITER: `for x in v.into_iter() {` -> while loop with index",
    "usize is 64 bits (global size_of usize == 8): `host_id as usize` does not truncate",
]
PRELUDE = r'''
global size_of usize == 8;
type CoordUInt = u64; type BlockId = u64; type HostId = u64; type ReplicaId = u64;
#[verifier::external_body]
struct RString {}
impl Clone for RString {
    #[verifier::external_body]
    fn clone(&self) -> (r: RString) ensures r == *self { unimplemented!() }
}
struct HostConfig { address: RString, base_port: u16 }
struct RemoteConfig { hosts: Vec<HostConfig> }
// ---- std HashMap<HostId, u16> and HashMap<DemuxCoord, (String, u16)> by their map views
#[verifier::external_body]
struct PortMap {}
impl PortMap {
    uninterp spec fn view(&self) -> Map<HostId, u16>;
    #[verifier::external_body]
    fn entry_or_default(&mut self, k: HostId) -> (r: &mut u16)
        ensures *r == (if old(self)@.contains_key(k) { old(self)@[k] } else { 0u16 }),
                final(self)@ == old(self)@.insert(k, *final(r)),
    { unimplemented!() }
}
#[verifier::external_body]
struct AddrMap {}
impl AddrMap {
    uninterp spec fn view(&self) -> Map<DemuxCoord, (RString, u16)>;
    #[verifier::external_body]
    fn insert(&mut self, k: DemuxCoord, v: (RString, u16)) -> (r: Option<(RString, u16)>) ensures final(self)@ == old(self)@.insert(k, v) { unimplemented!() }
}
struct NetworkTopology { demultiplexer_addresses: AddrMap }

// number of coordinates of host h among the first k
spec fn rank(cs: Seq<DemuxCoord>, h: HostId, k: int) -> int
    decreases k
{
    if k <= 0 { 0 } else { rank(cs, h, k - 1) + (if cs[k - 1].coord.host_id == h { 1int } else { 0int }) }
}
proof fn lemma_rank_mono(cs: Seq<DemuxCoord>, h: HostId, i: int, j: int)
    requires 0 <= i <= j <= cs.len()
    ensures 0 <= rank(cs, h, i) <= rank(cs, h, j) <= j
    decreases j - i
{
    if i < j { lemma_rank_mono(cs, h, i, j - 1); } else { lemma_rank_nonneg(cs, h, i); }
}
proof fn lemma_rank_nonneg(cs: Seq<DemuxCoord>, h: HostId, i: int)
    requires 0 <= i <= cs.len()
    ensures 0 <= rank(cs, h, i) <= i
    decreases i
{
    if i > 0 { lemma_rank_nonneg(cs, h, i - 1); }
}
// two different positions of the same host have different ranks: no two demultiplexers of a host share a port
proof fn lemma_rank_distinct(cs: Seq<DemuxCoord>, i: int, j: int)
    requires 0 <= i < j < cs.len(), cs[i].coord.host_id == cs[j].coord.host_id
    ensures rank(cs, cs[i].coord.host_id, i) < rank(cs, cs[i].coord.host_id, j)                                             // #obl:ports.two_demultiplexers_of_a_host_never_share_a_port
{
    let h = cs[i].coord.host_id;
    lemma_rank_mono(cs, h, i + 1, j);
    assert(rank(cs, h, i + 1) == rank(cs, h, i) + 1);
}
'''
SPEC = r'''
        requires
            forall|a: int, b: int| 0 <= a < b < coords@.len() ==> #[trigger] coords@[a] != #[trigger] coords@[b],
            forall|a: int| 0 <= a < coords@.len() ==> (#[trigger] coords@[a]).coord.host_id < config.hosts@.len(),
            forall|h: HostId| !old(used_ports)@.contains_key(h),
            forall|h: HostId| h < config.hosts@.len() ==> #[trigger] config.hosts@[h as int].base_port + rank(coords@, h, coords@.len() as int) <= 0xffff,
        ensures
            // every coordinate gets its host's address and the port base_port + (number of earlier coordinates of that host)
            forall|i: int| 0 <= i < coords@.len() ==> final(self_).demultiplexer_addresses@.contains_key(#[trigger] coords@[i])
                && final(self_).demultiplexer_addresses@[coords@[i]]
                    == (config.hosts@[coords@[i].coord.host_id as int].address,
                        (config.hosts@[coords@[i].coord.host_id as int].base_port + rank(coords@, coords@[i].coord.host_id, i)) as u16),      // #obl:ports.port_is_base_plus_rank_in_sorted_order
            // nothing else is added
            forall|c: DemuxCoord| final(self_).demultiplexer_addresses@.contains_key(c) ==>
                old(self_).demultiplexer_addresses@.contains_key(c) || exists|i: int| 0 <= i < coords@.len() && #[trigger] coords@[i] == c,   // #obl:ports.only_the_listed_coordinates_get_an_address
'''
LOOP = r'''
        invariant
            __i <= coords@.len(),
            forall|a: int, b: int| 0 <= a < b < coords@.len() ==> #[trigger] coords@[a] != #[trigger] coords@[b],
            forall|a: int| 0 <= a < coords@.len() ==> (#[trigger] coords@[a]).coord.host_id < config.hosts@.len(),
            forall|h: HostId| h < config.hosts@.len() ==> #[trigger] config.hosts@[h as int].base_port + rank(coords@, h, coords@.len() as int) <= 0xffff,
            forall|h: HostId| (if used_ports@.contains_key(h) { used_ports@[h] as int } else { 0 }) == rank(coords@, h, __i as int),
            forall|i: int| 0 <= i < __i ==> self_.demultiplexer_addresses@.contains_key(#[trigger] coords@[i])
                && self_.demultiplexer_addresses@[coords@[i]]
                    == (config.hosts@[coords@[i].coord.host_id as int].address,
                        (config.hosts@[coords@[i].coord.host_id as int].base_port + rank(coords@, coords@[i].coord.host_id, i)) as u16),
            forall|c: DemuxCoord| self_.demultiplexer_addresses@.contains_key(c) ==>
                old(self_).demultiplexer_addresses@.contains_key(c) || exists|i: int| 0 <= i < __i && #[trigger] coords@[i] == c,
        decreases coords@.len() - __i,
'''


def build(x):
    bc = x.struct(FN, 'BlockCoord'); bc.text = '#[derive(Clone, Copy)]\n' + bc.text
    dc = x.struct(FN, 'DemuxCoord'); dc.text = '#[derive(Clone, Copy)]\n' + dc.text
    lp = x.stmt(F, 'NetworkTopology', 'build', r'for coord in coords\.into_iter\(\) \{')
    lp.sub('V-ITER', r'for coord in coords\.into_iter\(\) \{', 'let mut __i: usize = 0; while __i < coords.len() { let coord = coords[__i]; /*@coord*/ __i += 1;', detail='`for x in v.into_iter() {` -> while loop with index', must=True)
    lp.sub('V-SUBST', r'used_ports\.entry\(host_id\)\.or_default\(\)', 'used_ports.entry_or_default(host_id)', detail='`.entry(k).or_default()` -> entry_or_default(k)', must=True)
    lp.sub('V-SUBST', r'\bself\.demultiplexer_addresses\b', 'self_.demultiplexer_addresses', detail='`self` is a parameter of the wrapper function (named self_)')
    lp.text = ("fn assign_ports(self_: &mut NetworkTopology, config: &RemoteConfig, coords: Vec<DemuxCoord>, used_ports: &mut PortMap)\n"
               + SPEC + "{\n    " + lp.text + "\n}\n")
    lp.add_loop_spec(1, LOOP)
    lp.insert_after('/*@coord*/', ''' let ghost up0 = used_ports@; let ghost i0 = __i as int;
            proof {
                let h = coord.coord.host_id;
                lemma_rank_mono(coords@, h, i0 + 1, coords@.len() as int); lemma_rank_nonneg(coords@, h, i0);
                assert(rank(coords@, h, i0 + 1) == rank(coords@, h, i0) + 1);
                assert(config.hosts@[h as int].base_port + rank(coords@, h, coords@.len() as int) <= 0xffff);
                assert((if up0.contains_key(h) { up0[h] as int } else { 0 }) == rank(coords@, h, i0));
            }''')
    lp.insert_at_loop_end(1, r'''
        proof {
            let ii = __i as int - 1;
            assert forall|i: int| 0 <= i < ii implies coords@[i] != coord by { }
            assert forall|h: HostId| (if used_ports@.contains_key(h) { used_ports@[h] as int } else { 0 }) == rank(coords@, h, __i as int) by {   // #obl:ports.offset_counts_the_coordinates_of_the_host
                assert((if up0.contains_key(h) { up0[h] as int } else { 0 }) == rank(coords@, h, ii));
            }
        }''')
    return [PRELUDE, bc, dc, lp]
