"""C06 / C05 — AddTimestamp::next and DropTimestamp::next (src/operator/add_timestamps.rs).
AddTimestamp: every item leaves as Timestamped(item, timestamp_gen(item)); the watermark the user's generator returns for that
item leaves in the very next call, unchanged, before anything else is pulled; control elements pass through unchanged and
only when no watermark is pending; nothing else is ever produced.  DropTimestamp: watermarks are absorbed, timestamps
stripped, everything else unchanged."""
import os, re, sys
sys.path.insert(0, os.path.dirname(os.path.dirname(__file__)))
import std_specs as S

PROPERTIES = ["C06", "C05"]
MIN_VERIFIED = 2
F = 'src/operator/add_timestamps.rs'
FO = 'src/operator/mod.rs'
ASSUMPTIONS = [
    "user timestamp / watermark generators: total (callable on every item); their results are arbitrary values related to the arguments only by the closures' own (unknown) postconditions - no determinism assumed; that the generated watermarks are below all later timestamps is the USER's obligation (W_in at sources), not decided",
    "R-PROTO (environment of AddTimestamp): the input stream is untimestamped - prev.next() never returns Timestamped / Watermark (the real code panics on them by design: fail-stop)",
    "prev.next() returns any (other) element (model trait Operator with a ghost history)",
    "termination of DropTimestamp::next (it pulls until a non-watermark arrives) is not verified",
]
PRELUDE = r'''
type Timestamp = i64;
trait Operator: Sized {
    type Out: Send;
    spec fn hist(&self) -> Seq<StreamElement<Self::Out>>;
    // R-PROTO: what the environment promises about every element this operator delivers
    spec fn elem_ok(e: StreamElement<Self::Out>) -> bool;
    fn next(&mut self) -> (r: StreamElement<Self::Out>)
        ensures final(self).hist() == old(self).hist().push(r), Self::elem_ok(r);
}
spec fn untimed<T>(e: StreamElement<T>) -> bool { !(e is Timestamped) && !(e is Watermark) }
'''
ADD_IMPL = r'''
impl<TimestampGen, WatermarkGen, OperatorChain> AddTimestamp<TimestampGen, WatermarkGen, OperatorChain>
where
    OperatorChain: Operator,
    TimestampGen: FnMut(&OperatorChain::Out) -> Timestamp + Clone + Send + 'static,
    WatermarkGen: FnMut(&OperatorChain::Out, &Timestamp) -> Option<Timestamp> + Clone + Send + 'static,
{
    spec fn gens_total(&self) -> bool {
        &&& forall|x: &OperatorChain::Out| self.timestamp_gen.requires((x,))
        &&& forall|x: &OperatorChain::Out, t: &Timestamp| self.watermark_gen.requires((x, t))
        &&& forall|e: StreamElement<OperatorChain::Out>| OperatorChain::elem_ok(e) ==> untimed(e)
    }
}
'''
ADD_NEXT_SPEC = r'''
        requires old(self).gens_total(),
        ensures
            // a pending watermark leaves first, unchanged, and nothing is pulled
            old(self).pending_watermark matches Some(w) ==> r == StreamElement::<OperatorChain::Out>::Watermark(w),     // #obl:add_timestamps.pending_watermark_leaves_first_unchanged
            old(self).pending_watermark is Some ==> final(self).pending_watermark is None && final(self).prev.hist() == old(self).prev.hist(),   // #obl:add_timestamps.pending_watermark_emitted_once_nothing_pulled
            old(self).pending_watermark is None ==> final(self).prev.hist().len() == old(self).prev.hist().len() + 1,   // #obl:add_timestamps.one_element_pulled_per_call
            old(self).pending_watermark is None ==> (final(self).prev.hist().last() matches StreamElement::Item(x) ==>
                (r matches StreamElement::Timestamped(y, ts) && y == x)),                                               // #obl:add_timestamps.item_kept_and_stamped
            old(self).pending_watermark is None ==> (final(self).prev.hist().last() matches StreamElement::Item(x) ==>
                (r matches StreamElement::Timestamped(y, ts) && old(self).timestamp_gen.ensures((&x,), ts))),           // #obl:add_timestamps.timestamp_is_the_generators
            old(self).pending_watermark is None ==> (final(self).prev.hist().last() matches StreamElement::Item(x) ==>
                (r matches StreamElement::Timestamped(y, ts) && old(self).watermark_gen.ensures((&x, &ts), final(self).pending_watermark))),   // #obl:add_timestamps.watermark_of_this_item_is_the_next_output
            old(self).pending_watermark is None && !(final(self).prev.hist().last() is Item) ==>
                r == final(self).prev.hist().last() && final(self).pending_watermark is None,                           // #obl:add_timestamps.control_passes_through_unchanged
'''
DROP_NEXT_SPEC = r'''
        ensures
            ({
                let p = final(self).prev.hist().skip(old(self).prev.hist().len() as int);
                &&& p.len() >= 1
                &&& forall|i: int| 0 <= i < p.len() - 1 ==> #[trigger] p[i] is Watermark                     // #obl:drop_timestamps.only_watermarks_absorbed
                &&& match p.last() {
                    StreamElement::Timestamped(x, _) => r == StreamElement::Item(x),                        // #obl:drop_timestamps.timestamp_stripped_item_kept
                    StreamElement::Watermark(_) => false,
                    e => r == e,                                                                            // #obl:drop_timestamps.everything_else_unchanged
                }
            }),
'''


def build(x):
    pieces = [PRELUDE, S.RUST_PANIC, x.enum(FO, 'StreamElement')]
    st = x.struct(F, 'AddTimestamp')
    st.text = '#[verifier::reject_recursive_types(TimestampGen)]\n#[verifier::reject_recursive_types(WatermarkGen)]\n#[verifier::reject_recursive_types(OperatorChain)]\n' + st.text
    pieces += [st, ADD_IMPL]
    nx = x.method(F, 'AddTimestamp', 'next', trait='Operator')
    nx.replace_exact('V-TRAIT', 'StreamElement<Self::Out>', 'StreamElement<OperatorChain::Out>', detail='associated type Out substituted by its definition', count=None)
    nx.name_result('r')
    nx.add_spec(ADD_NEXT_SPEC)
    nx.sub('V-ASSERT', r'_ => panic!\((?:[^()]|\((?:[^()]|\([^()]*\))*\))*\),', '_ => { rust_panic(); StreamElement::Terminate }',
           detail='panic!(..) arm -> rust_panic() (requires false): the absence of the panic is an obligation', flags=re.S, must=True)
    nx.insert_before('let elem = self.prev.next();', 'let ghost h0 = self.prev.hist();\n        ')
    nx.insert_after('let elem = self.prev.next();', '\n        proof { assert(self.prev.hist().last() == elem); }')
    pieces += ["impl<TimestampGen, WatermarkGen, OperatorChain> AddTimestamp<TimestampGen, WatermarkGen, OperatorChain>\nwhere\n    OperatorChain: Operator,\n    TimestampGen: FnMut(&OperatorChain::Out) -> Timestamp + Clone + Send + 'static,\n    WatermarkGen: FnMut(&OperatorChain::Out, &Timestamp) -> Option<Timestamp> + Clone + Send + 'static,\n{", nx, "}"]

    sd = x.struct(F, 'DropTimestamp')
    sd.text = '#[verifier::reject_recursive_types(OperatorChain)]\n' + sd.text
    dn = x.method(F, 'DropTimestamp', 'next', trait='Operator')
    dn.replace_exact('V-TRAIT', 'StreamElement<Self::Out>', 'StreamElement<OperatorChain::Out>', detail='associated type Out substituted by its definition', count=None)
    dn.name_result('r')
    dn.add_spec(DROP_NEXT_SPEC)
    dn.text = '#[verifier::exec_allows_no_decreases_clause]\n' + dn.text
    dn.add_loop_spec(1, r'''
            invariant
                self.prev.hist().len() >= old(self).prev.hist().len(),
                forall|i: int| 0 <= i < self.prev.hist().len() - old(self).prev.hist().len() ==> #[trigger] self.prev.hist().skip(old(self).prev.hist().len() as int)[i] is Watermark,
''')
    dn.insert_before(re.compile(r'(?:match|let (?:mut )?\w+(?:\s*:[^=;]*)? =) self\.prev\.next\(\)'), 'let ghost h0 = self.prev.hist();\n            ')
    dn.pull_hint('proof { let k = old(self).prev.hist().len() as int; assert(self.prev.hist().skip(k) =~= h0.skip(k).push(__e)); }')
    pieces += [sd, "impl<OperatorChain> DropTimestamp<OperatorChain>\nwhere\n    OperatorChain: Operator,\n{", dn, "}"]
    return pieces
