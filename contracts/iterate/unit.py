"""C10 (iterate) — Iterate::{next_input, next_stored, feedback_finished, next} (src/operator/iteration/iterate.rs): the first
operator of the body of an `iterate` loop.  Round 1 forwards the outside input; every later round feeds back exactly what
the previous round produced (the feedback link's content up to its FlushAndRestart), in order; the state lock is taken when
a round's FlushAndRestart goes out; a round starts only after the leader's verdict was synchronised; when the loop finishes
the last round's elements are sent, in one batch and in order, to the output block."""
import os, re, sys
sys.path.insert(0, os.path.dirname(os.path.dirname(__file__)))
import std_specs as S

PROPERTIES = ["C10"]
MIN_VERIFIED = 4
F = 'src/operator/iteration/iterate.rs'
FI = 'src/operator/iteration/mod.rs'
FO = 'src/operator/mod.rs'
FN = 'src/network/mod.rs'
FC = 'src/channel.rs'
ASSUMPTIONS = [
    "R-CHAN for Iterate::input_or_feedback / wait_update (VERIFIED on their real bodies): a receiver is a handle with a ghost log of the messages it handed out (interior mutability modelled as &mut: `.as_ref()` -> `.as_mut()` on the two link receivers); recv / select return ANY message or a disconnection and log it; the shared state receiver is read through variants that do not track its own log (recv_ro / select_ro, V-SUBST); the state receiver exists after setup; a panic (disconnected feedback / state link, a verdict message with != 1 items) does not return (partial correctness); termination is not decided",
    "IterationStateHandler is the environment (cross-thread protocol, NOT verified): lock() and wait_sync_state(update) are logged in a ghost event list; wait_sync_state returns the verdict carried by the update",
    "NetworkSender::send appends to the link's ghost log (R-CHAN, `&self` modelled as `&mut`); NetworkReceiver::try_recv returns some message or an error; VecDeque::extend over a message's elements appends them in order (stub extend_from_message; NetworkMessage::into_iter is under contract in units start_next / binary_select)",
    "termination of Iterate::next is not verified (it blocks on the network)",
]
PRELUDE = r'''
use std::collections::VecDeque;
use vstd::std_specs::iter::IteratorSpec;
type BlockId = u64; type HostId = u64; type ReplicaId = u64; type Timestamp = i64;
trait Data: Clone + Send + 'static {}
trait ExchangeData: Data {}
broadcast use trusted_axioms::axiom_data_clone;
type StateFeedback<State> = (IterationResult, State);
spec fn msg_data<T>(m: NetworkMessage<T>) -> Seq<StreamElement<T>> { match m.data { NetworkData::Batch(v) => v@ } }
#[verifier::external_body]
struct AtomicId {}
#[derive(Debug)]
struct RecvErr {}
#[derive(Debug)]
struct SendErr {}
#[verifier::external_body]
#[verifier::reject_recursive_types(In)]
struct NetworkReceiver<In> { _p: core::marker::PhantomData<In> }
impl<In> NetworkReceiver<In> {
    #[verifier::external_body]
    fn try_recv(&self) -> (r: Result<NetworkMessage<In>, RecvErr>) { unimplemented!() }
    // R-CHAN: a blocking receive / a select over two links return ANY message or a disconnection
    // the state receiver is shared (`&`): its own log is not tracked
    #[verifier::external_body]
    fn recv_ro(&self) -> (r: Result<NetworkMessage<In>, RecvError>) { unimplemented!() }
    #[verifier::external_body]
    fn select_ro<In2>(&self, other: &mut NetworkReceiver<In2>) -> (r: SelectResult<NetworkMessage<In>, NetworkMessage<In2>>)
        ensures (r matches SelectResult::B(Ok(m)) ==> final(other).taken() == old(other).taken().push(m)), !(r matches SelectResult::B(Ok(_))) ==> final(other).taken() == old(other).taken()
    { unimplemented!() }
    // what this receiver has handed out so far (R-CHAN; interior mutability of the channel modelled as &mut on the handle)
    uninterp spec fn taken(&self) -> Seq<NetworkMessage<In>>;
    #[verifier::external_body]
    fn recv(&mut self) -> (r: Result<NetworkMessage<In>, RecvError>)
        ensures (r matches Ok(m) ==> final(self).taken() == old(self).taken().push(m)), (r is Err ==> final(self).taken() == old(self).taken())
    { unimplemented!() }
    #[verifier::external_body]
    fn select<In2>(&mut self, other: &mut NetworkReceiver<In2>) -> (r: SelectResult<NetworkMessage<In>, NetworkMessage<In2>>)
        ensures
            (r matches SelectResult::A(Ok(m)) ==> final(self).taken() == old(self).taken().push(m) && final(other).taken() == old(other).taken()),
            (r matches SelectResult::B(Ok(m)) ==> final(other).taken() == old(other).taken().push(m) && final(self).taken() == old(self).taken()),
            ((r matches SelectResult::A(Err(_))) || (r matches SelectResult::B(Err(_)))) ==> final(self).taken() == old(self).taken() && final(other).taken() == old(other).taken(),
    { unimplemented!() }
}
// the elements of the messages a receiver handed out between two states (at most one message per call here)
spec fn flat_msgs<In>(ms: Seq<NetworkMessage<In>>) -> Seq<StreamElement<In>>
    decreases ms.len()
{
    if ms.len() == 0 { Seq::empty() } else { flat_msgs(ms.drop_last()) + msg_data(ms.last()) }
}
// `a` is exactly what receiver `n` handed out since it was `o` (a receiver that was dropped after a disconnection handed out nothing more)
spec fn handed_out<In>(o: Option<NetworkReceiver<In>>, n: Option<NetworkReceiver<In>>, a: Seq<StreamElement<In>>) -> bool {
    match (o, n) {
        (Some(r0), Some(r1)) => r1.taken().len() >= r0.taken().len() && r1.taken().take(r0.taken().len() as int) == r0.taken() && a == flat_msgs(r1.taken().skip(r0.taken().len() as int)),
        (Some(_), None) => a.len() == 0,
        (None, _) => a.len() == 0,
    }
}
proof fn lemma_flat_one<In>(t0: Seq<NetworkMessage<In>>, m: NetworkMessage<In>)
    ensures flat_msgs(t0.push(m).skip(t0.len() as int)) == msg_data(m), t0.push(m).take(t0.len() as int) == t0,
            flat_msgs(t0.skip(t0.len() as int)) == Seq::<StreamElement<In>>::empty(), t0.take(t0.len() as int) == t0
{
    let s1 = t0.push(m).skip(t0.len() as int);
    assert(s1 =~= seq![m]); assert(s1.drop_last() =~= Seq::<NetworkMessage<In>>::empty());
    assert(flat_msgs(s1.drop_last()) =~= Seq::<StreamElement<In>>::empty());
    assert(Seq::<StreamElement<In>>::empty() + msg_data(m) =~= msg_data(m));
    assert(t0.push(m).take(t0.len() as int) =~= t0);
    assert(t0.skip(t0.len() as int) =~= Seq::<NetworkMessage<In>>::empty()); assert(t0.take(t0.len() as int) =~= t0);
}
// a panic does not return: nothing has to hold afterwards (partial correctness; fail-stop is C20, not decided here)
#[verifier::external_body]
fn panic_no_return() ensures false { unimplemented!() }
#[verifier::external_body]
fn panic_no_return_val<T>() -> T ensures false { unimplemented!() }
#[verifier::external_body]
#[verifier::reject_recursive_types(Out)]
struct NetworkSender<Out> { _p: core::marker::PhantomData<Out> }
impl<Out> NetworkSender<Out> {
    uninterp spec fn log(&self) -> Seq<NetworkMessage<Out>>;
    #[verifier::external_body]
    fn send(&mut self, message: NetworkMessage<Out>) -> (r: Result<(), SendErr>)
        ensures r is Ok, final(self).log() == old(self).log().push(message)
    { unimplemented!() }
}
enum Ev<State> { Lock, Sync(StateFeedback<State>) }
#[verifier::external_body]
#[verifier::reject_recursive_types(State)]
struct IterationStateHandler<State> { _p: core::marker::PhantomData<State> }
impl<State> IterationStateHandler<State> {
    uninterp spec fn events(&self) -> Seq<Ev<State>>;
    // the receiver of the leader's verdicts exists once setup() has run (precondition `ready`)
    #[verifier::external_body]
    fn state_receiver(&self) -> (r: Option<&NetworkReceiver<StateFeedback<State>>>) ensures r is Some { unimplemented!() }
    #[verifier::external_body]
    fn lock(&mut self) ensures final(self).events() == old(self).events().push(Ev::Lock) { unimplemented!() }
    #[verifier::external_body]
    fn wait_sync_state(&mut self, state_update: StateFeedback<State>) -> (r: IterationResult)
        ensures final(self).events() == old(self).events().push(Ev::Sync(state_update)), r == state_update.0
    { unimplemented!() }
}
// VecDeque::extend(message.into_iter()): the batch's elements appended in order
#[verifier::external_body]
fn extend_from_message<T>(q: &mut VecDeque<StreamElement<T>>, m: NetworkMessage<T>)
    ensures final(q)@ == old(q)@ + msg_data(m)
{ unimplemented!() }
// VecDeque::drain(..).collect::<Vec<_>>(): everything, in order; the deque is left empty
#[verifier::external_body]
fn drain_to_vec<T>(q: &mut VecDeque<StreamElement<T>>) -> (r: Vec<StreamElement<T>>)
    ensures r@ == old(q)@, final(q)@.len() == 0
{ unimplemented!() }
'''
SPEC_IMPL = r'''
impl<Out: ExchangeData, State: ExchangeData> Iterate<Out, State> {
    spec fn ready(&self) -> bool { self.feedback_receiver is Some && self.output_sender is Some }
    // everything but the two stashes
    spec fn same_but_stashes(&self, o: &Self) -> bool {
        &&& self.coord == o.coord && self.state == o.state
        &&& self.feedback_receiver is Some == o.feedback_receiver is Some && self.output_sender == o.output_sender
        &&& self.content == o.content && self.input_finished == o.input_finished
    }
}
spec fn appended<T>(o: Seq<T>, n: Seq<T>, a: Seq<T>) -> bool { n == o + a }
'''
IOF_SPEC = r'''
        requires old(self).ready(),
        ensures final(self).same_but_stashes(old(self)),                                                    // #obl:input_or_feedback.touches_only_the_two_stashes
            final(self).input_receiver is Some ==> old(self).input_receiver is Some,
            exists|a: Seq<StreamElement<Out>>, b: Seq<StreamElement<Out>>| #[trigger] appended(old(self).input_stash@, final(self).input_stash@, a) && #[trigger] appended(old(self).feedback_content@, final(self).feedback_content@, b)
                && handed_out(old(self).input_receiver, final(self).input_receiver, a) && handed_out(old(self).feedback_receiver, final(self).feedback_receiver, b),   // #obl:input_or_feedback.exactly_what_each_link_handed_out_goes_to_its_own_stash_in_order
        decreases (if old(self).input_receiver is Some { 1int } else { 0int }),
'''
WAIT_SPEC = r'''
        requires old(self).ready(),
        ensures final(self).same_but_stashes(old(self)), final(self).feedback_content == old(self).feedback_content,   // #obl:wait_update.touches_only_the_input_stash
            exists|a: Seq<StreamElement<Out>>| #[trigger] appended(old(self).input_stash@, final(self).input_stash@, a),  // #obl:wait_update.early_input_is_stashed_in_order
'''
NEXT_INPUT_SPEC = r'''
        requires old(self).ready(),
        ensures
            final(self).ready(), final(self).content == old(self).content, final(self).feedback_content == old(self).feedback_content,
            old(self).input_stash@.len() == 0 ==> r is None && final(self).input_stash@ == old(self).input_stash@ && final(self).input_finished == old(self).input_finished
                && final(self).state == old(self).state && final(self).output_sender == old(self).output_sender,
            old(self).input_stash@.len() > 0 ==> r == Some(old(self).input_stash@[0]) && final(self).input_stash@ == old(self).input_stash@.skip(1)   // #obl:next_input.forwards_the_stashed_input_in_order
                && final(self).input_finished == (old(self).input_finished || old(self).input_stash@[0] is FlushAndRestart)
                && final(self).state.events() == (if old(self).input_stash@[0] is FlushAndRestart { old(self).state.events().push(Ev::Lock) } else { old(self).state.events() })   // #obl:next_input.locks_the_state_at_the_end_of_the_input
                // Terminate is also forwarded to the output block
                && (old(self).input_stash@[0] is Terminate ==> final(self).output_sender->0.log() == old(self).output_sender->0.log().push(final(self).output_sender->0.log().last())
                        && msg_data(final(self).output_sender->0.log().last()) == seq![StreamElement::<Out>::Terminate])      // #obl:next_input.terminate_reaches_the_output_block
                && (!(old(self).input_stash@[0] is Terminate) ==> final(self).output_sender == old(self).output_sender),
'''
NEXT_STORED_SPEC = r'''
        ensures
            final(self).input_stash == old(self).input_stash && final(self).feedback_content == old(self).feedback_content
                && final(self).input_finished == old(self).input_finished && final(self).output_sender == old(self).output_sender
                && final(self).feedback_receiver == old(self).feedback_receiver,
            old(self).content@.len() == 0 ==> r is None && final(self).content@ == old(self).content@ && final(self).state == old(self).state,
            old(self).content@.len() > 0 ==> r == Some(old(self).content@[0]) && final(self).content@ == old(self).content@.skip(1)       // #obl:next_stored.feeds_back_in_order
                && final(self).state.events() == (if old(self).content@[0] is FlushAndRestart { old(self).state.events().push(Ev::Lock) } else { old(self).state.events() }),   // #obl:next_stored.locks_the_state_at_the_end_of_the_round
'''

NEXT_SPEC = r"""
        requires old(self).ready(),
        ensures
            final(self).ready(),
            // ---- round 1: the outside input is forwarded in arrival order (FIFO through the stash), nothing is lost
            !old(self).input_finished ==> (exists|a: Seq<StreamElement<Out>>| #[trigger] appended(old(self).input_stash@, seq![r] + final(self).input_stash@, a))
                && final(self).content@ == old(self).content@
                && final(self).input_finished == (r is FlushAndRestart)
                && final(self).state.events() == (if r is FlushAndRestart { old(self).state.events().push(Ev::Lock) } else { old(self).state.events() }),   // #obl:next.first_round_forwards_the_input_in_order
            // ---- later rounds: what the previous round fed back is re-fed in order, one element per call
            old(self).input_finished && old(self).content@.len() > 0 ==>
                r == old(self).content@[0] && final(self).content@ == old(self).content@.skip(1) && final(self).input_finished
                && final(self).input_stash@ == old(self).input_stash@ && final(self).output_sender == old(self).output_sender
                && final(self).state.events() == (if r is FlushAndRestart { old(self).state.events().push(Ev::Lock) } else { old(self).state.events() }),   // #obl:next.feeds_back_the_previous_round_in_order
            // ---- round boundary: the whole feedback of the round (up to its FlushAndRestart) becomes the next round's content,
            //      after the leader's verdict was synchronised; Finished -> it is sent to the output block instead, in one batch
            old(self).input_finished && old(self).content@.len() == 0 ==> ({
                let n0 = old(self).state.events().len() as int;
                &&& final(self).state.events().len() > n0 && final(self).state.events().take(n0) =~= old(self).state.events()
                &&& final(self).state.events()[n0] is Sync                                                                      // #obl:next.new_round_only_after_the_state_update
                &&& exists|b: Seq<StreamElement<Out>>| #[trigger] Self::boundary(old(self), final(self), r, b)                         // #obl:next.round_boundary
            }),
"""
BOUNDARY = r"""
impl<Out: ExchangeData, State: ExchangeData> Iterate<Out, State> {
    // the feedback of the round that just ended is newc = o.feedback_content ++ b, ending with its FlushAndRestart
    spec fn boundary(o: &Self, n: &Self, r: StreamElement<Out>, b: Seq<StreamElement<Out>>) -> bool {
        let n0 = o.state.events().len() as int;
        let newc = o.feedback_content@ + b;
        &&& newc.len() > 0 && newc.last() is FlushAndRestart
        &&& (n.state.events()[n0]->Sync_0.0 is Continue ==>
                r == newc[0] && n.content@ == newc.skip(1) && n.input_finished && n.output_sender == o.output_sender)          // Continue: fed back from its first element
        &&& (n.state.events()[n0]->Sync_0.0 is Finished ==>
                o.output_sender is Some && n.output_sender is Some
                && n.output_sender->0.log().len() >= o.output_sender->0.log().len() + 1
                && msg_data(n.output_sender->0.log()[o.output_sender->0.log().len() as int]) == newc                          // Finished: the last round's elements go out, in order
                && n.output_sender->0.log()[o.output_sender->0.log().len() as int].sender == o.coord)
    }
}
"""

NEXT_GHOST = r"""
        let ghost mut ga: Seq<StreamElement<Out>> = Seq::empty();
        let ghost mut gb: Seq<StreamElement<Out>> = Seq::empty();
        let ghost mut phase: int = 0;
        let ghost mut newc: Seq<StreamElement<Out>> = Seq::empty();
        let ghost n0 = self.state.events().len() as int;
        proof { assert(self.input_stash@ + ga =~= self.input_stash@); assert(self.feedback_content@ + gb =~= self.feedback_content@); }
"""
NEXT_INV = r"""
                self.ready(), 0 <= phase <= 2, n0 == old(self).state.events().len(),
                self.coord == old(self).coord,
                self.input_stash@ == old(self).input_stash@ + ga,
                phase == 0 ==> self.content@ == old(self).content@ && self.input_finished == old(self).input_finished && self.state == old(self).state
                    && self.output_sender == old(self).output_sender && self.feedback_content@ == old(self).feedback_content@ + gb,
                (phase == 0 && old(self).input_finished && old(self).content@.len() > 0) ==> ga.len() == 0,
                phase != 0 ==> old(self).input_finished && old(self).content@.len() == 0
                    && self.state.events().len() == n0 + 1 && self.state.events().take(n0) =~= old(self).state.events() && self.state.events()[n0] is Sync
                    && newc == old(self).feedback_content@ + gb && newc.len() > 0 && newc.last() is FlushAndRestart,
                phase == 1 ==> self.state.events()[n0]->Sync_0.0 is Continue && self.content@ == newc && self.input_finished && self.output_sender == old(self).output_sender,
                phase == 2 ==> self.state.events()[n0]->Sync_0.0 is Finished && self.content@.len() == 0 && !self.input_finished
                    && old(self).output_sender is Some && self.output_sender->0.log() == old(self).output_sender->0.log().push(self.output_sender->0.log().last())
                    && msg_data(self.output_sender->0.log().last()) == newc && self.output_sender->0.log().last().sender == old(self).coord,
"""


def message_items(x):
    """NetworkMessage::{num_items, into_iter} and NetworkDataIterator::next with the same contracts as in units start_next / binary_select."""
    ii = x.method(FN, 'NetworkMessage', 'into_iter', trait='IntoIterator')
    ii.replace_exact('V-TRAIT', 'Self::IntoIter', 'NetworkDataIterator<StreamElement<T>>', detail='associated type IntoIter substituted')
    ii.name_result('r')
    ii.add_spec("        ensures (r matches NetworkDataIterator::Batch(i) && i.remaining() == msg_data(self)), // #obl:message.into_iter_yields_the_batch_in_order")
    ni = x.method(FN, 'NetworkMessage', 'num_items'); ni.name_result('r')
    ni.add_spec("        ensures r == msg_data(*self).len(), // #obl:message.num_items")
    nx = x.method(FN, 'NetworkDataIterator', 'next', trait='Iterator')
    nx.replace_exact('V-TRAIT', 'Self::Item', 'T', detail='associated type Item substituted')
    nx.name_result('r')
    nx.add_spec('''        ensures
            (*old(self) matches NetworkDataIterator::Batch(i0) && *final(self) matches NetworkDataIterator::Batch(i1) &&
                (if i0.remaining().len() == 0 { r is None && i1.remaining() == i0.remaining() }
                 else { r == Some(i0.remaining()[0]) && i1.remaining() == i0.remaining().skip(1) })),   // #obl:data_iterator.next_pops_head''')
    return [x.enum(FN, 'NetworkDataIterator'), "impl<T> NetworkMessage<T> {", ni, ii, "}", "impl<T> NetworkDataIterator<T> {", nx, "}"]


def build(x):
    pieces = [S.CLONE_IS_EQ, S.RUST_PANIC, S.VECDEQUE_BACK, S.VECDEQUE_IS_EMPTY, PRELUDE]
    se = x.enum(FO, 'StreamElement'); se.text = '#[derive(Clone)]\n' + se.text
    c = x.struct(FN, 'Coord'); c.text = '#[derive(Clone, Copy)]\n' + c.text
    ir = x.enum(FI, 'IterationResult'); ir.text = '#[derive(Clone)]\n' + ir.text
    pieces += [se, c, x.enum(FN, 'NetworkData'), x.struct(FN, 'NetworkMessage'), ir]
    ns = x.method(FN, 'NetworkMessage', 'new_single'); ns.name_result('r')
    ns.add_spec("        ensures r.sender == sender, msg_data(r) == seq![data], // #obl:message.new_single")
    nb = x.method(FN, 'NetworkMessage', 'new_batch'); nb.name_result('r')
    nb.add_spec("        ensures r.sender == sender, msg_data(r) == data@, // #obl:message.new_batch")
    pieces += ["impl<T> NetworkMessage<T> {", ns, nb, "}"]
    st = x.struct(F, 'Iterate')
    st.text = '#[verifier::reject_recursive_types(Out)]\n#[verifier::reject_recursive_types(State)]\n' + st.text
    st.sub('V-SUBST', r'Arc<AtomicUsize>', 'AtomicId', detail='Arc<AtomicUsize> -> opaque value', must=True)
    st.sub('V-ATTR', r'^\s*#\[derivative\([^\n]*\)\]\s*\n', '', detail='field-level derivative attributes dropped')
    pieces += [st, SPEC_IMPL]
    ni = x.method(F, 'Iterate', 'next_input'); ni.name_result('r')
    ni.sub('V-SUBST', r'self\.output_sender\.as_ref\(\)\.unwrap\(\)\.send\(', 'self.output_sender.as_mut().unwrap().send(', detail='R-CHAN: the sender handle is borrowed mutably (ghost log)')
    ni.add_spec(NEXT_INPUT_SPEC)
    nst = x.method(F, 'Iterate', 'next_stored'); nst.name_result('r'); nst.add_spec(NEXT_STORED_SPEC)
    ff = x.method(F, 'Iterate', 'feedback_finished'); ff.name_result('r')
    ff.add_spec("        ensures r == (self.feedback_content@.len() > 0 && self.feedback_content@.last() is FlushAndRestart), // #obl:feedback_finished.last_element_is_the_end_marker")
    hdr = "impl<Out: ExchangeData, State: ExchangeData> Iterate<Out, State> {"
    nx = x.method(F, 'Iterate', 'next', trait='Operator'); nx.name_result('r')
    nx.desugar_assert()
    nx.sub('V-ITER', r'while let Ok\(message\) = self\.feedback_receiver\.as_ref\(\)\.unwrap\(\)\.try_recv\(\) \{\s*self\.feedback_content\.extend\(&mut message\.into_iter\(\)\);\s*\}',
           'loop { match self.feedback_receiver.as_ref().unwrap().try_recv() { Ok(message) => { extend_from_message(&mut self.feedback_content, message); /*@polled*/ } Err(_) => { break; } } }',
           detail='`while let Ok(m) = rx.try_recv() { q.extend(&mut m.into_iter()); }` -> loop/match with the extend stub', flags=re.S, must=True)
    nx.sub('V-SUBST', r'NetworkMessage::new_batch\(self\.content\.drain\(\.\.\)\.collect\(\), self\.coord\)', 'NetworkMessage::new_batch(drain_to_vec(&mut self.content), self.coord)', detail='`q.drain(..).collect()` -> stub drain_to_vec (everything, in order)', flags=re.S, must=True)
    nx.sub('V-SUBST', r'self\.output_sender\.as_ref\(\)\.unwrap\(\)\.send\(', 'self.output_sender.as_mut().unwrap().send(', detail='R-CHAN: the sender handle is borrowed mutably (ghost log)')
    nx.sub('V-SPEC', r'return self\.next_input\(\)\.unwrap\(\);', '''let __r = self.next_input().unwrap();
                proof {
                    assert(seq![__r] + self.input_stash@ =~= old(self).input_stash@ + ga);
                    assert(appended(old(self).input_stash@, seq![__r] + self.input_stash@, ga));   // #obl:next.input_served_fifo
                    if phase == 2 { assert(Self::boundary(old(self), self, __r, gb)); }   // #obl:next.finished_sends_the_last_round_to_the_output
                }
                return __r;''', detail='returned call bound to a local so that a proof block can precede the return (call text verbatim)', must=True)
    nx.sub('V-SPEC', r'return self\.next_stored\(\)\.unwrap\(\);', '''let __r = self.next_stored().unwrap();
                proof { if phase == 1 { assert(Self::boundary(old(self), self, __r, gb)); } }   // #obl:next.continue_feeds_back_the_whole_round
                return __r;''', detail='returned call bound to a local so that a proof block can precede the return (call text verbatim)', must=True)
    nx.add_spec(NEXT_SPEC)
    nx.text = '#[verifier::exec_allows_no_decreases_clause]\n' + nx.text
    nx.insert_at_body_start(NEXT_GHOST)
    nx.add_loop_spec(1, '\n            invariant' + NEXT_INV)
    nx.add_loop_spec(2, '\n                invariant' + NEXT_INV)
    nx.insert_after('/*@polled*/', ' proof { if phase == 0 { gb = gb + msg_data(message); assert(old(self).feedback_content@ + gb =~= self.feedback_content@); } }')
    nx.add_loop_spec(3, '\n                    invariant' + NEXT_INV + '                    !self.input_finished,\n')
    nx.add_loop_spec(4, '\n                invariant' + NEXT_INV + '                self.input_finished, self.content@.len() == 0, phase == 0,\n')
    nx.insert_after_loop(4, ';')
    for nth in (2, 1):
        nx.insert_after('self.input_or_feedback();', '''
                    proof {
                        let (a, b) = choose|a: Seq<StreamElement<Out>>, b: Seq<StreamElement<Out>>| #[trigger] appended(pre.input_stash@, self.input_stash@, a) && #[trigger] appended(pre.feedback_content@, self.feedback_content@, b);
                        assert(old(self).input_stash@ + (ga + a) =~= self.input_stash@);
                        ga = ga + a;
                        if phase == 0 { assert(old(self).feedback_content@ + (gb + b) =~= self.feedback_content@); gb = gb + b; }
                    }''', nth=nth)
        nx.insert_before('self.input_or_feedback();', 'let ghost pre = *self;\n                    ', nth=nth)
    nx.insert_after_stmt('std::mem::swap(&mut self.content, &mut self.feedback_content)', '\n            proof { newc = self.content@; }\n            let ghost pre = *self;')
    nx.insert_before(re.compile(r'let \w+(?:\s*:\s*[^=;]+)? = self\.wait_update\(\)'), 'let ghost pre = *self;\n            ')
    nx.insert_after_stmt(re.compile(r'let \w+(?:\s*:\s*[^=;]+)? = self\.wait_update\(\)'), '''
            proof {
                let a = choose|a: Seq<StreamElement<Out>>| #[trigger] appended(pre.input_stash@, self.input_stash@, a);
                assert(old(self).input_stash@ + (ga + a) =~= self.input_stash@);
                ga = ga + a;
            }''')
    nx.insert_at_loop_end(1, '''
            proof { phase = if self.state.events()[n0]->Sync_0.0 is Finished { 2 } else { 1 }; }
        ''')
    # ---- the two functions that talk to the links (formerly used through assumed contracts)
    iof = x.method(F, 'Iterate', 'input_or_feedback')
    iof.sub('V-SUBST', r'Err\(Disconnected\)', 'Err(RecvError::Disconnected)', detail='`use RecvError::Disconnected` variant import spelled out')
    iof.sub('V-SUBST', r'self\.(feedback_receiver|input_receiver)\.as_ref\(\)', r'self.\1.as_mut()', detail='R-CHAN: the receiver handles are borrowed mutably (ghost log of what they handed out)', must=True)
    def _ext(m):
        q, v = m.group(1), m.group(2)
        if q == 'input_stash':
            return (f"let ghost __gm = {v}; let ghost __m = msg_data({v}); extend_from_message(&mut self.input_stash, {v}); "
                    f"proof {{ assert(appended(is0, self.input_stash@, __m)); assert(self.feedback_content@ == fc0); lemma_flat_one(ti0, __gm); lemma_flat_one(tf0, __gm); assert(handed_out(old(self).input_receiver, self.input_receiver, __m));   // #obl:input_or_feedback.a_batch_goes_to_the_stash_of_the_link_it_came_from\n assert(handed_out(old(self).feedback_receiver, self.feedback_receiver, Seq::empty())); }}")
        return (f"let ghost __gm = {v}; let ghost __m = msg_data({v}); extend_from_message(&mut self.feedback_content, {v}); "
                f"proof {{ assert(appended(fc0, self.feedback_content@, __m)); assert(self.input_stash@ == is0); lemma_flat_one(tf0, __gm); lemma_flat_one(ti0, __gm); assert(handed_out(old(self).feedback_receiver, self.feedback_receiver, __m));   // #obl:input_or_feedback.a_batch_goes_to_the_stash_of_the_link_it_came_from\n assert(handed_out(old(self).input_receiver, self.input_receiver, Seq::empty())); }}")
    iof.sub('V-SUBST', r'self\.(input_stash|feedback_content)\.extend\((\w+)\);', _ext, detail='`q.extend(msg)` -> stub extend_from_message (the batch appended in order)')
    iof.sub('V-SUBST', r'self\.feedback_content\.extend\((\w+)\.recv\(\)\.unwrap\(\)\);', r'let __msg = match \1.recv() { Ok(m) => m, Err(_) => panic_no_return_val() }; let ghost __gm = __msg; let ghost __m = msg_data(__msg); extend_from_message(&mut self.feedback_content, __msg); proof { assert(appended(fc0, self.feedback_content@, __m)); assert(self.input_stash@ == is0); lemma_flat_one(tf0, __gm); assert(handed_out(old(self).feedback_receiver, self.feedback_receiver, __m)); assert(handed_out(old(self).input_receiver, self.input_receiver, Seq::empty())); }', detail='`q.extend(rx.recv().unwrap())` -> `let m = match rx.recv() { Ok(m) => m, Err(_) => panic }; extend_from_message(q, m)` (definition of unwrap; a panic does not return)', must=True)
    iof.sub('V-ASSERT', r'panic!\("feedback_receiver disconnected!"\);', 'panic_no_return();', detail='panic!(..) -> panic_no_return() (ensures false: a panic does not return)', must=True)
    iof.sub('V-SPEC', r'self\.input_receiver = None;\s*self\.input_or_feedback\(\);', '''proof { lemma_flat_one(tf0, arbitrary()); } self.input_receiver = None; let ghost __mid = *self;
                    self.input_or_feedback();
                    proof {
                        let (a2, b2) = choose|a: Seq<StreamElement<Out>>, b: Seq<StreamElement<Out>>| #[trigger] appended(__mid.input_stash@, self.input_stash@, a) && #[trigger] appended(__mid.feedback_content@, self.feedback_content@, b)
                            && handed_out(__mid.input_receiver, self.input_receiver, a) && handed_out(__mid.feedback_receiver, self.feedback_receiver, b);
                        assert(a2.len() == 0); assert(self.input_receiver is None);
                        assert(__mid.feedback_receiver->0.taken() == tf0);
                        assert(handed_out(old(self).feedback_receiver, self.feedback_receiver, b2));
                        assert(handed_out(old(self).input_receiver, self.input_receiver, a2));
                        assert(appended(is0, self.input_stash@, a2)); assert(appended(fc0, self.feedback_content@, b2));
                    }''', detail='ghost snapshot and proof hints around the recursive call (call text verbatim)', must=True)
    iof.add_spec(IOF_SPEC)
    iof.insert_at_body_start('''
        let ghost is0 = self.input_stash@; let ghost fc0 = self.feedback_content@;
        let ghost ti0 = if self.input_receiver is Some { self.input_receiver->0.taken() } else { Seq::empty() };
        let ghost tf0 = self.feedback_receiver->0.taken();
        proof { assert(appended(is0, is0, Seq::empty())) by { assert(is0 + Seq::<StreamElement<Out>>::empty() =~= is0); }
                assert(appended(fc0, fc0, Seq::empty())) by { assert(fc0 + Seq::<StreamElement<Out>>::empty() =~= fc0); } }''')
    wu = x.method(F, 'Iterate', 'wait_update'); wu.name_result('r')
    wu.desugar_assert()
    wu.sub('V-SUBST', r'Err\(Disconnected\)', 'Err(RecvError::Disconnected)', detail='`use RecvError::Disconnected` variant import spelled out')
    wu.sub('V-SUBST', r'self\.(input_stash|feedback_content|content)\.extend\((\w+)\);', r'let ghost __m = msg_data(\2); extend_from_message(&mut self.\1, \2); /*@stashed*/', detail='`q.extend(msg)` -> stub extend_from_message (the batch appended in order)')
    wu.sub('V-ASSERT', r'panic!\("state_receiver disconnected!"\);', 'panic_no_return_val()', detail='panic!(..) -> panic_no_return() (ensures false: a panic does not return)', must=True)
    wu.sub('V-ASSERT', r'(\w+) => unreachable!\((?:[^()]|\((?:[^()]|\([^()]*\))*\))*\),', r'\1 => { panic_no_return(); }', detail='unreachable!() arm -> panic_no_return()', flags=re.S, must=True)
    wu.sub('V-SUBST', r'rust_panic\(\)', 'panic_no_return()', detail='assert!(state_msg.num_items() == 1): a violated assertion panics and does not return (R-PROTO: the leader sends one verdict per message)')
    wu.sub('V-COMB', r'(\w+)\.recv\(\)\.unwrap\(\)', r'match \1.recv_ro() { Ok(m) => m, Err(_) => panic_no_return_val() }', detail='`rx.recv().unwrap()` -> `match rx.recv() { Ok(m) => m, Err(_) => panic }` (definition of unwrap; a panic does not return)', must=True)
    wu.sub('V-SUBST', r'self\.input_receiver\.as_ref\(\)', 'self.input_receiver.as_mut()', detail='R-CHAN: the input receiver handle is borrowed mutably (ghost log)', must=True)
    wu.sub('V-SUBST', r'(\w+)\.select\((\w+)\)', r'\1.select_ro(\2)', detail='select on the (shared) state receiver: model variant that logs only the other receiver')
    wu.add_spec(WAIT_SPEC)
    wu.text = '#[verifier::exec_allows_no_decreases_clause]\n' + wu.text
    wu.insert_at_body_start('\n        let ghost mut ga: Seq<StreamElement<Out>> = Seq::empty();\n        proof { assert(old(self).input_stash@ + ga =~= self.input_stash@); }')
    wu.add_loop_spec(1, '''
            invariant
                self.same_but_stashes(old(self)), self.feedback_content == old(self).feedback_content, self.ready(),
                self.input_stash@ == old(self).input_stash@ + ga,
''')
    wu.insert_before(re.compile(r'let ghost __m = msg_data\(\w+\); extend_from_message'), 'let ghost __s0 = self.input_stash@;\n                        ')
    wu.insert_after('/*@stashed*/', ' proof { assert(old(self).input_stash@ + (ga + __m) =~= __s0 + __m); ga = ga + __m; }')
    wu.sub('V-SPEC', r'return \(should_continue, new_state\);', 'proof { assert(appended(old(self).input_stash@, self.input_stash@, ga)); }\n                    return (should_continue, new_state);', detail='proof block before the return', must=True)
    re_ = x.enum(FC, 'RecvError'); re_.text = '#[derive(Debug)]\n' + re_.text
    pieces += [x.enum(FC, 'SelectResult'), re_] + message_items(x)
    pieces += [BOUNDARY, hdr, iof, wu, ni, nst, ff, nx, "}"]
    return pieces
