"""C16 / C06 / C05 — Reorder::next (src/operator/reorder.rs)."""
import os, sys
sys.path.insert(0, os.path.dirname(os.path.dirname(__file__)))
import std_specs as S
import shared as SH

PROPERTIES = ["C16", "C06", "C05"]
MIN_VERIFIED = 2
F = 'src/operator/reorder.rs'
FO = 'src/operator/mod.rs'
ASSUMPTIONS = [
    "glidesort::sort_with_vec(buffer.make_contiguous(), scratch) sorts the buffer ascending by timestamp and is a permutation (trusted contract of the external sort; V-SUBST to a contracted stub)",
    "prev.next() returns any element (model trait Operator)",
    "std specs assumed: VecDeque::front",
]
PRELUDE = r'''
use std::collections::VecDeque;
type Timestamp = i64;
trait Operator: Sized {
    type Out: Send;
    spec fn hist(&self) -> Seq<StreamElement<Self::Out>>;
    fn next(&mut self) -> (r: StreamElement<Self::Out>)
        ensures final(self).hist() == old(self).hist().push(r);
}
spec fn ts_seq<T>(b: Seq<TimestampedItem<T>>) -> Seq<Timestamp> { b.map(|i: int, e: TimestampedItem<T>| e.timestamp) }
spec fn sorted_ts<T>(b: Seq<TimestampedItem<T>>) -> bool {
    forall|i: int, j: int| 0 <= i <= j < b.len() ==> b[i].timestamp <= b[j].timestamp
}
spec fn count_tsd<T>(s: Seq<StreamElement<T>>) -> nat decreases s.len() {
    if s.len() == 0 { 0 } else { count_tsd(s.drop_last()) + (if s.last() is Timestamped { 1nat } else { 0nat }) }
}
proof fn lemma_count_tsd_push<T>(s: Seq<StreamElement<T>>, e: StreamElement<T>)
    ensures count_tsd(s.push(e)) == count_tsd(s) + (if e is Timestamped { 1nat } else { 0nat })
{ assert(s.push(e).drop_last() =~= s); }
spec fn last_wm<T>(s: Seq<StreamElement<T>>) -> Option<Timestamp> decreases s.len() {
    if s.len() == 0 { None } else { match s.last() { StreamElement::Watermark(w) => Some(w), _ => last_wm(s.drop_last()) } }
}
proof fn lemma_last_wm_push<T>(s: Seq<StreamElement<T>>, e: StreamElement<T>)
    ensures last_wm(s.push(e)) == (match e { StreamElement::Watermark(w) => Some(w), _ => last_wm(s) })
{ assert(s.push(e).drop_last() =~= s); }
spec fn has_wm<T>(s: Seq<StreamElement<T>>) -> bool { exists|i: int| 0 <= i < s.len() && #[trigger] s[i] is Watermark }
spec fn has_fr<T>(s: Seq<StreamElement<T>>) -> bool { exists|i: int| 0 <= i < s.len() && #[trigger] s[i] is FlushAndRestart }
proof fn lemma_has_push<T>(s: Seq<StreamElement<T>>, e: StreamElement<T>)
    ensures has_wm(s.push(e)) == (has_wm(s) || e is Watermark), has_fr(s.push(e)) == (has_fr(s) || e is FlushAndRestart)
{
    let p = s.push(e);
    if has_wm(s) { let i = choose|i: int| 0 <= i < s.len() && #[trigger] s[i] is Watermark; assert(p[i] is Watermark); }
    if e is Watermark { assert(p[s.len() as int] is Watermark); }
    if has_wm(p) { let i = choose|i: int| 0 <= i < p.len() && #[trigger] p[i] is Watermark; if i < s.len() { assert(s[i] is Watermark); } }
    if has_fr(s) { let i = choose|i: int| 0 <= i < s.len() && #[trigger] s[i] is FlushAndRestart; assert(p[i] is FlushAndRestart); }
    if e is FlushAndRestart { assert(p[s.len() as int] is FlushAndRestart); }
    if has_fr(p) { let i = choose|i: int| 0 <= i < p.len() && #[trigger] p[i] is FlushAndRestart; if i < s.len() { assert(s[i] is FlushAndRestart); } }
}
// trusted contract of glidesort::sort_with_vec over the deque's contiguous slice
#[verifier::external_body]
fn sort_buffer_by_timestamp<T>(buffer: &mut VecDeque<TimestampedItem<T>>, scratch: &mut Vec<TimestampedItem<T>>)
    ensures sorted_ts(final(buffer)@), final(buffer)@.to_multiset() == old(buffer)@.to_multiset(),
            final(buffer)@.len() == old(buffer)@.len(),
{ unimplemented!() }
'''
SPEC_IMPL = r'''
impl<Op> Reorder<Op> where Op: Operator, Op::Out: Send {
    // while a watermark is pending or the iteration ended, the buffer is sorted
    spec fn inv(&self) -> bool {
        &&& ((self.last_watermark is Some || self.received_end) ==> sorted_ts(self.buffer@))
        // the pending watermark is the last one pulled, unchanged
        &&& (self.last_watermark is Some ==> self.last_watermark == last_wm(self.prev.hist()))
    }
    spec fn pulled(o: &Self, n: &Self) -> Seq<StreamElement<Op::Out>> {
        n.prev.hist().skip(o.prev.hist().len() as int)
    }
}
'''
NEXT_SPEC = r'''
        requires old(self).inv(),
        ensures
            final(self).inv(),                                                                 // #obl:reorder.inv_preserved
            final(self).prev.hist().len() >= old(self).prev.hist().len(),
            // a timestamped element is released only when a watermark or the end of the iteration covers it,
            // and it is a minimum of everything buffered (so releases are non-decreasing)
            (r matches StreamElement::Timestamped(_, t) ==> {
                &&& (old(self).last_watermark is Some || old(self).received_end || final(self).last_watermark is Some || final(self).received_end)
                &&& (final(self).last_watermark matches Some(w) ==> t <= w)                     // #obl:reorder.released_only_when_covered
                &&& forall|i: int| 0 <= i < final(self).buffer@.len() ==> t <= (#[trigger] final(self).buffer@[i]).timestamp   // #obl:reorder.releases_minimum_first
            }),
            // the watermark follows every buffered element it covers
            (r matches StreamElement::Watermark(w) ==> {
                &&& final(self).last_watermark is None
                &&& Some(w) == last_wm(final(self).prev.hist())                                  // #obl:reorder.forwards_the_pulled_watermark_unchanged
                &&& forall|i: int| 0 <= i < final(self).buffer@.len() ==> (#[trigger] final(self).buffer@[i]).timestamp > w    // #obl:reorder.watermark_after_covered_elements
            }),
            // no loss, no duplication: every pulled timestamped element is buffered until it is released
            final(self).buffer@.len() + (if r is Timestamped { 1nat } else { 0nat })
                == old(self).buffer@.len() + count_tsd(Self::pulled(old(self), final(self))),           // #obl:reorder.no_loss_no_duplicate
            // a pulled watermark / end-of-iteration marker is never swallowed: it is pending (kept) or it is what is returned
            has_wm(Self::pulled(old(self), final(self))) ==> final(self).last_watermark is Some || r is Watermark,                   // #obl:reorder.pulled_watermark_is_kept_or_emitted
            has_fr(Self::pulled(old(self), final(self))) ==> final(self).received_end || r is FlushAndRestart,                        // #obl:reorder.pulled_end_marker_is_kept_or_emitted
            // Item / FlushBatch / Terminate pass through unchanged
            (r is Item || r is FlushBatch || r is Terminate) ==> final(self).prev.hist().len() > 0 && r == final(self).prev.hist().last(),   // #obl:reorder.passthrough
            // end of iteration: everything buffered has been released, nothing is carried over
            (r is FlushAndRestart ==> final(self).buffer@.len() == 0 && !final(self).received_end && final(self).last_watermark is None),   // #obl:reorder.flush_and_restart_only_when_empty
'''
def build(x):
    pieces = [S.VECDEQUE_FRONT, S.OPTION_IS_SOME_AND, S.sat_add('i64'), PRELUDE, x.enum(FO, 'StreamElement'), x.struct(F, 'TimestampedItem')]
    st = x.struct(F, 'Reorder'); st.text = '#[verifier::reject_recursive_types(Op)]\n' + st.text
    pieces += [st, SPEC_IMPL]
    nx = x.method(F, 'Reorder', 'next', trait='Operator')
    nx.sub('V-SUBST', r'glidesort::sort_with_vec\(self\.buffer\.make_contiguous\(\), &mut self\.scratch\);', 'sort_buffer_by_timestamp(&mut self.buffer, &mut self.scratch);',
           detail='external sort call replaced by its trusted contract stub (sorted by timestamp, permutation)', must=True)
    nx.name_result('r')
    nx.add_spec(NEXT_SPEC)
    nx.text = '#[verifier::exec_allows_no_decreases_clause]\n' + nx.text
    nx.insert_before('while !self.received_end', 'proof { assert(Self::pulled(old(self), self) =~= Seq::<StreamElement<Op::Out>>::empty()); }\n        ')
    nx.insert_before('match self.prev.next() {', 'let ghost h0 = self.prev.hist();\n            ')
    nx.sub('V-SPEC', r'match self\.prev\.next\(\) \{', 'let __e = self.prev.next();\n            proof { let k = old(self).prev.hist().len() as int; assert(self.prev.hist().skip(k) =~= h0.skip(k).push(__e)); lemma_count_tsd_push(h0.skip(k), __e); lemma_last_wm_push(h0, __e); lemma_has_push(h0.skip(k), __e); }\n            match __e {', detail='scrutinee bound to a ghost-visible name `__e` (let-binding of the same expression) so that proof hints can mention the pulled element')
    nx.add_loop_spec(1, r'''
            invariant
                self.inv(), self.prev.hist().len() >= old(self).prev.hist().len(),
                self.prev.hist().take(old(self).prev.hist().len() as int) =~= old(self).prev.hist(),
                self.buffer@.len() == old(self).buffer@.len() + count_tsd(Self::pulled(old(self), self)),
                has_wm(Self::pulled(old(self), self)) ==> self.last_watermark is Some,
                has_fr(Self::pulled(old(self), self)) ==> self.received_end,
''')
    pieces += ["impl<Op> Reorder<Op>\nwhere\n    Op: Operator,\n    Op::Out: Send,\n{", nx, "}"]
    return pieces
