"""C03 / C09 / C18 — End::next (src/operator/end.rs) extracted and verified against the routing contract.

Callees are contracts only (modular): Batcher::{enqueue,flush,end} (proved on the real code in unit
`batcher`), NextStrategy::index (proved in unit `next_strategy`), prev.next() (any operator).
The precondition `inv` is the postcondition of End::setup_senders (unit `setup_senders`)."""
import os, re, sys
sys.path.insert(0, os.path.dirname(os.path.dirname(__file__)))
import std_specs as S
import shared as SH

PROPERTIES = ["C03", "C09", "C18"]
MIN_VERIFIED = 6
FE = 'src/operator/end.rs'
FO = 'src/operator/mod.rs'
FN = 'src/network/mod.rs'

ASSUMPTIONS = [
    "callee contracts used, not bodies: Batcher::enqueue/flush/end (unit batcher), NextStrategy::index (unit next_strategy), prev.next() returns any element",
    "End.inv (groups non-empty, in range, a partition of the sender indexes) is the postcondition of End::setup_senders, discharged on its real body by unit setup_senders (same spec text: that unit reads the grouping vocabulary from this file)",
    "Clone of a stream element yields an equal value (axiom_data_clone)",
    "V-ITER: three loop headers desugared (listed verbatim under coverage.rewrites); loop bodies are the real text",
]

PRELUDE = r'''
type BlockId = u64; type HostId = u64; type ReplicaId = u64; type Timestamp = i64;

// ---- model of crate::operator::Operator: `next` may return anything; the ghost history records it
trait Operator: Sized {
    type Out: Send;
    spec fn hist(&self) -> Seq<StreamElement<Self::Out>>;
    fn next(&mut self) -> (r: StreamElement<Self::Out>)
        ensures final(self).hist() == old(self).hist().push(r);
}
trait KeyerFn<K, In> {}
trait ExchangeData: Clone + Send + 'static {}
#[derive(Clone, Copy)]
enum BatchMode { Single }

broadcast use trusted_axioms::axiom_data_clone;

spec fn se_take<T>(e: StreamElement<T>) -> StreamElement<()> {
    match e {
        StreamElement::Item(_) => StreamElement::Item(()),
        StreamElement::Timestamped(_, _) => StreamElement::Item(()),
        StreamElement::Watermark(w) => StreamElement::Watermark(w),
        StreamElement::Terminate => StreamElement::Terminate,
        StreamElement::FlushAndRestart => StreamElement::FlushAndRestart,
        StreamElement::FlushBatch => StreamElement::FlushBatch,
    }
}
spec fn se_data<T>(e: StreamElement<T>) -> Option<T> {
    match e { StreamElement::Item(x) => Some(x), StreamElement::Timestamped(x, _) => Some(x), _ => None }
}
'''

SPEC_IMPL = r'''
impl<OperatorChain, IndexFn> End<OperatorChain, IndexFn>
where
    IndexFn: KeyerFn<u64, OperatorChain::Out>,
    OperatorChain: Operator,
    OperatorChain::Out: Send + 'static,
{
    spec fn n_groups(&self) -> int { self.block_senders@.len() as int }
    spec fn group(&self, g: int) -> Seq<usize> { self.block_senders@[g].indexes@ }
    // postcondition of setup_senders = precondition of next
    spec fn inv(&self) -> bool {
        &&& forall|g: int| 0 <= g < self.n_groups() ==> (#[trigger] self.group(g)).len() > 0
        &&& forall|g: int, k: int| 0 <= g < self.n_groups() && 0 <= k < self.group(g).len() ==>
                (#[trigger] self.group(g)[k]) < self.senders@.len()
        &&& forall|g1: int, k1: int, g2: int, k2: int|
                0 <= g1 < self.n_groups() && 0 <= k1 < self.group(g1).len()
                && 0 <= g2 < self.n_groups() && 0 <= k2 < self.group(g2).len()
                && #[trigger] self.group(g1)[k1] == #[trigger] self.group(g2)[k2] ==> g1 == g2 && k1 == k2
        &&& forall|i: int| 0 <= i < self.senders@.len() ==> #[trigger] self.grouped(i)
    }
    // sender i belongs to some group
    spec fn grouped(&self, i: int) -> bool {
        exists|g: int, k: int| 0 <= g < self.n_groups() && 0 <= k < self.group(g).len() && #[trigger] self.group(g)[k] == i
    }
    // the sender of group g chosen by routing index idx
    spec fn target(&self, g: int, idx: usize) -> int {
        self.group(g)[(idx as int) % (self.group(g).len() as int)] as int
    }
    spec fn is_target(&self, i: int, idx: usize) -> bool {
        exists|g: int| 0 <= g < self.n_groups() && #[trigger] self.target(g, idx) == i
    }
    // sender i is listed at a (group, position) strictly before (g, k) in iteration order
    spec fn in_prefix(&self, i: int, g: int, k: int) -> bool {
        exists|g1: int, k1: int| 0 <= g1 < self.n_groups() && 0 <= k1 < self.group(g1).len()
            && (g1 < g || (g1 == g && k1 < k)) && #[trigger] self.group(g1)[k1] == i
    }
    spec fn is_target_upto(&self, i: int, idx: usize, g: int) -> bool {
        exists|g1: int| 0 <= g1 < g && g1 < self.n_groups() && #[trigger] self.target(g1, idx) == i
    }
    spec fn route_ok(old_: &Self, new_: &Self, m: StreamElement<OperatorChain::Out>, idx: usize) -> bool {
        &&& (se_data(m) is Some ==> old_.next_strategy.may_index(se_data(m)->0, idx))
        &&& forall|i: int| 0 <= i < old_.senders@.len() ==>
                (#[trigger] new_.senders@[i]).1.all() == Self::routed(old_, i, m, idx)
    }
    // inv only depends on the grouping and the number of senders
    proof fn lemma_inv_transfer(a: &Self, b: &Self)
        requires a.inv(), a.block_senders == b.block_senders, a.senders@.len() == b.senders@.len(),
        ensures b.inv(),
    {
        assert forall|g: int| 0 <= g < b.n_groups() implies (#[trigger] b.group(g)).len() > 0 by { assert(a.group(g).len() > 0); }
        assert forall|g: int, k: int| 0 <= g < b.n_groups() && 0 <= k < b.group(g).len() implies
                (#[trigger] b.group(g)[k]) < b.senders@.len() by { assert(a.group(g)[k] < a.senders@.len()); }
        assert forall|g1: int, k1: int, g2: int, k2: int|
                0 <= g1 < b.n_groups() && 0 <= k1 < b.group(g1).len()
                && 0 <= g2 < b.n_groups() && 0 <= k2 < b.group(g2).len()
                && #[trigger] b.group(g1)[k1] == #[trigger] b.group(g2)[k2] implies g1 == g2 && k1 == k2 by {
            assert(a.group(g1)[k1] == a.group(g2)[k2]);
        }
        assert forall|i: int| 0 <= i < b.senders@.len() implies #[trigger] b.grouped(i) by {
            assert(a.grouped(i));
            let (g, k) = choose|g: int, k: int| 0 <= g < a.n_groups() && 0 <= k < a.group(g).len() && #[trigger] a.group(g)[k] == i;
            assert(b.group(g)[k] == i);
        }
    }
    spec fn is_feedback(&self, i: int) -> bool {
        Some(self.senders@[i].0.coord.block_id) == self.feedback_id
    }
    spec fn same_wiring(&self, o: &Self) -> bool {
        &&& self.block_senders == o.block_senders
        &&& self.feedback_id == o.feedback_id
        &&& self.next_strategy == o.next_strategy
        &&& self.senders@.len() == o.senders@.len()
        &&& forall|i: int| 0 <= i < self.senders@.len() ==> (#[trigger] self.senders@[i]).0 == o.senders@[i].0
    }
    // what sender i has been handed after routing element m with index idx (before flushing)
    spec fn routed(old_: &Self, i: int, m: StreamElement<OperatorChain::Out>, idx: usize) -> Seq<StreamElement<OperatorChain::Out>> {
        let a = old_.senders@[i].1.all();
        match m {
            StreamElement::Item(_) | StreamElement::Timestamped(_, _) =>
                if old_.is_target(i, idx) { a.push(m) } else { a },
            StreamElement::Watermark(_) | StreamElement::FlushAndRestart => a.push(m),
            StreamElement::Terminate => if old_.is_feedback(i) { a } else { a.push(m) },
            StreamElement::FlushBatch => a,
        }
    }
}
'''

GHOST_PRE = r'''
        let ghost prev1 = self.prev;
        let ghost mut g_idx: usize = 0;
'''
INV_BCAST_OUTER = r'''
                    invariant
                        self.same_wiring(old(self)), self.prev == prev1, old(self).inv(),
                        true,
                        message is Watermark || message is Terminate || message is FlushAndRestart,
                        forall|i: int| 0 <= i < old(self).senders@.len() ==> (#[trigger] self.senders@[i]).1.all() ==
                            (if old(self).in_prefix(i, __g as int, 0) && !(message is Terminate && old(self).is_feedback(i))
                             { old(self).senders@[i].1.all().push(message) } else { old(self).senders@[i].1.all() }),
'''
INV_BCAST_INNER = r'''
                    invariant
                        __k <= block.indexes@.len(),
                        self.same_wiring(old(self)), self.prev == prev1, old(self).inv(),
                        0 <= __g < old(self).n_groups(), *block == old(self).block_senders@[__g as int],
                        message is Watermark || message is Terminate || message is FlushAndRestart,
                        forall|i: int| 0 <= i < old(self).senders@.len() ==> (#[trigger] self.senders@[i]).1.all() ==
                            (if old(self).in_prefix(i, __g as int, __k as int) && !(message is Terminate && old(self).is_feedback(i))
                             { old(self).senders@[i].1.all().push(message) } else { old(self).senders@[i].1.all() }),
                    decreases block.indexes@.len() - __k,
'''
HINT_BCAST_STEP = r'''proof {
                            assert(old(self).group(__g as int)[__k as int - 1] == sender_idx);
                            assert(!old(self).in_prefix(sender_idx as int, __g as int, __k as int - 1));
                        }
                        '''
INV_DATA = r'''
                    invariant
                        self.same_wiring(old(self)), self.prev == prev1, old(self).inv(),
                        true,
                        message is Item || message is Timestamped, g_idx == §index§,
                        forall|i: int| 0 <= i < old(self).senders@.len() ==> (#[trigger] self.senders@[i]).1.all() ==
                            (if old(self).is_target_upto(i, g_idx, __g as int) { old(self).senders@[i].1.all().push(message) } else { old(self).senders@[i].1.all() }),
'''
HINT_DATA_PRE = r'''proof {
                        assert(*block == old(self).block_senders@[__g as int]);
                        assert(old(self).group(__g as int).len() > 0);
                    }
                    '''
HINT_DATA_STEP = r'''proof {
                        assert(old(self).target(__g as int, g_idx) == sender_idx);   // #obl:end.data_element_to_the_indexed_sender_of_each_group
                        assert(sender_idx < old(self).senders@.len());
                        assert(!old(self).is_target_upto(sender_idx as int, g_idx, __g as int));
                    }
                    '''
GHOST_MID = r'''let ghost mid = *self;
        proof {
            if !(message is Terminate) {
                assert forall|i: int| 0 <= i < old(self).senders@.len() implies
                        (#[trigger] mid.senders@[i]).1.all() == Self::routed(old(self), i, message, g_idx) by {
                    if message is Watermark || message is FlushAndRestart {
                        assert(old(self).grouped(i));
                        let (g, k) = choose|g: int, k: int| 0 <= g < old(self).n_groups() && 0 <= k < old(self).group(g).len() && #[trigger] old(self).group(g)[k] == i;
                        assert(old(self).in_prefix(i, old(self).n_groups(), 0));
                    } else if message is Item || message is Timestamped {
                        assert(old(self).is_target_upto(i, g_idx, old(self).n_groups()) == old(self).is_target(i, g_idx));
                    }
                }
                assert(Self::route_ok(old(self), &mid, message, g_idx));
            }
        }
        '''
INV_FLUSH = r'''
                    invariant
                        self.same_wiring(&mid), self.prev == prev1,
                        forall|i: int| 0 <= i < mid.senders@.len() ==> (#[trigger] self.senders@[i]).1.all() == mid.senders@[i].1.all(),
                        forall|i: int| 0 <= i < __k ==> (#[trigger] self.senders@[i]).1.pending() == 0,
                        __k <= self.senders@.len(),
                    decreases self.senders@.len() - __k,
'''
INV_END = r'''
                    invariant self.prev == prev1,
                    decreases self.senders@.len(),
'''
FINAL_HINT = r'''        proof {
            if !(message is Terminate) {
                Self::lemma_inv_transfer(old(self), self);
                assert(Self::route_ok(old(self), self, message, g_idx));
            }
        }
'''
NEXT_SPEC = r'''
        requires
            old(self).inv(),
            old(self).next_strategy.total(),
        ensures
            final(self).prev.hist() == old(self).prev.hist().push(final(self).prev.hist().last()),
            final(self).prev.hist().len() > 0,
            r == se_take(final(self).prev.hist().last()),                                                       // #obl:end.returns_take_of_input
            !(final(self).prev.hist().last() is Terminate) ==> final(self).same_wiring(old(self)) && final(self).inv(),   // #obl:end.wiring_frame
            // routing: there is ONE index idx allowed by the strategy such that every sender holds exactly `routed`
            !(final(self).prev.hist().last() is Terminate) ==>
                exists|idx: usize| #[trigger] Self::route_ok(old(self), final(self), final(self).prev.hist().last(), idx),                                                                                                // #obl:end.routes_exactly_one_per_group_and_broadcasts_control
            // flushing (C18): nothing stays buffered after FlushBatch / FlushAndRestart
            (final(self).prev.hist().last() is FlushBatch || final(self).prev.hist().last() is FlushAndRestart) ==>
                forall|i: int| 0 <= i < final(self).senders@.len() ==> (#[trigger] final(self).senders@[i]).1.pending() == 0,   // #obl:end.flushes_every_batcher
            // termination: every batcher is consumed by end()
            final(self).prev.hist().last() is Terminate ==> final(self).senders@.len() == 0,                    // #obl:end.terminate_closes_all
'''


def build(x):
    pieces = [S.CLONE_IS_EQ, PRELUDE, SH.BATCHER_STUB, SH.NEXT_STRATEGY_STUB]
    se = x.enum(FO, 'StreamElement')
    se.text = '#[derive(Clone)]\n' + se.text
    se.note('V-ATTR', 1, 'derive list reduced to Clone')
    pieces.append(se)
    tk = x.method(FO, 'StreamElement', 'take')
    tk.name_result('r')
    tk.add_spec("        ensures r == se_take(*self), // #obl:se.take")
    pieces += ["impl<Out> StreamElement<Out> {", tk, "}"]
    c = x.struct(FN, 'Coord')
    c.text = '#[derive(Clone, Copy)]\n' + c.text
    r = x.struct(FN, 'ReceiverEndpoint')
    r.text = '#[derive(Clone, Copy)]\n' + r.text
    pieces += [c, r, x.struct(FE, 'BlockSenders')]
    e = x.struct(FE, 'End')
    e.text = '#[verifier::reject_recursive_types(IndexFn)]\n#[verifier::reject_recursive_types(OperatorChain)]\n' + e.text
    pieces += [e, SPEC_IMPL]

    nx = x.method(FE, 'End', 'next', trait='Operator')
    nx.replace_exact('V-ITER', 'for &sender_idx in block.indexes.iter() {',
                     'let mut __k: usize = 0; while __k < block.indexes.len() { let sender_idx = block.indexes[__k]; __k += 1;',
                     detail='`for &x in v.iter() {` -> `let mut __k = 0; while __k < v.len() { let x = v[__k]; __k += 1;` (Verus: no ref patterns, no `continue` in for-loops)')
    nx.sub('V-ITER', r'for \(_, batcher\) in self\.senders\.iter_mut\(\) \{', 'let mut __k: usize = 0; while __k < self.senders.len() { let batcher = &mut self.senders[__k].1; __k += 1;',
           detail='`for (_, b) in v.iter_mut() {` -> `let mut __k = 0; while __k < v.len() { let b = &mut v[__k].1; __k += 1;`', must=True)
    nx.sub('V-ITER', r'for \(_, batcher\) in self\.senders\.drain\(\.\.\) \{', 'while self.senders.len() > 0 { let (_, batcher) = self.senders.remove(0); let ghost __b = batcher; /*@drained_batcher*/',
           detail='`for (_, b) in v.drain(..) {` -> `while v.len() > 0 { let (_, b) = v.remove(0);` (front-to-back, v empty afterwards)', must=True)
    nx.sub('V-ITER', r'for block in self\.block_senders\.iter\(\) \{', 'for __g in 0..self.block_senders.len() { let block = &self.block_senders[__g];',
           detail='`for x in v.iter() {` -> `for __g in 0..v.len() { let x = &v[__g];`', must=True)
    nx.name_result('r')
    nx.add_spec(NEXT_SPEC)
    nx.insert_after('let message = self.prev.next();', GHOST_PRE)
    nx.add_loop_spec(1, INV_BCAST_OUTER)
    nx.add_loop_spec(2, INV_BCAST_INNER)
    nx.insert_before('let sender = &mut self.senders[sender_idx];', HINT_BCAST_STEP)
    nx.add_loop_spec(3, INV_DATA)
    nx.bind('index', r'let (?:mut )?(\w+)(?:\s*:\s*usize)? = self\.next_strategy\.index\(')
    nx.insert_after(re.compile(r'let (?:mut )?\w+(?:\s*:\s*usize)? = self\.next_strategy\.index\(\w+\);'), '\n                proof { g_idx = §index§; }')
    nx.insert_after('let block = &self.block_senders[__g];', '\n                    ' + HINT_DATA_PRE, nth=2)
    nx.insert_before('self.senders[sender_idx].1.enqueue(message.clone());', HINT_DATA_STEP)
    nx.insert_before('// Flushing messages', GHOST_MID)
    nx.add_loop_spec(4, INV_FLUSH)
    nx.add_loop_spec(5, INV_END)
    nx.insert_at_loop_end(5, '\n                    assert(Batcher::ended(__b));   // #obl:end.terminate_ends_every_batcher\n                ')
    nx.insert_before('        to_return\n', FINAL_HINT)
    return pieces + ["impl<OperatorChain, IndexFn> End<OperatorChain, IndexFn>\nwhere\n    IndexFn: KeyerFn<u64, OperatorChain::Out>,\n    OperatorChain: Operator,\n    OperatorChain::Out: ExchangeData,\n{", nx, "}"]
