"""C19 (placement arithmetic + demux coordinates) — Replication::{clamp, intersect}, DemuxCoord::{new, includes_channel},
From<Coord> for BlockCoord, From<ReceiverEndpoint> for DemuxCoord."""
import os, sys
sys.path.insert(0, os.path.dirname(os.path.dirname(__file__)))
import std_specs as S

PROPERTIES = ["C19"]
MIN_VERIFIED = 5
FB = 'src/block/mod.rs'
FN = 'src/network/mod.rs'
ASSUMPTIONS = [
    "derive(PartialEq) on BlockCoord compares field by field (BlockCoord == BlockCoord is replaced by the field-wise comparison it derives: V-SUBST)",
    "V-TRAIT: `impl From<..>` methods extracted as inherent associated functions `from` (calls `x.into()` / `BlockCoord::from(x)` rewritten accordingly)",
]
PRELUDE = r'''
type CoordUInt = u64; type BlockId = u64; type HostId = u64; type ReplicaId = u64;
spec fn umin(a: u64, b: u64) -> u64 { if a <= b { a } else { b } }
// number of replicas a block gets when `n` slots are available
spec fn clamp_spec(r: Replication, n: u64) -> u64 {
    match r { Replication::Unlimited => n, Replication::Limited(q) => umin(n, q), Replication::Host => 1, Replication::One => 1 }
}
// the intersection of two requirements is the more restrictive one
spec fn rank(r: Replication) -> int { match r { Replication::One => 0, Replication::Host => 1, Replication::Limited(_) => 2, Replication::Unlimited => 3 } }
'''
def build(x):
    rep = x.enum(FB, 'Replication'); rep.text = '#[derive(Clone, Copy)]\n' + rep.text
    it = x.method(FB, 'Replication', 'intersect'); it.name_result('r')
    it.add_spec('''        ensures
            rank(r) == (if rank(*self) <= rank(rhs) { rank(*self) } else { rank(rhs) }),                    // #obl:intersect.most_restrictive_kind
            (*self matches Replication::Limited(n) ==> (rhs matches Replication::Limited(m) ==> r == Replication::Limited(umin(n, m)))),   // #obl:intersect.limited_takes_min
            (*self matches Replication::Limited(n) ==> (rhs is Unlimited ==> r == Replication::Limited(n))),
            (rhs matches Replication::Limited(m) ==> (*self is Unlimited ==> r == Replication::Limited(m))),
''')
    cl = x.method(FB, 'Replication', 'clamp'); cl.name_result('r')
    cl.add_spec("        ensures r == clamp_spec(*self, n), // #obl:clamp.min_of_limit_and_available")
    c = x.struct(FN, 'Coord'); c.text = '#[derive(Clone, Copy)]\n' + c.text
    bc = x.struct(FN, 'BlockCoord'); bc.text = '#[derive(Clone, Copy)]\n' + bc.text
    re_ = x.struct(FN, 'ReceiverEndpoint'); re_.text = '#[derive(Clone, Copy)]\n' + re_.text
    dc = x.struct(FN, 'DemuxCoord'); dc.text = '#[derive(Clone, Copy)]\n' + dc.text
    f1 = x.method(FN, '=BlockCoord', 'from', trait='From'); f1.name_result('r')
    f1.add_spec("        ensures r.block_id == coord.block_id && r.host_id == coord.host_id, // #obl:block_coord.from_coord")
    f2 = x.method(FN, '=DemuxCoord', 'from', trait='From'); f2.name_result('r')
    f2.replace_exact('V-TRAIT', 'endpoint.coord.into()', 'BlockCoord::from(endpoint.coord)', detail='`.into()` resolved to the From impl extracted above')
    f2.add_spec("        ensures r.coord.block_id == endpoint.coord.block_id && r.coord.host_id == endpoint.coord.host_id && r.prev_block_id == endpoint.prev_block_id, // #obl:demux_coord.from_endpoint")
    dn = x.method(FN, 'DemuxCoord', 'new'); dn.name_result('r')
    dn.replace_exact('V-TRAIT', 'to.into()', 'BlockCoord::from(to)', detail='`.into()` resolved to the From impl extracted above')
    dn.add_spec("        ensures r.coord.block_id == to.block_id && r.coord.host_id == to.host_id && r.prev_block_id == from.block_id, // #obl:demux_coord.identifies_link_by_destination_block_host_and_source_block")
    ic = x.method(FN, 'DemuxCoord', 'includes_channel'); ic.name_result('r')
    ic.replace_exact('V-SUBST', 'self.coord == BlockCoord::from(to)', '({ let __b = BlockCoord::from(to); self.coord.block_id == __b.block_id && self.coord.host_id == __b.host_id })',
                     detail='derived PartialEq on BlockCoord spelled out field by field')
    ic.add_spec("        ensures r == (self.coord.block_id == to.block_id && self.coord.host_id == to.host_id && self.prev_block_id == from.block_id), // #obl:demux_coord.includes_exactly_its_links")
    return [PRELUDE, rep, "impl Replication {", it, cl, "}", c, bc, re_, dc,
            "impl BlockCoord {", f1, "}", "impl DemuxCoord {", f2, dn, ic, "}"]
