"""C03 / C09 — End::setup_senders (src/operator/end.rs): the grouping of a block's senders per downstream block, i.e. the
postcondition that End::next assumes as `End.inv` (unit end_next): every group is non-empty, holds valid sender indexes, the
groups partition the sender indexes; with the strategy `All` every group is a singleton (broadcast: every replica gets a copy),
otherwise a group holds exactly the senders of one downstream block, in increasing index order (= increasing order of the
sorted receiver endpoints, so index k of a group is the same replica for every producer)."""
import os, re, sys
sys.path.insert(0, os.path.dirname(os.path.dirname(__file__)))
import std_specs as S
from engine.rsx import ScanError

PROPERTIES = ["C03", "C09"]
MIN_VERIFIED = 2
F = 'src/operator/end.rs'
FN = 'src/network/mod.rs'
ASSUMPTIONS = [
    "V-ITER: the two iterator chains that build block_senders are desugared by declared templates: `(0..N).map(|i| vec![i]).map(BlockSenders::new).collect()` -> push loop; `V.iter().enumerate().fold(HashMap::new(), |mut map, (i, (c, _))| { B; map }).into_values().map(BlockSenders::new).collect()` -> index loop running B (verbatim) on a map-view model of HashMap, then one BlockSenders::new per value, values in an ARBITRARY order",
    "std HashMap<BlockId, Vec<usize>> by its map view (KMap): `.entry(k).or_default()` -> entry_or_default(k), into_values() -> into_values_vec() (every value once, arbitrary order)",
    "glidesort::sort_by_key(&mut senders, |s| s.0) -> contracted stub: the senders are permuted (same length), sorted by receiver endpoint; that all producers see the SAME set of endpoints for a downstream block is the scheduler's business (units placement / wiring)",
    "the OnlyOne check `assert_eq!(s.indexes.len(), 1)` panics when the scheduler wired more than one consumer per block: a panic does not return (fail-stop), it is not an obligation here",
    "NextStrategy is matched only on its variant; Batcher is opaque here",
]
PRELUDE = r'''
type BlockId = u64; type HostId = u64; type ReplicaId = u64; type Timestamp = i64;
trait ExchangeData: Clone + Send + 'static {}
trait KeyerFn<Key, Out>: Sized {}
trait Operator: Sized { type Out; }
#[verifier::external_body]
#[verifier::reject_recursive_types(Out)]
struct Batcher<Out> { _p: core::marker::PhantomData<Out> }
#[derive(Clone, Copy)]
struct BatchMode {}
#[verifier::external_body]
fn panic_no_return() ensures false { unimplemented!() }
// glidesort::sort_by_key(&mut v, |s| s.0): a permutation of v (endpoint order is not needed for the grouping invariant)
#[verifier::external_body]
fn sort_senders_by_endpoint<Out>(v: &mut Vec<(ReceiverEndpoint, Batcher<Out>)>)
    ensures final(v)@.len() == old(v)@.len(), final(v)@.to_multiset() == old(v)@.to_multiset()
{ unimplemented!() }
// ---- std HashMap<BlockId, Vec<usize>> by its map view
#[verifier::external_body]
struct KMap { _p: core::marker::PhantomData<u64> }
impl KMap {
    uninterp spec fn view(&self) -> Map<BlockId, Seq<usize>>;
    #[verifier::external_body]
    fn new() -> (r: KMap) ensures r@ =~= Map::<BlockId, Seq<usize>>::empty() { unimplemented!() }
    #[verifier::external_body]
    fn entry_or_default(&mut self, k: BlockId) -> (r: &mut Vec<usize>)
        ensures r@ == (if old(self)@.contains_key(k) { old(self)@[k] } else { Seq::<usize>::empty() }),
                final(self)@ == old(self)@.insert(k, final(r)@),
    { unimplemented!() }
    // HashMap::into_values(): every value once, in an arbitrary order
    #[verifier::external_body]
    fn into_values_vec(self) -> (r: Vec<Vec<usize>>)
        ensures exists|keys: Seq<BlockId>| #[trigger] keys.len() == r@.len()
            && (forall|i: int, j: int| 0 <= i < j < keys.len() ==> keys[i] != keys[j])
            && (forall|i: int| 0 <= i < keys.len() ==> self@.contains_key(#[trigger] keys[i]) && r@[i]@ == self@[keys[i]])
            && (forall|k: BlockId| self@.contains_key(k) ==> exists|i: int| 0 <= i < keys.len() && #[trigger] keys[i] == k),
    { unimplemented!() }
}
'''
INV_FROM_END_NEXT = None


def end_inv_text():
    """the grouping vocabulary (n_groups, group, inv, grouped) is taken verbatim from unit end_next, where it is the PRECONDITION of End::next"""
    t = open(os.path.join(os.path.dirname(os.path.dirname(__file__)), 'end_next', 'unit.py')).read()
    a = t.index('    spec fn n_groups(&self)')
    b = t.index('    // the sender of group g chosen by routing index idx')
    return t[a:b]


SPEC_TAIL = r'''
    // the senders of downstream block b, i.e. the indexes i with senders[i].0.coord.block_id == b, below n
    spec fn block_of(&self, i: int) -> BlockId { self.senders@[i].0.coord.block_id }
    // the map built by the fold after looking at the first n senders: block -> its indexes below n, ascending
    spec fn map_ok(&self, m: Map<BlockId, Seq<usize>>, n: int) -> bool {
        &&& forall|b: BlockId| m.contains_key(b) ==> (#[trigger] m[b]).len() > 0
        &&& forall|b: BlockId, k: int| m.contains_key(b) && 0 <= k < m[b].len() ==> (#[trigger] m[b][k]) < n && self.block_of(m[b][k] as int) == b
        &&& forall|b: BlockId, k1: int, k2: int| m.contains_key(b) && 0 <= k1 < k2 < m[b].len() ==> #[trigger] m[b][k1] < #[trigger] m[b][k2]
        &&& forall|i: int| 0 <= i < n ==> m.contains_key(#[trigger] self.block_of(i)) && exists|k: int| 0 <= k < m[self.block_of(i)].len() && #[trigger] m[self.block_of(i)][k] == i
    }
'''
SPEC_TAIL += r'''
    // the same statements over a candidate grouping gs (so that they can be established before gs is stored in self)
    spec fn inv_gs(&self, gs: Seq<BlockSenders>) -> bool {
        &&& forall|g: int| 0 <= g < gs.len() ==> (#[trigger] gs[g].indexes@).len() > 0
        &&& forall|g: int, k: int| 0 <= g < gs.len() && 0 <= k < gs[g].indexes@.len() ==> (#[trigger] gs[g].indexes@[k]) < self.senders@.len()
        &&& forall|g1: int, k1: int, g2: int, k2: int|
                0 <= g1 < gs.len() && 0 <= k1 < gs[g1].indexes@.len() && 0 <= g2 < gs.len() && 0 <= k2 < gs[g2].indexes@.len()
                && #[trigger] gs[g1].indexes@[k1] == #[trigger] gs[g2].indexes@[k2] ==> g1 == g2 && k1 == k2
        &&& forall|i: int| 0 <= i < self.senders@.len() ==> #[trigger] Self::grouped_gs(gs, i)
    }
    spec fn grouped_gs(gs: Seq<BlockSenders>, i: int) -> bool {
        exists|g: int, k: int| 0 <= g < gs.len() && 0 <= k < gs[g].indexes@.len() && #[trigger] gs[g].indexes@[k] == i
    }
    spec fn blocks_gs(&self, gs: Seq<BlockSenders>) -> bool {
        &&& forall|g: int, k: int| 0 <= g < gs.len() && 0 <= k < gs[g].indexes@.len() ==>
                self.block_of(#[trigger] gs[g].indexes@[k] as int) == self.block_of(gs[g].indexes@[0] as int)
        &&& forall|g: int, k1: int, k2: int| 0 <= g < gs.len() && 0 <= k1 < k2 < gs[g].indexes@.len() ==> #[trigger] gs[g].indexes@[k1] < #[trigger] gs[g].indexes@[k2]
        &&& forall|g1: int, g2: int| 0 <= g1 < g2 < gs.len() ==> self.block_of(#[trigger] gs[g1].indexes@[0] as int) != self.block_of(#[trigger] gs[g2].indexes@[0] as int)
    }
    spec fn singletons_gs(&self, gs: Seq<BlockSenders>) -> bool {
        gs.len() == self.senders@.len() && forall|g: int| 0 <= g < gs.len() ==> (#[trigger] gs[g]).indexes@ == seq![g as usize]
    }
'''
SETUP_SPEC = r'''
        ensures
            final(self).inv(),                                                                                   // #obl:setup_senders.groups_partition_the_senders
            final(self).senders@.len() == old(self).senders@.len(),
            // broadcast: singleton groups, one per sender
            old(self).next_strategy is All ==> final(self).n_groups() == final(self).senders@.len()
                && forall|g: int| 0 <= g < final(self).n_groups() ==> #[trigger] final(self).group(g) == seq![g as usize],   // #obl:setup_senders.all_means_one_group_per_replica
            // otherwise: a group holds senders of ONE downstream block, in increasing index order, and two groups never share a block
            !(old(self).next_strategy is All) ==> {
                &&& forall|g: int, k: int| 0 <= g < final(self).n_groups() && 0 <= k < final(self).group(g).len() ==>
                        final(self).block_of(#[trigger] final(self).group(g)[k] as int) == final(self).block_of(final(self).group(g)[0] as int)   // #obl:setup_senders.a_group_is_one_downstream_block
                &&& forall|g: int, k1: int, k2: int| 0 <= g < final(self).n_groups() && 0 <= k1 < k2 < final(self).group(g).len() ==>
                        #[trigger] final(self).group(g)[k1] < #[trigger] final(self).group(g)[k2]                 // #obl:setup_senders.group_in_sorted_endpoint_order
                &&& forall|g1: int, g2: int| 0 <= g1 < g2 < final(self).n_groups() ==>
                        final(self).block_of(#[trigger] final(self).group(g1)[0] as int) != final(self).block_of(#[trigger] final(self).group(g2)[0] as int)   // #obl:setup_senders.one_group_per_downstream_block
            },
'''


def build(x):
    c = x.struct(FN, 'Coord'); c.text = '#[derive(Clone, Copy)]\n' + c.text
    re_ = x.struct(FN, 'ReceiverEndpoint'); re_.text = '#[derive(Clone, Copy)]\n' + re_.text
    bs = x.struct(F, 'BlockSenders')
    bn = x.method(F, 'BlockSenders', 'new'); bn.name_result('r'); bn.add_spec('        ensures r.indexes == indexes,   // #obl:block_senders.new\n')
    st = x.struct(F, 'End')
    st.sub('V-SUBST', r'NextStrategy<OperatorChain::Out, IndexFn>', 'NextStrategy<IndexFn>', detail='NextStrategy modelled by its variants (the element type parameter dropped)', must=True)
    st.text = '#[verifier::reject_recursive_types(OperatorChain)]\n#[verifier::reject_recursive_types(IndexFn)]\n' + st.text
    pieces = [PRELUDE, c, re_, 'enum NextStrategy<IndexFn> { OnlyOne, Random, GroupBy(IndexFn), All }\n', bs, "impl BlockSenders {", bn, "}", st,
              "impl<OperatorChain, IndexFn> End<OperatorChain, IndexFn>\nwhere\n    IndexFn: KeyerFn<u64, OperatorChain::Out>,\n    OperatorChain: Operator,\n    OperatorChain::Out: Send + 'static,\n{\n" + end_inv_text() + SPEC_TAIL + "}\n"]
    ss = x.method(F, 'End', 'setup_senders')
    ss.add_spec(SETUP_SPEC)
    ss.sub('V-SUBST', r'glidesort::sort_by_key\(&mut self\.senders, \|(\w+)\| \1\.0\);', 'sort_senders_by_endpoint(&mut self.senders);', detail='glidesort::sort_by_key(&mut v, |s| s.0) -> contracted stub (permutation)', must=True)
    # R2: the All arm
    ss.sub('V-ITER', r'\(0\.\.self\.senders\.len\(\)\)\s*\.map\(\|(\w+)\| vec!\[\1\]\)\s*\.map\(BlockSenders::new\)\s*\.collect\(\)',
           r'''{ let mut __v: Vec<BlockSenders> = Vec::new(); let mut \1: usize = 0;
                while \1 < self.senders.len()
                    invariant \1 <= self.senders@.len(), __v@.len() == \1, forall|g: int| 0 <= g < \1 ==> (#[trigger] __v@[g]).indexes@ == seq![g as usize],
                    decreases self.senders@.len() - \1,
                { __v.push(BlockSenders::new(vec![\1])); \1 += 1; }
                proof { assert(self.singletons_gs(__v@));
                    assert forall|g1: int, k1: int, g2: int, k2: int| 0 <= g1 < __v@.len() && 0 <= k1 < __v@[g1].indexes@.len() && 0 <= g2 < __v@.len() && 0 <= k2 < __v@[g2].indexes@.len()
                        && #[trigger] __v@[g1].indexes@[k1] == #[trigger] __v@[g2].indexes@[k2] implies g1 == g2 && k1 == k2 by { assert(__v@[g1].indexes@ == seq![g1 as usize]); assert(__v@[g2].indexes@ == seq![g2 as usize]); }
                    assert forall|i: int| 0 <= i < self.senders@.len() implies #[trigger] Self::grouped_gs(__v@, i) by { assert(__v@[i].indexes@[0] == i); }
                    assert(self.inv_gs(__v@)); }
                __v }''', detail='`(0..N).map(|i| vec![i]).map(BlockSenders::new).collect()` -> push loop (vec![i] and BlockSenders::new verbatim)', flags=re.S, must=True)
    # R3: the fold arm
    rx = re.compile(r'self\s*\.senders\s*\.iter\(\)\s*\.enumerate\(\)\s*\.fold\(HashMap::<_, Vec<_>>::new\(\), \|mut (?P<m>\w+), \((?P<i>\w+), \((?P<c>\w+), _\)\)\| \{(?P<body>.*?)\n\s*(?P=m)\s*\}\)\s*\.into_values\(\)\s*\.map\(BlockSenders::new\)\s*\.collect\(\)', re.S)
    m = rx.search(ss.text)
    if not m:
        raise ScanError('setup_senders: the enumerate/fold/into_values chain was not found')
    mp, i, cc, body = m.group('m'), m.group('i'), m.group('c'), m.group('body').strip()
    body = re.sub(r'\b' + mp + r'\.entry\(([^()]*(?:\([^()]*\))?[^()]*)\)\.or_default\(\)', mp + r'.entry_or_default(\1)', body)
    new = f'''{{ let mut {mp} = KMap::new(); let mut {i}: usize = 0;
                while {i} < self.senders.len()
                    invariant {i} <= self.senders@.len(), self.map_ok({mp}@, {i} as int),   // #obl:setup_senders.fold_collects_each_sender_under_its_block
                    decreases self.senders@.len() - {i},
                {{
                    let {cc} = &self.senders[{i}].0; let ghost __m0 = {mp}@;
                    {body}
                    proof {{ let b = {cc}.coord.block_id; let old_s = if __m0.contains_key(b) {{ __m0[b] }} else {{ Seq::<usize>::empty() }};
                        assert({mp}@ == __m0.insert(b, old_s.push({i})));   // #obl:setup_senders.sender_recorded_under_its_downstream_block_only
                        assert forall|i2: int| 0 <= i2 < {i} + 1 implies {mp}@.contains_key(#[trigger] self.block_of(i2)) && exists|k: int| 0 <= k < {mp}@[self.block_of(i2)].len() && #[trigger] {mp}@[self.block_of(i2)][k] == i2 by {{
                            if i2 == {i} {{ assert({mp}@[b][old_s.len() as int] == {i}); }}
                            else {{ let k = choose|k: int| 0 <= k < __m0[self.block_of(i2)].len() && #[trigger] __m0[self.block_of(i2)][k] == i2; assert({mp}@[self.block_of(i2)][k] == i2); }}
                        }}
                    }}
                    {i} += 1;
                }}
                let ghost __mf = {mp}@;
                let mut __vals = {mp}.into_values_vec(); let ghost __vs = __vals@;
                let ghost __keys = choose|keys: Seq<BlockId>| #[trigger] keys.len() == __vs.len()
                    && (forall|i: int, j: int| 0 <= i < j < keys.len() ==> keys[i] != keys[j])
                    && (forall|i: int| 0 <= i < keys.len() ==> __mf.contains_key(#[trigger] keys[i]) && __vs[i]@ == __mf[keys[i]])
                    && (forall|k: BlockId| __mf.contains_key(k) ==> exists|i: int| 0 <= i < keys.len() && #[trigger] keys[i] == k);
                let mut __v: Vec<BlockSenders> = Vec::new();
                while __vals.len() > 0
                    invariant __vals@ =~= __vs.skip(__v@.len() as int), __v@.len() <= __vs.len(),
                        forall|g: int| 0 <= g < __v@.len() ==> (#[trigger] __v@[g]).indexes@ == __vs[g]@,
                    decreases __vals@.len(),
                {{ let ghost __g = __v@.len() as int; proof {{ assert(__vs.skip(__g)[0] == __vs[__g]); assert(__vs.skip(__g).skip(1) =~= __vs.skip(__g + 1)); }} __v.push(BlockSenders::new(__vals.remove(0))); }}
                proof {{
                    let gs = __v@; let n = self.senders@.len() as int;
                    assert(gs.len() == __vs.len());
                    assert forall|g: int| 0 <= g < gs.len() implies gs[g].indexes@ == __mf[__keys[g]] && __mf.contains_key(__keys[g]) by {{ assert(gs[g].indexes@ == __vs[g]@); }}
                    assert forall|g1: int, k1: int, g2: int, k2: int| 0 <= g1 < gs.len() && 0 <= k1 < gs[g1].indexes@.len() && 0 <= g2 < gs.len() && 0 <= k2 < gs[g2].indexes@.len()
                        && #[trigger] gs[g1].indexes@[k1] == #[trigger] gs[g2].indexes@[k2] implies g1 == g2 && k1 == k2 by {{
                        let b1 = __keys[g1]; let b2 = __keys[g2];
                        assert(self.block_of(__mf[b1][k1] as int) == b1); assert(self.block_of(__mf[b2][k2] as int) == b2);
                        if g1 != g2 {{ if g1 < g2 {{ assert(__keys[g1] != __keys[g2]); }} else {{ assert(__keys[g2] != __keys[g1]); }} }}
                        else if k1 != k2 {{ if k1 < k2 {{ assert(__mf[b1][k1] < __mf[b1][k2]); }} else {{ assert(__mf[b1][k2] < __mf[b1][k1]); }} }}
                    }}
                    assert forall|i: int| 0 <= i < n implies #[trigger] Self::grouped_gs(gs, i) by {{
                        let b = self.block_of(i); let g = choose|g: int| 0 <= g < __keys.len() && #[trigger] __keys[g] == b;
                        let k = choose|k: int| 0 <= k < __mf[b].len() && #[trigger] __mf[b][k] == i; assert(gs[g].indexes@[k] == i);
                    }}
                    assert forall|g: int| 0 <= g < gs.len() implies (#[trigger] gs[g].indexes@).len() > 0 by {{ assert(__mf[__keys[g]].len() > 0); }}
                    assert forall|g: int, k: int| 0 <= g < gs.len() && 0 <= k < gs[g].indexes@.len() implies (#[trigger] gs[g].indexes@[k]) < self.senders@.len() by {{ assert(__mf[__keys[g]][k] < n); }}
                    assert(self.inv_gs(gs));
                    assert forall|g: int, k: int| 0 <= g < gs.len() && 0 <= k < gs[g].indexes@.len() implies self.block_of(#[trigger] gs[g].indexes@[k] as int) == self.block_of(gs[g].indexes@[0] as int) by {{
                        assert(self.block_of(__mf[__keys[g]][k] as int) == __keys[g]); assert(self.block_of(__mf[__keys[g]][0] as int) == __keys[g]); }}
                    assert forall|g1: int, g2: int| 0 <= g1 < g2 < gs.len() implies self.block_of(#[trigger] gs[g1].indexes@[0] as int) != self.block_of(#[trigger] gs[g2].indexes@[0] as int) by {{
                        assert(self.block_of(__mf[__keys[g1]][0] as int) == __keys[g1]); assert(self.block_of(__mf[__keys[g2]][0] as int) == __keys[g2]); assert(__keys[g1] != __keys[g2]); }}
                    assert(self.blocks_gs(gs));
                }}
                __v }}'''
    ss.text = ss.text[:m.start()] + new + ss.text[m.end():]
    ss.note('V-ITER', 1, '`V.iter().enumerate().fold(HashMap::new(), |mut map, (i, (c, _))| { B; map }).into_values().map(BlockSenders::new).collect()` -> index loop running B (verbatim, `.entry(k).or_default()` -> entry_or_default(k)) over a map-view model, then one BlockSenders::new per value')
    ss.insert_before(re.compile(r'if [^{]*NextStrategy::OnlyOne'), '''proof {
            assert(self.inv_gs(self.block_senders@));
            if old(self).next_strategy is All { assert(self.singletons_gs(self.block_senders@)); } else { assert(self.blocks_gs(self.block_senders@)); }   // #obl:setup_senders.grouping_kind_follows_the_strategy
            assert forall|i: int| 0 <= i < self.senders@.len() implies #[trigger] self.grouped(i) by {
                assert(Self::grouped_gs(self.block_senders@, i));
                let (g, k) = choose|g: int, k: int| 0 <= g < self.block_senders@.len() && 0 <= k < self.block_senders@[g].indexes@.len() && #[trigger] self.block_senders@[g].indexes@[k] == i;
                assert(self.group(g)[k] == i);
            }
            assert(self.inv());
        }
        ''')
    # R4: the OnlyOne sanity check
    ss.sub('V-ITER', r'self\.block_senders\s*\.iter\(\)\s*\.for_each\(\|(\w+)\| assert_eq!\(\1\.indexes\.len\(\), 1\)\);',
           r'''{ let mut __q: usize = 0; while __q < self.block_senders.len() invariant __q <= self.block_senders@.len(), decreases self.block_senders@.len() - __q, { let \1 = &self.block_senders[__q]; if \1.indexes.len() != 1 { panic_no_return(); } __q += 1; } }''',
           detail='`v.iter().for_each(|s| assert_eq!(s.indexes.len(), 1))` -> index loop; a failed assertion panics and does not return', flags=re.S, must=True)
    ss.sub('V-PAT', r'matches!\(self\.next_strategy, NextStrategy::OnlyOne\)', '(match self.next_strategy { NextStrategy::OnlyOne => true, _ => false })', detail='matches!(e, P) -> match e { P => true, _ => false }')
    pieces += ["impl<OperatorChain, IndexFn> End<OperatorChain, IndexFn>\nwhere\n    IndexFn: KeyerFn<u64, OperatorChain::Out>,\n    OperatorChain: Operator,\n    OperatorChain::Out: Send + 'static,\n{", ss, "}"]
    return pieces
