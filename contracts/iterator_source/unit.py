"""C15 / C16 / C05 — IteratorSource::next (src/operator/source/iterator.rs): every item of the iterator is emitted exactly once,
in the iterator's order, as Item; then exactly one FlushAndRestart; then Terminate forever.  The source runs on a single replica
(replication() == Replication::One)."""
import os, re, sys
sys.path.insert(0, os.path.dirname(os.path.dirname(__file__)))
import std_specs as S

PROPERTIES = ["C15", "C16", "C05"]
MIN_VERIFIED = 2
F = 'src/operator/source/iterator.rs'
FO = 'src/operator/mod.rs'
FB = 'src/block/mod.rs'
ASSUMPTIONS = [
    "std Iterator modelled by a ghost sequence of remaining items: next() returns the head and drops it, or None when nothing remains (model trait Iterator; the user's iterator is opaque)",
    "the iterator is not polled again after it returned None is PROVED (terminated flag), so no fused-iterator assumption is needed",
]
PRELUDE = r'''
type Timestamp = i64;
type CoordUInt = u64;
trait Iterator: Sized {
    type Item;
    spec fn remaining(&self) -> Seq<Self::Item>;
    fn next(&mut self) -> (r: Option<Self::Item>)
        ensures
            old(self).remaining().len() > 0 ==> r == Some(old(self).remaining()[0]) && final(self).remaining() == old(self).remaining().skip(1),
            old(self).remaining().len() == 0 ==> r is None;
}
'''
SPEC = r'''
        ensures
            old(self).terminated ==> r is Terminate && final(self).terminated && final(self).inner == old(self).inner,      // #obl:iterator_source.terminate_forever_after_the_end
            !old(self).terminated && old(self).inner.remaining().len() > 0 ==>
                r == StreamElement::Item(old(self).inner.remaining()[0]) && final(self).inner.remaining() == old(self).inner.remaining().skip(1)
                && !final(self).terminated,                                                                               // #obl:iterator_source.next_item_emitted_once_in_order
            !old(self).terminated && old(self).inner.remaining().len() == 0 ==> r is FlushAndRestart && final(self).terminated,   // #obl:iterator_source.single_flush_and_restart_when_exhausted
'''
REPL_SPEC = r'''
        ensures r is One,                                                                                                 // #obl:iterator_source.single_replica
'''


def build(x):
    pieces = [PRELUDE, x.enum(FO, 'StreamElement'), x.enum(FB, 'Replication')]
    st = x.struct(F, 'IteratorSource')
    st.text = '#[verifier::reject_recursive_types(It)]\n' + st.text
    pieces.append(st)
    nx = x.method(F, 'IteratorSource', 'next', trait='Operator')
    nx.replace_exact('V-TRAIT', 'StreamElement<Self::Out>', 'StreamElement<It::Item>', detail='associated type Out substituted by its definition', count=None)
    nx.name_result('r')
    nx.add_spec(SPEC)
    rp = x.method(F, 'IteratorSource', 'replication', trait='Source')
    rp.name_result('r')
    rp.add_spec(REPL_SPEC)
    pieces += ["impl<It> IteratorSource<It>\nwhere\n    It: Iterator + Send + 'static,\n    It::Item: Send,\n{", nx, rp, "}"]
    return pieces
