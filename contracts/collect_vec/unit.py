"""C16 / C05 — CollectVecSink::next (src/operator/sink/collect_vec.rs): the sink keeps every data element in arrival
order, publishes the whole vector exactly when Terminate arrives (once), and publishes nothing before."""
import os, re, sys
sys.path.insert(0, os.path.dirname(os.path.dirname(__file__)))
import std_specs as S

PROPERTIES = ["C16", "C05"]
MIN_VERIFIED = 1
F = 'src/operator/sink/collect_vec.rs'
FO = 'src/operator/mod.rs'
ASSUMPTIONS = [
    "StreamOutputRef<Vec<Out>> (Arc<Mutex<Option<Vec<Out>>>>) is modelled by a cell with a ghost log of publications: `*self.output.lock().unwrap() = Some(v);` -> self.output.publish(v) (V-SUBST); lock poisoning is not modelled",
    "prev.next() returns any element (model trait Operator with a ghost history)",
]
PRELUDE = r'''
type Timestamp = i64;
trait ExchangeData: Clone + Send + 'static {}
trait Operator: Sized {
    type Out;
    spec fn hist(&self) -> Seq<StreamElement<Self::Out>>;
    fn next(&mut self) -> (r: StreamElement<Self::Out>)
        ensures final(self).hist() == old(self).hist().push(r);
}
// the output handle shared with the user: every publication is logged
#[verifier::external_body]
#[verifier::reject_recursive_types(T)]
struct StreamOutputRef<T> { _p: core::marker::PhantomData<T> }
impl<T> StreamOutputRef<T> {
    uninterp spec fn published(&self) -> Seq<T>;
    #[verifier::external_body]
    fn publish(&mut self, v: T) ensures final(self).published() == old(self).published().push(v) { unimplemented!() }
}
// the data elements of a history, in order
spec fn data_of<T>(h: Seq<StreamElement<T>>) -> Seq<T>
    decreases h.len()
{
    if h.len() == 0 { Seq::empty() } else {
        match h.last() {
            StreamElement::Item(t) => data_of(h.drop_last()).push(t),
            StreamElement::Timestamped(t, _) => data_of(h.drop_last()).push(t),
            _ => data_of(h.drop_last()),
        }
    }
}
spec fn has_terminate<T>(h: Seq<StreamElement<T>>) -> bool { exists|i: int| 0 <= i < h.len() && #[trigger] h[i] is Terminate }
'''
SPEC_IMPL = r'''
impl<Out: ExchangeData, PreviousOperators: Operator<Out = Out>> CollectVecSink<Out, PreviousOperators> {
    // until Terminate the sink holds exactly the data elements received so far, in order, and has published nothing;
    // afterwards it holds nothing and has published once
    spec fn inv(&self) -> bool {
        &&& (self.result matches Some(v) ==> v@ == data_of(self.prev.hist()) && self.output.published().len() == 0 && !has_terminate(self.prev.hist()))
        &&& (self.result is None ==> self.output.published().len() == 1 && has_terminate(self.prev.hist()))
    }
}
'''
NEXT_SPEC = r'''
        requires old(self).inv(),
        ensures
            final(self).inv(),                                                                                                     // #obl:sink.holds_every_data_element_in_order_until_terminate
            final(self).prev.hist().len() == old(self).prev.hist().len() + 1,
            // the result is published exactly when the first Terminate arrives, complete and in arrival order
            (final(self).prev.hist().last() is Terminate && old(self).result is Some) ==>
                final(self).output.published() == old(self).output.published().push(old(self).result->0)
                && old(self).result->0@ == data_of(old(self).prev.hist()),                                                      // #obl:sink.publishes_the_complete_result_at_terminate
            !(final(self).prev.hist().last() is Terminate && old(self).result is Some) ==>
                final(self).output.published() == old(self).output.published(),                                                  // #obl:sink.publishes_nothing_before_terminate
            // what flows on: data becomes Item(()), control elements are forwarded
            match final(self).prev.hist().last() {
                StreamElement::Item(_) => r is Item, StreamElement::Timestamped(_, _) => r is Item,
                StreamElement::Watermark(w) => r == StreamElement::<()>::Watermark(w),
                StreamElement::Terminate => r is Terminate, StreamElement::FlushBatch => r is FlushBatch, StreamElement::FlushAndRestart => r is FlushAndRestart,
            },                                                                                                                     // #obl:sink.forwards_control_elements
'''


def build(x):
    se = x.enum(FO, 'StreamElement')
    st = x.struct(F, 'CollectVecSink')
    st.text = '#[verifier::reject_recursive_types(Out)]\n#[verifier::reject_recursive_types(PreviousOperators)]\n' + st.text
    nx = x.method(F, 'CollectVecSink', 'next', trait='Operator')
    nx.sub('V-SUBST', r'\*self\.output\.lock\(\)\.unwrap\(\) = Some\((\w+)\);', r'self.output.publish(\1);', detail='`*self.output.lock().unwrap() = Some(v);` -> publish(v) on the output-cell model', must=True)
    nx.sub('V-SPEC', r'match self\.prev\.next\(\) \{', 'let ghost h0 = self.prev.hist();\n        let __e = self.prev.next();\n        proof { assert(self.prev.hist().drop_last() =~= h0); if has_terminate(h0) { let i = choose|i: int| 0 <= i < h0.len() && #[trigger] h0[i] is Terminate; assert(self.prev.hist()[i] is Terminate); } if !(__e is Terminate) && has_terminate(self.prev.hist()) { let i = choose|i: int| 0 <= i < self.prev.hist().len() && #[trigger] self.prev.hist()[i] is Terminate; assert(h0[i] is Terminate); } if __e is Terminate { assert(self.prev.hist()[h0.len() as int] is Terminate); } }\n        match __e {', detail='scrutinee bound to a ghost-visible name `__e`', must=True)
    nx.name_result('r')
    nx.add_spec(NEXT_SPEC)
    hdr = "impl<Out: ExchangeData, PreviousOperators: Operator<Out = Out>> CollectVecSink<Out, PreviousOperators> {"
    return [PRELUDE, se, st, SPEC_IMPL, hdr, nx, "}"]
