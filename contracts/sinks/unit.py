"""C16 / C05 — the other sinks: ForEach::next, CollectCountSink::next, CollectChannelSink::next (src/operator/sink/*.rs).
Every data element reaching the sink is consumed exactly once, in arrival order (handed to the user closure / added to the
count / sent on the output channel); results are published (count) or the channel is closed exactly when Terminate arrives
and never before; control elements are forwarded unchanged."""
import os, re, sys
sys.path.insert(0, os.path.dirname(os.path.dirname(__file__)))
import std_specs as S

PROPERTIES = ["C16", "C05"]
MIN_VERIFIED = 3
FO = 'src/operator/mod.rs'
ASSUMPTIONS = [
    "the user closure of for_each is modelled by a consumer with a ghost log of the values it was called with (model trait ConsumerFn; `(self.f)(t)` -> `self.f.call_mut_logged(t)`, V-SUBST): total, opaque",
    "StreamOutputRef<usize> (Arc<Mutex<Option<usize>>>) modelled by a cell with a ghost log of publications (as in unit collect_vec); lock poisoning not modelled",
    "flume Sender modelled by a handle with a ghost log of the values sent (R-CHAN; interior mutability modelled as &mut on the handle: `self.tx.as_ref().map(|tx| tx.send(t))` -> `match self.tx.as_mut() { Some(tx) => { let _ = tx.send(t); } None => {} }`, V-COMB: definition of Option::map on a by-reference option); a send error (receiver dropped) is ignored by the real code as well",
    "CollectCountSink: the running count fits in usize (otherwise `self.result += c` overflows: panic in debug builds)",
    "prev.next() returns any element (model trait Operator with a ghost history)",
    "Collect::next (std::iter::from_fn over a closure capturing `&mut self.prev`, FromIterator of a user collection) is NOT under contract",
    "termination of ForEach::next (it pulls until a control element arrives) is not verified",
]
PRELUDE = r'''
type Timestamp = i64;
trait ExchangeData: Clone + Send + 'static {}
trait Operator: Sized {
    type Out;
    spec fn hist(&self) -> Seq<StreamElement<Self::Out>>;
    // what the environment promises about every element (used for: the partial counts do not overflow the total)
    spec fn elem_ok(&self, e: StreamElement<Self::Out>) -> bool;
    fn next(&mut self) -> (r: StreamElement<Self::Out>)
        ensures final(self).hist() == old(self).hist().push(r), old(self).elem_ok(r);
}
// the user's consumer closure: every call is logged
trait ConsumerFn<T>: Sized {
    spec fn calls(&self) -> Seq<T>;
    fn call_mut_logged(&mut self, t: T)
        ensures final(self).calls() == old(self).calls().push(t);
}
#[verifier::external_body]
#[verifier::reject_recursive_types(T)]
struct StreamOutputRef<T> { _p: core::marker::PhantomData<T> }
impl<T> StreamOutputRef<T> {
    uninterp spec fn published(&self) -> Seq<T>;
    #[verifier::external_body]
    fn publish(&mut self, v: T) ensures final(self).published() == old(self).published().push(v) { unimplemented!() }
}
#[verifier::external_body]
#[verifier::reject_recursive_types(T)]
struct Sender<T> { _p: core::marker::PhantomData<T> }
struct SendError {}
impl<T> Sender<T> {
    uninterp spec fn sent(&self) -> Seq<T>;
    #[verifier::external_body]
    fn send(&mut self, v: T) -> (r: Result<(), SendError>) ensures final(self).sent() == old(self).sent().push(v) { unimplemented!() }
}
spec fn is_data<T>(e: StreamElement<T>) -> bool { e is Item || e is Timestamped }
spec fn payload<T>(e: StreamElement<T>) -> T { match e { StreamElement::Item(x) => x, StreamElement::Timestamped(x, _) => x, _ => arbitrary() } }
// the data elements of a history, in order
spec fn data_of<T>(h: Seq<StreamElement<T>>) -> Seq<T>
    decreases h.len()
{
    if h.len() == 0 { Seq::empty() } else {
        match h.last() {
            StreamElement::Item(t) => data_of(h.drop_last()).push(t),
            StreamElement::Timestamped(t, _) => data_of(h.drop_last()).push(t),
            _ => data_of(h.drop_last()),
        }
    }
}
proof fn lemma_data_push<T>(h: Seq<StreamElement<T>>, e: StreamElement<T>)
    ensures data_of(h.push(e)) == (if is_data(e) { data_of(h).push(payload(e)) } else { data_of(h) })
{ assert(h.push(e).drop_last() =~= h); }
// control elements are forwarded with their kind (and watermark value)
spec fn forwarded<T>(e: StreamElement<T>, r: StreamElement<()>) -> bool {
    match e {
        StreamElement::Item(_) => r is Item, StreamElement::Timestamped(_, _) => r is Item,
        StreamElement::Watermark(w) => r == StreamElement::<()>::Watermark(w),
        StreamElement::Terminate => r is Terminate, StreamElement::FlushBatch => r is FlushBatch, StreamElement::FlushAndRestart => r is FlushAndRestart,
    }
}
'''
FOREACH_SPEC = r'''
        ensures
            ({
                let p = final(self).prev.hist().skip(old(self).prev.hist().len() as int);
                &&& p.len() >= 1 && !is_data(p.last()) && forwarded(p.last(), r)                             // #obl:for_each.only_data_absorbed_control_forwarded
                &&& final(self).f.calls() == old(self).f.calls() + data_of(p)                                 // #obl:for_each.closure_called_once_per_data_element_in_order
            }),
'''
COUNT_SPEC = r'''
        requires forall|e: StreamElement<usize>| #[trigger] old(self).prev.elem_ok(e) && is_data(e) ==> old(self).result + payload(e) <= usize::MAX,
        ensures
            final(self).prev.hist().len() == old(self).prev.hist().len() + 1,
            forwarded(final(self).prev.hist().last(), r),                                                    // #obl:collect_count.control_forwarded
            is_data(final(self).prev.hist().last()) ==> final(self).result == old(self).result + payload(final(self).prev.hist().last()),   // #obl:collect_count.every_partial_count_added_once
            !is_data(final(self).prev.hist().last()) ==> final(self).result == old(self).result,
            final(self).prev.hist().last() is Terminate ==> final(self).output.published() == old(self).output.published().push(old(self).result),   // #obl:collect_count.publishes_the_total_at_terminate
            !(final(self).prev.hist().last() is Terminate) ==> final(self).output.published() == old(self).output.published(),                      // #obl:collect_count.publishes_nothing_before_terminate
'''
CHANNEL_SPEC = r'''
        ensures
            final(self).prev.hist().len() == old(self).prev.hist().len() + 1,
            forwarded(final(self).prev.hist().last(), r),                                                    // #obl:collect_channel.control_forwarded
            (is_data(final(self).prev.hist().last()) && old(self).tx is Some) ==>
                final(self).tx is Some && final(self).tx->0.sent() == old(self).tx->0.sent().push(payload(final(self).prev.hist().last())),   // #obl:collect_channel.every_data_element_sent_once_in_order
            (!is_data(final(self).prev.hist().last()) && !(final(self).prev.hist().last() is Terminate)) ==> final(self).tx == old(self).tx,     // #obl:collect_channel.channel_kept_open_until_terminate
            final(self).prev.hist().last() is Terminate ==> final(self).tx is None,                          // #obl:collect_channel.channel_closed_at_terminate
'''


def build(x):
    pieces = [PRELUDE, x.enum(FO, 'StreamElement')]
    # ---- ForEach
    F = 'src/operator/sink/for_each.rs'
    st = x.struct(F, 'ForEach')
    st.sub('V-SUBST', r'F: FnMut\(Op::Out\) \+ Send \+ Clone,', 'F: ConsumerFn<Op::Out> + Send + Clone,', detail='the user closure bound FnMut(Op::Out) -> consumer model with a ghost call log', must=True)
    st.text = '#[verifier::reject_recursive_types(F)]\n#[verifier::reject_recursive_types(Op)]\n' + st.text
    nx = x.method(F, 'ForEach', 'next', trait='Operator'); nx.name_result('r'); nx.add_spec(FOREACH_SPEC)
    nx.text = '#[verifier::exec_allows_no_decreases_clause]\n' + nx.text
    nx.sub('V-SUBST', r'\(self\.f\)\((\w+)\);', r'self.f.call_mut_logged(\1);', detail='`(self.f)(t);` -> `self.f.call_mut_logged(t);` (call on the consumer model)', must=True)
    nx.add_loop_spec(1, r'''
            invariant
                self.prev.hist().len() >= old(self).prev.hist().len(),
                self.f.calls() == old(self).f.calls() + data_of(self.prev.hist().skip(old(self).prev.hist().len() as int)),   // #obl:for_each.closure_called_once_per_data_element_in_order
                forall|i: int| 0 <= i < self.prev.hist().len() - old(self).prev.hist().len() ==> is_data(#[trigger] self.prev.hist().skip(old(self).prev.hist().len() as int)[i]),   // #obl:for_each.only_data_absorbed_control_forwarded
''')
    nx.insert_before('loop', 'proof { assert(self.prev.hist().skip(old(self).prev.hist().len() as int) =~= Seq::<StreamElement<Op::Out>>::empty()); assert(old(self).f.calls() + Seq::<Op::Out>::empty() =~= old(self).f.calls()); }\n        ')
    nx.insert_before('match self.prev.next() {', 'let ghost h0 = self.prev.hist();\n            ')
    nx.sub('V-SPEC', r'match self\.prev\.next\(\) \{', 'let __e = self.prev.next();\n            proof { let k = old(self).prev.hist().len() as int; assert(self.prev.hist().skip(k) =~= h0.skip(k).push(__e)); lemma_data_push(h0.skip(k), __e); assert(old(self).f.calls() + data_of(h0.skip(k)).push(payload(__e)) =~= (old(self).f.calls() + data_of(h0.skip(k))).push(payload(__e))); }\n            match __e {',
           detail='scrutinee bound to a ghost-visible name `__e`', must=True)
    pieces += [st, "impl<F, Op> ForEach<F, Op>\nwhere\n    F: ConsumerFn<Op::Out> + Send + Clone,\n    Op: Operator,\n{", nx, "}"]

    # ---- CollectCountSink
    F = 'src/operator/sink/collect_count.rs'
    st = x.struct(F, 'CollectCountSink'); st.text = '#[verifier::reject_recursive_types(PreviousOperators)]\n' + st.text
    nx = x.method(F, 'CollectCountSink', 'next', trait='Operator'); nx.name_result('r')
    nx.add_spec(COUNT_SPEC)
    nx.sub('V-SUBST', r'\*self\.output\.lock\(\)\.unwrap\(\) = Some\(([\w\.]+)\);', r'self.output.publish(\1);', detail='`*self.output.lock().unwrap() = Some(v);` -> publish(v) on the output-cell model', must=True)
    nx.pull_hint('', indent='        ')
    pieces += [st, "impl<PreviousOperators> CollectCountSink<PreviousOperators>\nwhere\n    PreviousOperators: Operator<Out = usize>,\n{", nx, "}"]

    # ---- CollectChannelSink
    F = 'src/operator/sink/collect_channel.rs'
    st = x.struct(F, 'CollectChannelSink'); st.text = '#[verifier::reject_recursive_types(Out)]\n#[verifier::reject_recursive_types(PreviousOperators)]\n' + st.text
    nx = x.method(F, 'CollectChannelSink', 'next', trait='Operator'); nx.name_result('r'); nx.add_spec(CHANNEL_SPEC)
    nx.sub('V-COMB', r'let _ = self\.tx\.as_ref\(\)\.map\(\|(\w+)\| \1\.send\((\w+)\)\);', r'match self.tx.as_mut() { Some(\1) => { let _ = \1.send(\2); } None => {} }',
           detail='`let _ = self.tx.as_ref().map(|tx| tx.send(t));` -> `match self.tx.as_mut() { Some(tx) => { let _ = tx.send(t); } None => {} }` (definition of Option::map; R-CHAN: interior mutability of the sender modelled as &mut)', must=True)
    nx.pull_hint('', indent='        ')
    pieces += [st, "impl<Out: ExchangeData, PreviousOperators> CollectChannelSink<Out, PreviousOperators>\nwhere\n    PreviousOperators: Operator<Out = Out>,\n{", nx, "}"]
    return pieces
