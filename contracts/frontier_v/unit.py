"""C06 / C17 — WatermarkFrontier::{update, compute_frontier, reset} (src/operator/start/watermark_frontier.rs), Verus,
any number of upstream replicas.  The IndexMap is modelled as an ordered association list (its documented semantics);
the real IndexMap + fxhash is exercised by the bounded Kani unit `frontier` (thorough tier)."""
import os, re, sys
sys.path.insert(0, os.path.dirname(os.path.dirname(__file__)))
import std_specs as S
import shared as SH

PROPERTIES = ["C06", "C17"]
MIN_VERIFIED = 5
F = 'src/operator/start/watermark_frontier.rs'
FN = 'src/network/mod.rs'
ASSUMPTIONS = [
    "model of indexmap::IndexMap<Coord, Option<Timestamp>, _>: an association list with distinct keys in insertion order; `&mut map[&k]` (IndexMut) -> map.index_mut(&k), `.values().fold(init, f)` -> index loop (V-ITER), `.values_mut().for_each(|v| *v = None)` -> contracted stub set_all_none(); checked against the real IndexMap by the bounded Kani unit `frontier`",
    "opt_join(a, b, std::cmp::min) is used through its contract (min with None neutral), proved complete (loop-free) by the Kani harness frontier_opt_join_contract",
    "V-SUBST: `all & x.is_some()` -> `all && x.is_some()` (no side effects)",
]
PRELUDE = r'''
type BlockId = u64; type HostId = u64; type ReplicaId = u64; type Timestamp = i64;
// ---- model of IndexMap<Coord, Option<Timestamp>, CoordHasherBuilder>
#[verifier::external_body]
struct IndexMap {}
spec fn distinct(k: Seq<Coord>) -> bool { forall|i: int, j: int| 0 <= i < j < k.len() ==> k[i] != k[j] }
impl IndexMap {
    uninterp spec fn keys(&self) -> Seq<Coord>;
    uninterp spec fn vals(&self) -> Seq<Option<Timestamp>>;
    spec fn wf(&self) -> bool { self.keys().len() == self.vals().len() && distinct(self.keys()) }
    #[verifier::external_body]
    fn index_mut(&mut self, k: &Coord) -> (r: &mut Option<Timestamp>)
        requires old(self).wf(), old(self).keys().contains(*k),
        ensures exists|i: int| 0 <= i < old(self).keys().len() && old(self).keys()[i] == *k && *r == old(self).vals()[i]
                    && final(self).keys() == old(self).keys() && final(self).vals() == #[trigger] old(self).vals().update(i, *final(r)),
    { unimplemented!() }
    #[verifier::external_body]
    fn len(&self) -> (r: usize) ensures r == self.keys().len() { unimplemented!() }
    #[verifier::external_body]
    fn value_at(&self, i: usize) -> (r: &Option<Timestamp>) requires i < self.vals().len() ensures *r == self.vals()[i as int] { unimplemented!() }
    // contract of `.values_mut().for_each(|v| *v = None)`
    #[verifier::external_body]
    fn set_all_none(&mut self)
        ensures final(self).keys() == old(self).keys(), final(self).vals().len() == old(self).vals().len(),
                forall|i: int| 0 <= i < final(self).vals().len() ==> (#[trigger] final(self).vals()[i]) is None,
    { unimplemented!() }
}
struct CmpMin {}
spec fn omin(a: Option<Timestamp>, b: Option<Timestamp>) -> Option<Timestamp> {
    match (a, b) { (Some(x), Some(y)) => Some(if x <= y { x } else { y }), (Some(x), None) => Some(x), (None, Some(y)) => Some(y), (None, None) => None }
}
// contract stub of opt_join(a, b, std::cmp::min)  (body: Kani harness frontier_opt_join_contract, complete)
#[verifier::external_body]
fn opt_join(a: Option<Timestamp>, b: Option<Timestamp>, f: CmpMin) -> (r: Option<Timestamp>) ensures r == omin(a, b) { unimplemented!() }

// fold state after the first k values: (all Some so far, minimum of the Some values so far)
spec fn fold_all(v: Seq<Option<Timestamp>>, k: int) -> bool decreases k { if k <= 0 { true } else { fold_all(v, k - 1) && v[k - 1] is Some } }
spec fn fold_min(v: Seq<Option<Timestamp>>, k: int) -> Option<Timestamp> decreases k { if k <= 0 { None } else { omin(fold_min(v, k - 1), v[k - 1]) } }
spec fn frontier_fn(v: Seq<Option<Timestamp>>) -> Option<Timestamp> { if fold_all(v, v.len() as int) { fold_min(v, v.len() as int) } else { None } }
proof fn lemma_fold(v: Seq<Option<Timestamp>>, k: int)
    requires 0 <= k <= v.len(),
    ensures
        fold_all(v, k) <==> (forall|i: int| 0 <= i < k ==> (#[trigger] v[i]) is Some),
        fold_min(v, k) is None <==> (forall|i: int| 0 <= i < k ==> (#[trigger] v[i]) is None),
        fold_min(v, k) matches Some(m) ==> (forall|i: int| 0 <= i < k && (#[trigger] v[i]) is Some ==> m <= v[i]->0)
            && (exists|i: int| 0 <= i < k && #[trigger] v[i] == Some(m)),
    decreases k
{
    if k > 0 {
        lemma_fold(v, k - 1);
        match fold_min(v, k - 1) {
            Some(m0) => {
                let j = choose|j: int| 0 <= j < k - 1 && #[trigger] v[j] == Some(m0);
                match v[k - 1] {
                    Some(y) => { if m0 <= y { assert(v[j] == Some(m0)); } else { assert(v[k - 1] == Some(y)); } },
                    None => { assert(v[j] == Some(m0)); },
                }
            },
            None => { if v[k - 1] is Some { assert(v[k - 1] == Some(v[k - 1]->0)); } },
        }
    }
}
'''
SPEC_IMPL = r'''
// association list -> map
spec fn to_map(k: Seq<Coord>, v: Seq<Option<Timestamp>>, n: int) -> Map<Coord, Option<Timestamp>>
    decreases n
{
    if n <= 0 { Map::empty() } else { to_map(k, v, n - 1).insert(k[n - 1], v[n - 1]) }
}
proof fn lemma_to_map(k: Seq<Coord>, v: Seq<Option<Timestamp>>, n: int)
    requires 0 <= n <= k.len(), k.len() == v.len(), distinct(k),
    ensures
        forall|i: int| 0 <= i < n ==> to_map(k, v, n).contains_key(#[trigger] k[i]) && to_map(k, v, n)[k[i]] == v[i],
        forall|c: Coord| to_map(k, v, n).contains_key(c) ==> exists|i: int| 0 <= i < n && #[trigger] k[i] == c,
    decreases n
{
    if n > 0 {
        lemma_to_map(k, v, n - 1);
        assert forall|c: Coord| to_map(k, v, n).contains_key(c) implies exists|i: int| 0 <= i < n && #[trigger] k[i] == c by {
            if c == k[n - 1] { assert(k[n - 1] == c); }
            else { assert(to_map(k, v, n - 1).contains_key(c)); let i = choose|i: int| 0 <= i < n - 1 && #[trigger] k[i] == c; assert(k[i] == c); }
        }
    }
}
proof fn lemma_to_map_update(k: Seq<Coord>, v: Seq<Option<Timestamp>>, j: int, x: Option<Timestamp>)
    requires 0 <= j < k.len(), k.len() == v.len(), distinct(k),
    ensures to_map(k, v.update(j, x), k.len() as int) =~= to_map(k, v, k.len() as int).insert(k[j], x),
{
    let n = k.len() as int;
    lemma_to_map(k, v, n);
    lemma_to_map(k, v.update(j, x), n);
    let a = to_map(k, v.update(j, x), n);
    let b = to_map(k, v, n).insert(k[j], x);
    assert forall|c: Coord| a.contains_key(c) == b.contains_key(c) by {
        if a.contains_key(c) { let i = choose|i: int| 0 <= i < n && #[trigger] k[i] == c; assert(to_map(k, v, n).contains_key(k[i])); }
        if b.contains_key(c) { if c != k[j] { let i = choose|i: int| 0 <= i < n && #[trigger] k[i] == c; assert(a.contains_key(k[i])); } else { assert(a.contains_key(k[j])); } }
    }
    assert forall|c: Coord| a.contains_key(c) implies a[c] == b[c] by {
        let i = choose|i: int| 0 <= i < n && #[trigger] k[i] == c;
        assert(a[k[i]] == v.update(j, x)[i]);
        assert(to_map(k, v, n)[k[i]] == v[i]);
    }
}
impl WatermarkFrontier {
    spec fn wf(&self) -> bool { self.map.wf() }
    // the view used by Start::next (contracts/shared.py)
    spec fn entries(&self) -> Map<Coord, Option<Timestamp>> { to_map(self.map.keys(), self.map.vals(), self.map.keys().len() as int) }
    spec fn front(&self) -> Option<Timestamp> { self.front }
    proof fn lemma_frontier_of(&self)
        requires self.wf(),
        ensures frontier_of(self.entries(), frontier_fn(self.map.vals())),
    {
        let k = self.map.keys(); let v = self.map.vals(); let e = self.entries();
        let n = k.len() as int;
        lemma_fold(v, n);
        lemma_to_map(k, v, n);
        if exists|c: Coord| e.contains_key(c) && #[trigger] e[c] is None {
            let c = choose|c: Coord| e.contains_key(c) && #[trigger] e[c] is None;
            let j = choose|i: int| 0 <= i < n && #[trigger] k[i] == c;
            assert(e[k[j]] == v[j]);
            assert(v[j] is None);
        } else if e.dom() =~= Set::empty() {
            if n > 0 { assert(e.contains_key(k[0])); assert(e.dom().contains(k[0])); }
        } else {
            assert forall|i: int| 0 <= i < n implies (#[trigger] v[i]) is Some by { assert(e.contains_key(k[i]) && e[k[i]] == v[i]); }
            let c0 = choose|c: Coord| e.dom().contains(c);
            assert(e.contains_key(c0));
            let j0 = choose|i: int| 0 <= i < n && #[trigger] k[i] == c0;
            assert(v[j0] is Some);
            let m = fold_min(v, n);
            assert(m is Some);
            let jm = choose|j: int| 0 <= j < n && #[trigger] v[j] == Some(m->0);
            assert(e.contains_key(k[jm]) && e[k[jm]] == v[jm]);
            assert forall|c: Coord| e.contains_key(c) implies m->0 <= (#[trigger] e[c])->0 by {
                let j = choose|i: int| 0 <= i < n && #[trigger] k[i] == c;
                assert(e[k[j]] == v[j]);
            }
        }
    }
}
'''

def build(x):
    c = x.struct(FN, 'Coord'); c.text = '#[derive(Clone, Copy)]\n' + c.text
    st = x.struct(F, 'WatermarkFrontier')
    st.sub('V-SUBST', r'IndexMap<Coord, Option<Timestamp>, CoordHasherBuilder>', 'IndexMap', detail='field type -> association-list model of IndexMap', must=True)
    pieces = [PRELUDE, SH.FRONTIER_SPEC, c, st, SPEC_IMPL]
    cf = x.method(F, 'WatermarkFrontier', 'compute_frontier'); cf.name_result('r')
    cf.sub('V-ITER', r'self\.map\.values\(\)\.fold\(\(true, None\), \|\(all, min\), x\| \{\s*\(all & x\.is_some\(\), opt_join\(min, \*x, std::cmp::min\)\)\s*\}\);',
           '{ let mut __acc: (bool, Option<Timestamp>) = (true, None); let mut __i: usize = 0;\n            while __i < self.map.len() { let x = self.map.value_at(__i); __acc = { let (all, min) = __acc; (all && x.is_some(), opt_join(min, *x, CmpMin {})) }; __i += 1; }\n            __acc };',
           detail='`.values().fold(init, |(all, min), x| (all & x.is_some(), opt_join(min, *x, std::cmp::min)))` -> index loop over the values in order; `&` -> `&&`; std::cmp::min -> CmpMin marker of the opt_join contract', must=True)
    cf.add_spec("        requires self.wf(),\n        ensures r == frontier_fn(self.map.vals()),   // #obl:compute_frontier.min_of_entries_or_none")
    cf.add_loop_spec(1, r'''
                invariant __i <= self.map.vals().len(), self.map.keys().len() == self.map.vals().len(),
                    __acc.0 == fold_all(self.map.vals(), __i as int), __acc.1 == fold_min(self.map.vals(), __i as int),
                decreases self.map.vals().len() - __i,
''')
    up = x.method(F, 'WatermarkFrontier', 'update'); up.name_result('r')
    up.sub('V-SUBST', r'&mut self\.map\[&coord\]', 'self.map.index_mut(&coord)', detail='IndexMut sugar `&mut m[&k]` -> m.index_mut(&k)', must=True)
    up.bind('t0', r'let (\w+)(?:\s*:\s*[^=;]+)? = self\.map\.index_mut\(')
    up.bind('prev_frontier', r'let (\w+)(?:\s*:\s*[^=;]+)? = self\.front;')
    up.sub('V-SUBST', r'matches!\((?P<t0>\w+), Some\((?P<t>\w+)\) if \*(?P=t) (?P<op>[<>=!]+) ts\)', lambda m: f"matches!(*{m.group('t0')}, Some({m.group('t')}) if {m.group('t')} {m.group('op')} ts)", detail='match on `*t0` (Option<i64> is Copy) instead of through the &mut binding (Verus: no guard + by-mut-ref binding); comparison operator verbatim', must=('matches!(' in up.text))
    up.add_spec('''        requires old(self).wf(), ''' + SH.FRONTIER_UPDATE_REQUIRES + '''
        ensures final(self).wf(), ''' + SH.FRONTIER_UPDATE_ENSURES.replace('final(self).entries() == old(self).entries().insert(coord, raised(old(self).entries()[coord], ts)),', 'final(self).entries() =~= old(self).entries().insert(coord, raised(old(self).entries()[coord], ts)),   // #obl:update.entry_raised_to_max_others_unchanged').replace('frontier_of(final(self).entries(), final(self).front()),', 'frontier_of(final(self).entries(), final(self).front()),   // #obl:update.front_is_min_of_entries').replace('r == announce(old(self).front(), final(self).front()),', 'r == announce(old(self).front(), final(self).front()),   // #obl:update.returns_new_frontier_iff_changed').replace('(r is Some && old(self).front() is Some) ==> r->0 > old(self).front()->0,', '(r is Some && old(self).front() is Some) ==> r->0 > old(self).front()->0,   // #obl:update.announced_watermarks_strictly_increase') + '''
''')
    up.insert_at_body_start('''
        let ghost k0 = self.map.keys();
        let ghost v0 = self.map.vals();
        let ghost e0 = self.entries();
        proof { lemma_to_map(k0, v0, k0.len() as int); }
''')
    up.insert_before(re.compile(r'return None;'), '''proof {
                let j = choose|i: int| 0 <= i < k0.len() && k0[i] == coord && *§t0§ == v0[i] && self.map.vals() == #[trigger] v0.update(i, *final(§t0§));
                assert(self.map.vals() =~= v0);
                assert(e0.contains_key(k0[j]) && e0[k0[j]] == v0[j]);
                assert(self.entries() =~= e0.insert(coord, raised(e0[coord], ts)));
            }
            ''')
    up.insert_after_stmt('self.front = self.compute_frontier()', '''
        proof {
            let v1 = self.map.vals();
            let j = choose|i: int| 0 <= i < k0.len() && k0[i] == coord && v1 == #[trigger] v0.update(i, Some(ts));
            lemma_to_map_update(k0, v0, j, Some(ts));
            assert(e0.contains_key(k0[j]) && e0[k0[j]] == v0[j]);
            assert(raised(e0[coord], ts) == Some(ts));
            assert(self.entries() =~= e0.insert(coord, Some(ts)));
            self.lemma_frontier_of();
            // the frontier never decreases: every entry only grows
            if §prev_frontier§ is Some {
                let e1 = self.entries();
                assert forall|c: Coord| e1.contains_key(c) implies (#[trigger] e1[c]) is Some && e1[c]->0 >= §prev_frontier§->0 by {
                    assert(e0.contains_key(c));
                    if c == coord { } else { assert(e1[c] == e0[c]); }
                }
                assert(e0.contains_key(coord));
                assert(e1.contains_key(coord));
            }
        }
        ''')
    rs = x.method(F, 'WatermarkFrontier', 'reset')
    rs.sub('V-SUBST', r'self\.map\.values_mut\(\)\.for_each\(\|(\w+)\| \*\1 = None\);|for (\w+) in self\.map\.values_mut\(\) \{\s*\*\2 = None;\s*\}', 'self.map.set_all_none();', detail='`.values_mut().for_each(|v| *v = None)` -> contracted stub set_all_none()', must=True)
    rs.insert_at_body_start('''
        let ghost k0 = self.map.keys();
        let ghost v0 = self.map.vals();
''')
    rs.insert_after('self.map.set_all_none();', '''
        proof {
            let n = k0.len() as int;
            let v1 = self.map.vals();
            lemma_to_map(k0, v0, n);
            lemma_to_map(k0, v1, n);
            let e0 = to_map(k0, v0, n); let e1 = to_map(k0, v1, n);
            assert forall|c: Coord| e0.contains_key(c) == e1.contains_key(c) by {
                if e0.contains_key(c) { let i = choose|i: int| 0 <= i < n && #[trigger] k0[i] == c; assert(e1.contains_key(k0[i])); }
                if e1.contains_key(c) { let i = choose|i: int| 0 <= i < n && #[trigger] k0[i] == c; assert(e0.contains_key(k0[i])); }
            }
            assert(e1.dom() =~= e0.dom());
            assert forall|c: Coord| e1.contains_key(c) implies (#[trigger] e1[c]) is None by {
                let i = choose|i: int| 0 <= i < n && #[trigger] k0[i] == c; assert(e1[k0[i]] == v1[i]);
            }
        }''')
    rs.add_spec('''        requires old(self).wf(),
        ensures final(self).wf(), ''' + SH.FRONTIER_RESET_ENSURES + '''   // #obl:reset.all_entries_and_front_none
''')
    pieces += ["impl WatermarkFrontier {", cf, up, rs, "}"]
    return pieces
