"""C08 / C05 (NARROWED: soundness of the interval join and its per-iteration protocol; completeness is not decided) —
IntervalJoin::{advance, next} (src/operator/interval_join.rs).
advance: only consumes the left queue from the front and each key's right queue from the front, only appends tuples; every tuple
it appends pairs a left element (lt, (k, l)) with a right element (rt, r) stored under the SAME key k whose timestamps satisfy
lt - lower_bound <= rt <= lt + upper_bound, and is stamped max(lt, rt); once the end of the iteration was received it empties
both sides.  next: a left element is queued on the left, a right element under its key on the right, with its timestamp;
results leave oldest first; FlushAndRestart is forwarded only when nothing is buffered, both sides are empty (the real code's
asserts are proved) and the operator is back in its constructor state."""
import os, re, sys
sys.path.insert(0, os.path.dirname(os.path.dirname(__file__)))
import std_specs as S
from engine.rsx import ScanError

PROPERTIES = ["C08", "C05"]
MIN_VERIFIED = 2
F = 'src/operator/interval_join.rs'
FM = 'src/operator/merge.rs'
FO = 'src/operator/mod.rs'
ASSUMPTIONS = [
    "COMPLETENESS is NOT decided: that every same-key pair inside the interval is emitted relies on both inputs arriving in timestamp order (the reorder() in front of the operator) and on the watermark argument `upper < last_seen`; the contract pins soundness, consumption from the front only, and the emptying of both sides at the end of an iteration",
    "std HashMap<Key, VecDeque<(Timestamp, Out2)>, GroupHasherBuilder> by its map view (KMap): get_mut, `.entry(k).or_default()` -> entry_or_default(k), clear, is_empty; Key equality is spec equality; Clone yields an equal value",
    "V-ITER templates (predicates and the mapped expression verbatim): `while let P = E { B }` -> loop/match; `X.iter().take_while(|(a, _)| P).map(|(a, b)| { E })` + `Q.extend(..)` -> loop from the first element while P holds, pushing E",
    "lower_bound >= 0 and upper_bound >= 0 (they are built from Durations): precondition; i64 arithmetic is checked (checked_sub / checked_add as in the code)",
    "R-PROTO: timestamps arrive in non-decreasing order (`assert!(ts >= self.last_seen)` panics otherwise: fail-stop, not an obligation) and every element is timestamped (an Item panics by design)",
    "prev.next() returns any element (model trait Operator); termination of next() is not verified",
]
PRELUDE = r'''
use std::collections::VecDeque;
type Timestamp = i64;
type OutputElement<Key, Out, Out2> = (Key, (Out, Out2));
trait Data: Clone + Send + 'static {}
trait ExchangeData: Data {}
trait ExchangeDataKey: Data {}
trait Operator: Sized {
    type Out;
    spec fn hist(&self) -> Seq<StreamElement<Self::Out>>;
    fn next(&mut self) -> (r: StreamElement<Self::Out>)
        ensures final(self).hist() == old(self).hist().push(r);
}
broadcast use trusted_axioms::axiom_data_clone;
#[verifier::external_body]
fn panic_no_return() ensures false { unimplemented!() }
#[verifier::external_body]
fn panic_no_return_val<T>() -> T ensures false { unimplemented!() }
// ---- std HashMap<K, VecDeque<V>> by its map view
#[verifier::external_body]
#[verifier::reject_recursive_types(K)]
#[verifier::reject_recursive_types(V)]
struct KMap<K, V> { _p: core::marker::PhantomData<(K, V)> }
impl<K, V> KMap<K, V> {
    uninterp spec fn view(&self) -> Map<K, Seq<V>>;
    #[verifier::external_body]
    fn get_mut(&mut self, k: &K) -> (r: Option<&mut VecDeque<V>>)
        ensures
            !old(self)@.contains_key(*k) ==> r is None && final(self)@ == old(self)@,
            old(self)@.contains_key(*k) ==> r is Some && r->0@ == old(self)@[*k] && final(self)@ == old(self)@.insert(*k, final(r->0)@),
    { unimplemented!() }
    #[verifier::external_body]
    fn entry_or_default(&mut self, k: K) -> (r: &mut VecDeque<V>)
        ensures r@ == (if old(self)@.contains_key(k) { old(self)@[k] } else { Seq::<V>::empty() }),
                final(self)@ == old(self)@.insert(k, final(r)@),
    { unimplemented!() }
    #[verifier::external_body]
    fn clear(&mut self) ensures final(self)@ =~= Map::<K, Seq<V>>::empty() { unimplemented!() }
    #[verifier::external_body]
    fn is_empty(&self) -> (r: bool) ensures r == (self@.dom() =~= Set::<K>::empty()) { unimplemented!() }
}
spec fn tmax(a: Timestamp, b: Timestamp) -> Timestamp { if a >= b { a } else { b } }
// b is what remains of a after removing elements from its front
spec fn is_suffix<T>(b: Seq<T>, a: Seq<T>) -> bool { b.len() <= a.len() && b == a.skip(a.len() - b.len()) }
spec fn sorted_ts<T>(s: Seq<(Timestamp, T)>) -> bool { forall|i: int, j: int| 0 <= i < j < s.len() ==> (#[trigger] s[i]).0 <= (#[trigger] s[j]).0 }
proof fn lemma_suffix_sorted<T>(b: Seq<(Timestamp, T)>, a: Seq<(Timestamp, T)>)
    requires is_suffix(b, a), sorted_ts(a)
    ensures sorted_ts(b), b.len() > 0 ==> b.last() == a.last()
{
    let d = a.len() - b.len();
    assert forall|i: int, j: int| 0 <= i < j < b.len() implies (#[trigger] b[i]).0 <= (#[trigger] b[j]).0 by { assert(b[i] == a[d + i]); assert(b[j] == a[d + j]); }
}
'''
SPEC_IMPL = r'''
impl<Key, Out, Out2, OperatorChain> IntervalJoin<Key, Out, Out2, OperatorChain>
where
    Key: ExchangeDataKey,
    Out: ExchangeData,
    Out2: ExchangeData,
    OperatorChain: Operator<Out = (Key, MergeElement<Out, Out2>)>,
{
    // the tuple pairs a left element with a right element stored under the same key, inside the interval, stamped with the max
    spec fn pair_ok(t: (Timestamp, (Key, (Out, Out2))), l0: Seq<(Timestamp, (Key, Out))>, r0: Map<Key, Seq<(Timestamp, Out2)>>, lb: Timestamp, ub: Timestamp) -> bool {
        exists|i: int, j: int| 0 <= i < l0.len() && r0.contains_key(t.1.0) && 0 <= j < r0[t.1.0].len()
            && #[trigger] l0[i] == (l0[i].0, (t.1.0, t.1.1.0)) && (#[trigger] r0[t.1.0][j]).1 == t.1.1.1
            && l0[i].0 - lb <= r0[t.1.0][j].0 <= l0[i].0 + ub
            && t.0 == tmax(r0[t.1.0][j].0, l0[i].0)
    }
    spec fn tuples_ok(buf: Seq<(Timestamp, (Key, (Out, Out2)))>, from: int, l0: Seq<(Timestamp, (Key, Out))>, r0: Map<Key, Seq<(Timestamp, Out2)>>, lb: Timestamp, ub: Timestamp) -> bool {
        forall|t: int| from <= t < buf.len() ==> Self::pair_ok(#[trigger] buf[t], l0, r0, lb, ub)
    }
    // every key's right queue is what remains of its initial queue
    spec fn right_ok(r: Map<Key, Seq<(Timestamp, Out2)>>, r0: Map<Key, Seq<(Timestamp, Out2)>>) -> bool {
        r.dom() =~= r0.dom() && forall|k: Key| r0.contains_key(k) ==> is_suffix(#[trigger] r[k], r0[k])
    }
    spec fn bounds_ok(&self) -> bool { self.lower_bound >= 0 && self.upper_bound >= 0 }
    // every key's right queue is in timestamp order and not ahead of the last timestamp seen (R-PROTO: arrival in timestamp order)
    spec fn right_sorted(r: Map<Key, Seq<(Timestamp, Out2)>>, last: Timestamp) -> bool {
        forall|k: Key| r.contains_key(k) ==> sorted_ts(#[trigger] r[k]) && (r[k].len() > 0 ==> r[k].last().0 <= last)
    }
    // between two calls: sorted right queues; once the end of the iteration was seen both sides are empty
    spec fn inv(&self) -> bool {
        &&& self.bounds_ok()
        &&& Self::right_sorted(self.right@, self.last_seen)
        &&& (self.received_restart ==> self.left@.len() == 0 && self.right@.dom() =~= Set::<Key>::empty())
    }
    // the constructor state (apart from prev and the bounds)
    spec fn fresh(&self) -> bool {
        self.left@.len() == 0 && self.right@.dom() =~= Set::<Key>::empty() && self.buffer@.len() == 0 && self.last_seen == 0 && !self.received_restart
    }
}
'''
ADVANCE_SPEC = r'''
        requires old(self).bounds_ok(), Self::right_sorted(old(self).right@, old(self).last_seen),
        ensures
            Self::right_sorted(final(self).right@, final(self).last_seen),
            final(self).prev == old(self).prev, final(self).lower_bound == old(self).lower_bound, final(self).upper_bound == old(self).upper_bound,
            final(self).last_seen == old(self).last_seen, final(self).received_restart == old(self).received_restart,
            is_suffix(final(self).left@, old(self).left@),                                                       // #obl:interval_join.left_consumed_from_the_front_only
            final(self).buffer@.len() >= old(self).buffer@.len() && final(self).buffer@.take(old(self).buffer@.len() as int) == old(self).buffer@,   // #obl:interval_join.tuples_only_appended
            Self::tuples_ok(final(self).buffer@, old(self).buffer@.len() as int, old(self).left@, old(self).right@, old(self).lower_bound, old(self).upper_bound),   // #obl:interval_join.every_tuple_pairs_same_key_elements_inside_the_interval
            old(self).received_restart ==> final(self).left@.len() == 0 && final(self).right@.dom() =~= Set::<Key>::empty(),   // #obl:interval_join.both_sides_emptied_at_the_end_of_the_iteration
            !old(self).received_restart ==> Self::right_ok(final(self).right@, old(self).right@),                // #obl:interval_join.right_queues_consumed_from_the_front_only
'''
NEXT_SPEC = r'''
        requires old(self).inv(),
        ensures
            final(self).inv(),
            final(self).lower_bound == old(self).lower_bound, final(self).upper_bound == old(self).upper_bound,
            r is FlushAndRestart ==> final(self).fresh(),                                                        // #obl:interval_join.nothing_carried_over_into_the_next_iteration
            !(r is Item) && !(r is Watermark),
'''


def while_let_to_loop(fr, header_rx, tag):
    m = re.search(header_rx, fr.text)
    if not m:
        raise ScanError(f"{fr.what}: while-let `{header_rx}` not found")
    s = fr._src()
    ob = fr.text.index('{', m.end() - 1)
    cb = s.match_close(ob)
    body = fr.text[ob + 1:cb]
    return m, ob, cb, body


def build(x):
    pieces = [S.CLONE_IS_EQ, PRELUDE, S.RUST_PANIC, S.VECDEQUE_FRONT, S.VECDEQUE_IS_EMPTY, x.enum(FO, 'StreamElement'), x.enum(FM, 'MergeElement')]
    st = x.struct(F, 'IntervalJoin')
    st.sub('V-SUBST', r'HashMap<Key, VecDeque<\(Timestamp, Out2\)>, crate::block::GroupHasherBuilder>', 'KMap<Key, (Timestamp, Out2)>', detail='std HashMap<K, VecDeque<V>, GroupHasherBuilder> -> map-view model KMap<K, V>', must=True)
    st.text = ''.join(f'#[verifier::reject_recursive_types({t})]\n' for t in ('Key', 'Out', 'Out2', 'OperatorChain')) + st.text
    pieces += [st, SPEC_IMPL]
    HDR = ("impl<Key, Out, Out2, OperatorChain> IntervalJoin<Key, Out, Out2, OperatorChain>\nwhere\n    Key: ExchangeDataKey,\n    Out: ExchangeData,\n    Out2: ExchangeData,\n"
           "    OperatorChain: Operator<Out = (Key, MergeElement<Out, Out2>)>,\n{")
    FRAME = ("self.prev == old(self).prev, self.lower_bound == old(self).lower_bound, self.upper_bound == old(self).upper_bound, self.last_seen == old(self).last_seen, "
             "self.received_restart == old(self).received_restart, self.lower_bound >= 0 && self.upper_bound >= 0")
    BUF = ("self.buffer@.len() >= B0.len() && self.buffer@.take(B0.len() as int) == B0, Self::tuples_ok(self.buffer@, B0.len() as int, L0, R0, self.lower_bound, self.upper_bound)")

    adv = x.method(F, 'IntervalJoin', 'advance')
    adv.add_spec(ADVANCE_SPEC)
    adv.text = '#[verifier::exec_allows_no_decreases_clause]\n' + adv.text
    m0 = re.search(r'while let Some\(\((?P<ts>\w+), \((?P<k>\w+), (?P<v>\w+)\)\)\) = self\.left\.front\(\) ', adv.text)
    ml = re.search(r'let (\w+)(?:\s*:[^=;]*)? = \w+\s*\.checked_sub\(', adv.text)
    mu = re.search(r'let (\w+)(?:\s*:[^=;]*)? = \w+\s*\.checked_add\(', adv.text)
    if not (m0 and ml and mu):
        raise ScanError('interval_join: the left-queue loop / the lower and upper bounds were not found')
    N = dict(left_ts=m0.group('ts'), lkey=m0.group('k'), lvalue=m0.group('v'), lower=ml.group(1), upper=mu.group(1))
    def nm(t):
        return re.sub(r'§(\w+)§', lambda mm: N[mm.group(1)], t)
    # inner while-let over right.front()  (must be rewritten before the outer one: it is nested in it)
    m, ob, cb, body = while_let_to_loop(adv, r'while let Some\(\((?P<a>\w+), _\)\) = (?P<q>\w+)\.front\(\) ', 'inner')
    a, q = m.group('a'), m.group('q')
    adv.text = (adv.text[:m.start()] + f"loop\n                    invariant is_suffix({q}@, __rk0), {FRAME.replace('self.prev == old(self).prev, ', '')},\n                    ensures is_suffix({q}@, __rk0), {q}@.len() > 0 ==> {q}@[0].0 >= {N['lower']},\n"
                f"                {{ match {q}.front() {{ Some(__rf) => {{ let {a} = &__rf.0; let ghost __q0 = {q}@;{body} proof {{ assert(is_suffix({q}@, __rk0)) by {{ if {q}@.len() < __q0.len() {{ assert({q}@ =~= __q0.skip(1)); assert(__q0.skip(1) =~= __rk0.skip(__rk0.len() - {q}@.len())); }} }} }} }} None => {{ break; }} }} }};" + adv.text[cb + 1:])
    adv.note('V-ITER', 1, '`while let Some((a, _)) = Q.front() { B }` -> `loop { match Q.front() { Some(f) => { let a = &f.0; B } None => break } }` (B verbatim)')
    # the take_while/map/extend chain
    rx = re.compile(r'let (?P<m>\w+) = (?P<q>\w+)\s*\.iter\(\)\s*\.take_while\(\|\((?P<a>\w+), _\)\| (?P<p>[^)]*?)\)\s*\.map\(\|\((?P<a2>\w+), (?P<b>\w+)\)\| \{(?P<e>.*?)\n\s*\}\);\s*(?://[^\n]*\n\s*)*(?P<dst>self\.\w+)\.extend\((?P=m)\);', re.S)
    mm = rx.search(adv.text)
    if not mm:
        raise ScanError('interval_join: the take_while/map/extend chain was not found')
    q, a, p, a2, b, e, dst = mm.group('q'), mm.group('a'), mm.group('p'), mm.group('a2'), mm.group('b'), mm.group('e'), mm.group('dst')
    adv.text = (adv.text[:mm.start()] + f"""{{ let mut __t: usize = 0; let ghost __rq = {q}@; proof {{ lemma_suffix_sorted(__rq, __rk0); }}
                loop
                    invariant __t <= {q}@.len(), {q}@ == __rq, is_suffix(__rq, __rk0), self.left@ == __lq, {FRAME},
                        __lq.len() > 0 && __lq[0] == (*{N['left_ts']}, (*{N['lkey']}, *{N['lvalue']})) && is_suffix(__lq, L0), R0.contains_key(*{N['lkey']}) && __rk0 == R0[*{N['lkey']}],
                        sorted_ts(__rq), __rq.len() > 0 ==> __rq[0].0 >= {N['lower']}, {N['lower']} >= *{N['left_ts']} - self.lower_bound, {N['upper']} <= *{N['left_ts']} + self.upper_bound,
                        {BUF},
                {{ if __t >= {q}.len() {{ break; }} let __p = &{q}[__t]; let {a} = &__p.0; if !({p}) {{ break; }} let {a2} = &__p.0; let {b} = &__p.1;
                    let __x = {{{e}
                    }}; {dst}.push_back(__x); __t += 1;
                    proof {{ assert(self.buffer@.take(B0.len() as int) =~= B0);
                        let jj = __rk0.len() - __rq.len() + (__t - 1); let ii = L0.len() - __lq.len();
                        assert(__rq[__t - 1] == __rk0[jj]); assert(__lq[0] == L0[ii]); assert(__rq[0].0 <= __rq[__t - 1].0 || __t == 1);
                        assert(L0[ii] == (L0[ii].0, (__x.1.0, __x.1.1.0)));                         // #obl:interval_join.a_pair_carries_the_current_left_element_and_its_key
                        assert(R0[__x.1.0][jj].1 == __x.1.1.1);                                     // #obl:interval_join.a_pair_carries_a_right_element_stored_under_the_same_key
                        assert(L0[ii].0 - self.lower_bound <= R0[__x.1.0][jj].0 <= L0[ii].0 + self.upper_bound);   // #obl:interval_join.a_pair_lies_inside_the_interval
                        assert(__x.0 == tmax(R0[__x.1.0][jj].0, L0[ii].0));                          // #obl:interval_join.a_pair_is_stamped_with_the_max_timestamp
                        assert(Self::pair_ok(__x, L0, R0, self.lower_bound, self.upper_bound)); }} }} }};""" + adv.text[mm.end():])
    adv.note('V-ITER', 1, '`let m = Q.iter().take_while(|(a, _)| P).map(|(a, b)| { E }); D.extend(m);` -> loop from the first element while P holds, pushing E (P, E verbatim)')
    # outer while-let over self.left.front()
    m, ob, cb, body = while_let_to_loop(adv, r'while let Some\(\((?P<ts>\w+), \((?P<k>\w+), (?P<v>\w+)\)\)\) = self\.left\.front\(\) ', 'outer')
    ts, k, v = m.group('ts'), m.group('k'), m.group('v')
    adv.text = (adv.text[:m.start()] + f"""loop
            invariant {FRAME}, is_suffix(self.left@, L0), Self::right_ok(self.right@, R0), Self::right_sorted(R0, old(self).last_seen),
                {BUF},
            ensures {FRAME}, is_suffix(self.left@, L0), Self::right_ok(self.right@, R0), Self::right_sorted(R0, old(self).last_seen), {BUF},
                self.received_restart ==> self.left@.len() == 0,
        {{ match self.left.front() {{ Some(__lf) => {{ let {ts} = &__lf.0; let {k} = &(__lf.1).0; let {v} = &(__lf.1).1;
            let ghost __lq = self.left@; let ghost __rall = self.right@;
            let ghost __rk0 = if R0.contains_key(*{k}) {{ R0[*{k}] }} else {{ Seq::empty() }};
            proof {{ assert(__lq[0] == (*{ts}, (*{k}, *{v}))); }}{body}
            proof {{ assert(self.left@ =~= __lq.skip(1));   // #obl:interval_join.exactly_the_processed_left_element_is_removed\n assert(__lq.skip(1) =~= L0.skip(L0.len() - self.left@.len())); }} }} None => {{ break; }} }} }};""" + adv.text[cb + 1:])
    adv.note('V-ITER', 1, '`while let Some((ts, (k, v))) = self.left.front() { B }` -> `loop { match self.left.front() { Some(f) => { let ts = &f.0; let k = &(f.1).0; let v = &(f.1).1; B } None => break } }` (B verbatim)')
    adv.sub('V-SPEC', r'if let Some\((\w+)\) = self\.right\.get_mut\((\w+)\) \{', r'if let Some(\1) = self.right.get_mut(\2) { proof { assert(__rall.contains_key(*\2)); assert(R0.contains_key(*\2)); assert(is_suffix(\1@, __rk0)); lemma_suffix_sorted(\1@, __rk0); }', detail='proof hint after get_mut')
    src = adv.text
    last = src.rstrip().rfind('}')
    adv.text = src[:last] + '''        proof {
            assert forall|k: Key| self.right@.contains_key(k) implies sorted_ts(#[trigger] self.right@[k]) && (self.right@[k].len() > 0 ==> self.right@[k].last().0 <= self.last_seen) by {
                if !old(self).received_restart { assert(R0.contains_key(k)); lemma_suffix_sorted(self.right@[k], R0[k]); }
            }
        }
    ''' + src[last:]
    adv.insert_at_body_start("\n        let ghost L0 = self.left@; let ghost R0 = self.right@; let ghost B0 = self.buffer@;\n        proof { assert(L0.skip(0) =~= L0); assert(B0.take(B0.len() as int) =~= B0); assert forall|k: Key| R0.contains_key(k) implies is_suffix(#[trigger] R0[k], R0[k]) by { assert(R0[k].skip(0) =~= R0[k]); } }")

    nx = x.method(F, 'IntervalJoin', 'next', trait='Operator')
    nx.sub('V-SUBST', r'assert!\(ts >= self\.last_seen\);', '{ let __c: bool = ts >= self.last_seen; if !__c { panic_no_return(); } }', detail='assert!(ts >= self.last_seen): R-PROTO (input in timestamp order); a violated assertion panics and does not return', must=True)
    nx.desugar_assert()
    nx.sub('V-ASSERT', r'panic!\("Interval Join only supports timestamped streams"\)', 'panic_no_return_val()', detail='panic!(..) on an untimestamped element -> panic_no_return (R-PROTO)', must=True)
    nx.sub('V-SUBST', r'self\.right\.entry\((\w+)\)\.or_default\(\)', r'self.right.entry_or_default(\1)', detail='`.entry(k).or_default()` -> entry_or_default(k)', must=True)
    nx.sub('V-SUBST', r'Default::default\(\)', '0', detail='`Default::default()` of Timestamp (i64) is 0')
    nx.insert_before(re.compile(r'\{ let __c: bool = ts >= self\.last_seen;'), 'let ghost __ls0 = self.last_seen; let ghost __r0 = self.right@;\n                    ', nth=1)
    nx.insert_before(re.compile(r'\{ let __c: bool = ts >= self\.last_seen;'), 'let ghost __ls0 = self.last_seen;\n                    ', nth=2)
    nx.sub('V-SPEC', r'self\.right\.entry_or_default\((\w+)\)\.push_back\(\((\w+), (\w+)\)\)', r'''{ let ghost __k = \1; let ghost __e = (\2, \3); self.right.entry_or_default(\1).push_back((\2, \3));
                            proof { let q0 = if __r0.contains_key(__k) { __r0[__k] } else { Seq::empty() };
                                assert(self.right@ == __r0.insert(__k, q0.push(__e)));   // #obl:interval_join.right_element_queued_at_the_back_of_its_keys_queue_with_its_timestamp
                                assert forall|k: Key| self.right@.contains_key(k) implies sorted_ts(#[trigger] self.right@[k]) && (self.right@[k].len() > 0 ==> self.right@[k].last().0 <= self.last_seen) by {
                                    if k == __k { let q = q0.push(__e); assert forall|i: int, j: int| 0 <= i < j < q.len() implies (#[trigger] q[i]).0 <= (#[trigger] q[j]).0 by { if j == q0.len() { assert(q0[i].0 <= q0.last().0 || i == q0.len() - 1); } } }
                                    else { assert(self.right@[k] == __r0[k]); }
                                } } }''', detail='ghost names and a proof block around the push onto the key\'s right queue')
    nx.sub('V-SPEC', r'MergeElement::Left\((\w+)\) => self\.left\.(\w+)\(\((\w+), \((\w+), \1\)\)\),', r'''MergeElement::Left(\1) => { let ghost __l0 = self.left@; let ghost __e = (\3, (\4, \1)); self.left.\2((\3, (\4, \1)));
                            proof { assert(self.left@ == __l0.push(__e)); }   // #obl:interval_join.left_element_queued_at_the_back_with_its_timestamp
                        }''', detail='ghost names and the queueing obligation around the push onto the left queue (call text verbatim)', must=True)
    nx.name_result('r')
    nx.add_spec(NEXT_SPEC)
    nx.text = '#[verifier::exec_allows_no_decreases_clause]\n' + nx.text
    nx.add_loop_spec(1, r'''
            invariant self.lower_bound == old(self).lower_bound, self.upper_bound == old(self).upper_bound, self.inv(),
''')
    pieces += [HDR, adv, nx, "}"]
    return pieces
