"""C08 / C05 (NARROWED: the inner keyed-stream join) — JoinKeyedInner::{process_item, next} (src/operator/join/keyed_join.rs).
process_item: an arriving left element (k, v1) is paired, in order, with EVERY right element stored under k and then stored
under k itself (symmetrically for the right side): every same-key pair is therefore emitted exactly once, when the later of its
two elements arrives, whatever the interleaving; the store that is only needed for arrivals of the OTHER side is dropped when
that other side ends, both stores are empty once both sides have ended.  next: elements go to process_item, the oldest buffered
pair is served first, at FlushAndRestart both stores are empty (the real asserts are proved) and the flags are reset."""
import os, re, sys
sys.path.insert(0, os.path.dirname(os.path.dirname(__file__)))
import std_specs as S
from engine.rsx import ScanError

PROPERTIES = ["C08", "C05"]
MIN_VERIFIED = 2
F = 'src/operator/join/keyed_join.rs'
FO = 'src/operator/mod.rs'
FBIN = 'src/operator/start/binary.rs'
FN = 'src/network/mod.rs'
ASSUMPTIONS = [
    "JoinKeyedOuter::process_item: the element arms are under a full contract; for the end arms only the dropped stores / key sets and `tuples are only appended` are decided, not WHICH unmatched elements are padded (HashMap::drain in an arbitrary order: the per-key argument of unit hash_join was not ported); JoinKeyedOuter::next is not under contract; the per-side counters (logging only) stay below 2^64 (precondition)",
    "std HashMap<K, Vec<V>, CoordHasherBuilder> by its map view (KMap): get, `.entry(k).or_default()` -> entry_or_default(k), clear, is_empty; Key equality is spec equality; Clone yields an equal value",
    "V-ITER: `for x in v { S }` over a `&Vec` -> index loop (S verbatim)",
    "R-PROTO-BIN (environment): the two-input start delivers no timestamped elements (the operator panics on them by design), elements of a side only before that side's end marker, FlushAndRestart only after both end markers (then both stores are empty: the asserts at FlushAndRestart are proved under the invariant `a store is empty once it is not needed`)",
    "the whole-history statement (every same-key pair exactly once for every interleaving) follows from the per-call relation by the induction proved as lemma_inner_history in unit hash_join for the same relation; it is not re-proved here",
    "prev.next() returns any element (model trait Operator); termination of next() is not verified",
]
PRELUDE = r'''
use std::collections::VecDeque;
use std::marker::PhantomData;
type BlockId = u64; type HostId = u64; type ReplicaId = u64; type Timestamp = i64;
type InnerJoinTuple<Out1, Out2> = (Out1, Out2);
type BinaryTuple<K, V1, V2> = BinaryElement<(K, V1), (K, V2)>;
trait Data: Clone + Send + 'static {}
trait ExchangeData: Data {}
trait DataKey: Data {}
broadcast use trusted_axioms::axiom_data_clone;
// the two-input start that feeds the join (model: any element; R-PROTO-BIN as preconditions of next)
#[verifier::external_body]
#[verifier::reject_recursive_types(A)]
#[verifier::reject_recursive_types(B)]
struct BinaryStartOperator<A, B> { _p: core::marker::PhantomData<(A, B)> }
impl<A, B> BinaryStartOperator<A, B> {
    uninterp spec fn hist(&self) -> Seq<StreamElement<BinaryElement<A, B>>>;
    #[verifier::external_body]
    fn next(&mut self) -> (r: StreamElement<BinaryElement<A, B>>)
        ensures final(self).hist() == old(self).hist().push(r)
    { unimplemented!() }
}
#[verifier::external_body]
fn panic_no_return() ensures false { unimplemented!() }
#[verifier::external_body]
fn panic_no_return_val<T>() -> T ensures false { unimplemented!() }
#[verifier::external_body]
#[verifier::reject_recursive_types(K)]
#[verifier::accept_recursive_types(V)]
struct KMap<K, V> { _p: core::marker::PhantomData<(K, V)> }
impl<K, V> KMap<K, V> {
    uninterp spec fn view(&self) -> Map<K, Seq<V>>;
    #[verifier::external_body]
    fn get(&self, k: &K) -> (r: Option<&Vec<V>>)
        ensures (r matches Some(v) ==> self@.contains_key(*k) && v@ == self@[*k]), (r is None ==> !self@.contains_key(*k)),
    { unimplemented!() }
    #[verifier::external_body]
    fn entry_or_default(&mut self, k: K) -> (r: &mut Vec<V>)
        ensures r@ == (if old(self)@.contains_key(k) { old(self)@[k] } else { Seq::<V>::empty() }),
                final(self)@ == old(self)@.insert(k, final(r)@),
    { unimplemented!() }
    #[verifier::external_body]
    fn clear(&mut self) ensures final(self)@ =~= Map::<K, Seq<V>>::empty() { unimplemented!() }
    #[verifier::external_body]
    fn is_empty(&self) -> (r: bool) ensures r == (self@.dom() =~= Set::<K>::empty()) { unimplemented!() }
}
#[verifier::external_body]
#[verifier::reject_recursive_types(K)]
struct KSet<K> { _p: core::marker::PhantomData<K> }
impl<K> KSet<K> {
    uninterp spec fn view(&self) -> Set<K>;
    #[verifier::external_body]
    fn insert(&mut self, k: K) -> (r: bool) ensures final(self)@ == old(self)@.insert(k) { unimplemented!() }
    #[verifier::external_body]
    fn contains(&self, k: &K) -> (r: bool) ensures r == self@.contains(*k) { unimplemented!() }
    #[verifier::external_body]
    fn clear(&mut self) ensures final(self)@ =~= Set::<K>::empty() { unimplemented!() }
}
impl<K, V> KMap<K, V> {
    // HashMap::drain(): every entry once, in an arbitrary order; the map is left empty
    #[verifier::external_body]
    fn drain_all(&mut self) -> (r: Vec<(K, Vec<V>)>)
        ensures final(self)@ =~= Map::<K, Seq<V>>::empty()
    { unimplemented!() }
}
type OuterJoinTuple<Out1, Out2> = (Option<Out1>, Option<Out2>);
spec fn opairs_l<K, V1, V2>(k: K, v1: V1, rs: Seq<V2>) -> Seq<(K, (Option<V1>, Option<V2>))> { Seq::new(rs.len(), |i: int| (k, (Some(v1), Some(rs[i])))) }
spec fn opairs_r<K, V1, V2>(k: K, ls: Seq<V1>, v2: V2) -> Seq<(K, (Option<V1>, Option<V2>))> { Seq::new(ls.len(), |i: int| (k, (Some(ls[i]), Some(v2)))) }
spec fn at<K, V>(m: Map<K, Seq<V>>, k: K) -> Seq<V> { if m.contains_key(k) { m[k] } else { Seq::empty() } }
// the pairs of a new left element with the stored right elements, in order / of the stored left elements with a new right one
spec fn pairs_l<K, V1, V2>(k: K, v1: V1, rs: Seq<V2>) -> Seq<(K, (V1, V2))> { Seq::new(rs.len(), |i: int| (k, (v1, rs[i]))) }
spec fn pairs_r<K, V1, V2>(k: K, ls: Seq<V1>, v2: V2) -> Seq<(K, (V1, V2))> { Seq::new(ls.len(), |i: int| (k, (ls[i], v2))) }
'''
SPEC_IMPL = r'''
impl<K: DataKey + ExchangeData, V1: ExchangeData, V2: ExchangeData> JoinKeyedInner<K, V1, V2> {
    // a store is only kept while the OTHER side can still deliver; once both ended both are empty
    spec fn inv(&self) -> bool {
        self.left_ended && self.right_ended ==> self.left@.dom() =~= Set::<K>::empty() && self.right@.dom() =~= Set::<K>::empty()
    }
    // R-PROTO-BIN: what the two-input start may deliver in the current state
    spec fn proto_ok(&self, e: StreamElement<BinaryElement<(K, V1), (K, V2)>>) -> bool {
        match e {
            StreamElement::Item(BinaryElement::Left(_)) => !self.left_ended,
            StreamElement::Item(BinaryElement::LeftEnd) => !self.left_ended,
            StreamElement::Item(BinaryElement::Right(_)) => !self.right_ended,
            StreamElement::Item(BinaryElement::RightEnd) => !self.right_ended,
            StreamElement::FlushAndRestart => self.left_ended && self.right_ended,
            _ => true,
        }
    }
}
'''
OUTER_SPEC = r'''
        requires old(self).left.count < usize::MAX, old(self).right.count < usize::MAX,
        ensures
            final(self).prev == old(self).prev, final(self).coord == old(self).coord, final(self).variant == old(self).variant,
            (item matches BinaryElement::Left((k, v1)) ==> {
                let lo = old(self).variant is Left || old(self).variant is Outer; let ro = old(self).variant is Outer;
                &&& final(self).buffer@ == old(self).buffer@ + (if old(self).right.data@.contains_key(k) { opairs_l(k, v1, old(self).right.data@[k]) }
                        else if old(self).right.ended && lo { seq![(k, (Some(v1), None::<V2>))] } else { Seq::empty() })           // #obl:keyed_outer.left_element_paired_with_every_stored_right_element_or_padded_once
                &&& final(self).left.keys@ == (if ro { old(self).left.keys@.insert(k) } else { old(self).left.keys@ })             // #obl:keyed_outer.left_key_recorded_whenever_the_right_side_is_outer
                &&& final(self).left.data@ == (if !old(self).right.ended { old(self).left.data@.insert(k, at(old(self).left.data@, k).push(v1)) } else { old(self).left.data@ })   // #obl:keyed_outer.left_element_stored_while_the_right_side_is_open
                &&& final(self).right == old(self).right && final(self).left.ended == old(self).left.ended
            }),
            (item matches BinaryElement::Right((k, v2)) ==> {
                let lo = old(self).variant is Left || old(self).variant is Outer; let ro = old(self).variant is Outer;
                &&& final(self).buffer@ == old(self).buffer@ + (if old(self).left.data@.contains_key(k) { opairs_r(k, old(self).left.data@[k], v2) }
                        else if old(self).left.ended && ro { seq![(k, (None::<V1>, Some(v2)))] } else { Seq::empty() })           // #obl:keyed_outer.right_element_paired_with_every_stored_left_element_or_padded_once
                &&& final(self).right.keys@ == (if lo { old(self).right.keys@.insert(k) } else { old(self).right.keys@ })           // #obl:keyed_outer.right_key_recorded_whenever_the_left_side_is_outer
                &&& final(self).right.data@ == (if !old(self).left.ended { old(self).right.data@.insert(k, at(old(self).right.data@, k).push(v2)) } else { old(self).right.data@ })   // #obl:keyed_outer.right_element_stored_while_the_left_side_is_open
                &&& final(self).left == old(self).left && final(self).right.ended == old(self).right.ended
            }),
            (item is LeftEnd ==> final(self).left.ended && final(self).left.keys@ =~= Set::<K>::empty() && final(self).right.data@ =~= Map::<K, Seq<V2>>::empty()   // #obl:keyed_outer.left_end_drops_the_right_store_and_the_left_keys
                && final(self).right.ended == old(self).right.ended && final(self).left.data@ == old(self).left.data@ && final(self).right.keys@ == old(self).right.keys@
                && final(self).buffer@.len() >= old(self).buffer@.len() && final(self).buffer@.take(old(self).buffer@.len() as int) == old(self).buffer@),
            (item is RightEnd ==> final(self).right.ended && final(self).right.keys@ =~= Set::<K>::empty() && final(self).left.data@ =~= Map::<K, Seq<V1>>::empty()   // #obl:keyed_outer.right_end_drops_the_left_store_and_the_right_keys
                && final(self).left.ended == old(self).left.ended && final(self).right.data@ == old(self).right.data@ && final(self).left.keys@ == old(self).left.keys@
                && final(self).buffer@.len() >= old(self).buffer@.len() && final(self).buffer@.take(old(self).buffer@.len() as int) == old(self).buffer@),
'''
PROCESS_SPEC = r'''
        ensures
            final(self).prev == old(self).prev, final(self).coord == old(self).coord,
            (item matches BinaryElement::Left((k, v1)) ==> {
                &&& final(self).buffer@ == old(self).buffer@ + pairs_l(k, v1, at(old(self).right@, k))            // #obl:keyed_join.left_element_paired_in_order_with_every_stored_right_element_of_its_key
                &&& final(self).left@ == old(self).left@.insert(k, at(old(self).left@, k).push(v1))               // #obl:keyed_join.left_element_stored_under_its_key
                &&& final(self).right@ == old(self).right@ && final(self).left_ended == old(self).left_ended && final(self).right_ended == old(self).right_ended
            }),
            (item matches BinaryElement::Right((k, v2)) ==> {
                &&& final(self).buffer@ == old(self).buffer@ + pairs_r(k, at(old(self).left@, k), v2)             // #obl:keyed_join.right_element_paired_in_order_with_every_stored_left_element_of_its_key
                &&& final(self).right@ == old(self).right@.insert(k, at(old(self).right@, k).push(v2))            // #obl:keyed_join.right_element_stored_under_its_key
                &&& final(self).left@ == old(self).left@ && final(self).left_ended == old(self).left_ended && final(self).right_ended == old(self).right_ended
            }),
            (item is LeftEnd ==> final(self).left_ended && final(self).right_ended == old(self).right_ended && final(self).buffer@ == old(self).buffer@
                && final(self).right@.dom() =~= Set::<K>::empty()                                                 // #obl:keyed_join.right_store_dropped_when_the_left_side_ends
                && (if old(self).right_ended { final(self).left@.dom() =~= Set::<K>::empty() } else { final(self).left@ == old(self).left@ })),
            (item is RightEnd ==> final(self).right_ended && final(self).left_ended == old(self).left_ended && final(self).buffer@ == old(self).buffer@
                && final(self).left@.dom() =~= Set::<K>::empty()                                                  // #obl:keyed_join.left_store_dropped_when_the_right_side_ends
                && (if old(self).left_ended { final(self).right@.dom() =~= Set::<K>::empty() } else { final(self).right@ == old(self).right@ })),
'''
NEXT_SPEC = r'''
        requires old(self).inv(),
        ensures
            final(self).inv(),
            r is FlushAndRestart ==> !final(self).left_ended && !final(self).right_ended && final(self).buffer@.len() == 0
                && final(self).left@.dom() =~= Set::<K>::empty() && final(self).right@.dom() =~= Set::<K>::empty(),   // #obl:keyed_join.nothing_carried_over_into_the_next_iteration
            !(r is Timestamped) && !(r is Watermark),
'''


def for_over_ref_vec(fr, nth, inv):
    """V-ITER: `for x in v { S }` (v: &Vec) -> index loop (S verbatim)."""
    s = fr._src()
    ms = [m for m in re.finditer(r'for (?P<x>\w+) in (?P<v>\w+) \{', fr.text) if s.mask[m.start()]]
    if len(ms) < nth:
        raise ScanError(f"{fr.what}: for-loop #{nth} over a &Vec not found")
    m = ms[nth - 1]
    ob = m.end() - 1
    cb = s.match_close(ob)
    body = fr.text[ob + 1:cb]
    xx, v = m.group('x'), m.group('v')
    new = (f"{{ let mut __i: usize = 0; let ghost __b0 = self.buffer@;\n                        while __i < {v}.len()\n                            invariant {inv.format(v=v)}   // #obl:keyed_join.one_pair_per_stored_element_appended_in_order\n                            decreases {v}@.len() - __i,\n"
           f"                        {{ let {xx} = &{v}[__i];{body} __i += 1; /*@pair_pushed*/ }} }}")
    fr.text = fr.text[:m.start()] + new + fr.text[cb + 1:]
    fr.note('V-ITER', 1, '`for x in v { S }` over a `&Vec` -> `let mut i = 0; while i < v.len() { let x = &v[i]; S; i += 1; }` (S verbatim)')


def build(x):
    pieces = [S.CLONE_IS_EQ, PRELUDE, S.RUST_PANIC, S.VECDEQUE_IS_EMPTY, x.enum(FO, 'StreamElement')]
    be = x.enum(FBIN, 'BinaryElement')
    be.sub('V-SUBST', r'BinaryElement<OutL: Data, OutR: Data>', 'BinaryElement<OutL, OutR>', detail='trait bounds on the type parameters of the enum dropped (Verus cannot resolve `(K, V): Clone` for the tuple instance)', must=True)
    pieces.append(be)
    c = x.struct(FN, 'Coord'); c.text = '#[derive(Clone, Copy)]\n' + c.text
    st = x.struct(F, 'JoinKeyedInner')
    st.sub('V-SUBST', r'HashMap<K, Vec<(V[12])>, crate::block::CoordHasherBuilder>', r'KMap<K, \1>', detail='std HashMap<K, Vec<V>, CoordHasherBuilder> -> map-view model KMap<K, V>', must=True)
    st.text = ''.join(f'#[verifier::reject_recursive_types({t})]\n' for t in ('K', 'V1', 'V2')) + st.text
    pieces += [c, st, SPEC_IMPL]
    pi = x.method(F, 'JoinKeyedInner', 'process_item')
    pi.add_spec(PROCESS_SPEC)
    pi.sub('V-SUBST', r'self\.(left|right)\.entry\((\w+)\)\.or_default\(\)', r'self.\1.entry_or_default(\2)', detail='`.entry(k).or_default()` -> entry_or_default(k)', must=True)
    INV_L = ("__i <= {v}@.len(), {v}@ == at(self.right@, §key§), self.buffer@ == __b0 + pairs_l(§key§, §v1§, {v}@.take(__i as int)), self.left@ == old(self).left@, self.right@ == old(self).right@, "
             "self.left_ended == old(self).left_ended, self.right_ended == old(self).right_ended, self.prev == old(self).prev, self.coord == old(self).coord,")
    INV_R = ("__i <= {v}@.len(), {v}@ == at(self.left@, §key§), self.buffer@ == __b0 + pairs_r(§key§, {v}@.take(__i as int), §v2§), self.left@ == old(self).left@, self.right@ == old(self).right@, "
             "self.left_ended == old(self).left_ended, self.right_ended == old(self).right_ended, self.prev == old(self).prev, self.coord == old(self).coord,")
    for_over_ref_vec(pi, 2, INV_R)
    for_over_ref_vec(pi, 1, INV_L)
    pi.bind('key', r'BinaryElement::Left\(\((\w+), \w+\)\) =>')
    pi.bind('v1', r'BinaryElement::Left\(\(\w+, (\w+)\)\) =>')
    pi.bind('v2', r'BinaryElement::Right\(\(\w+, (\w+)\)\) =>')
    pi.text = pi.fmt(pi.text)
    # hints: loop entry / step / exit
    pi.text = pi.text.replace('let ghost __b0 = self.buffer@;', 'let ghost __b0 = self.buffer@; proof { assert(__b0 + Seq::<(K, (V1, V2))>::empty() =~= __b0); }')
    pi.text = pi.text.replace('/*@pair_pushed*/', '/*@pair_pushed*/ proof { assert(self.buffer@.len() == __b0.len() + __i); }')
    pieces += ["impl<K: DataKey + ExchangeData, V1: ExchangeData, V2: ExchangeData> JoinKeyedInner<K, V1, V2> {", pi, "}"]
    nx = x.method(F, 'JoinKeyedInner', 'next', trait='Operator')
    nx.desugar_assert()
    nx.sub('V-ASSERT', r'panic!\("Cannot yet join timestamped streams"\)', 'panic_no_return_val()', detail='panic!(..) on a timestamped element -> panic_no_return (R-PROTO-BIN)', must=True)
    nx.sub('V-SUBST', r'crate::operator::StreamElement', 'StreamElement', detail='path shortened')
    nx.sub('V-SPEC', r'match self\.prev\.next\(\) \{', 'let __e = self.prev.next();\n            proof { assume(self.proto_ok(__e)); }   // R-PROTO-BIN (environment assumption, listed)\n            match __e {', detail='scrutinee bound to a ghost-visible name `__e`; the protocol of the two-input start is ASSUMED for it', must=True)
    nx.name_result('r')
    nx.add_spec(NEXT_SPEC)
    nx.text = '#[verifier::exec_allows_no_decreases_clause]\n' + nx.text
    nx.add_loop_spec(1, '\n            invariant self.inv(),\n')
    pieces += ["impl<K: DataKey + ExchangeData, V1: ExchangeData, V2: ExchangeData> JoinKeyedInner<K, V1, V2> {", nx, "}"]
    # ---- JoinKeyedOuter::process_item (the element arms fully; the end arms: which stores / key sets are dropped, tuples only appended)
    FJ = 'src/operator/join/mod.rs'
    jv = x.enum(FJ, 'JoinVariant'); jv.text = '#[derive(Clone, Copy)]\n' + jv.text
    lo = x.method(FJ, 'JoinVariant', 'left_outer'); lo.name_result('r'); lo.add_spec('        ensures r == (self is Left || self is Outer),   // #obl:variant.left_outer\n')
    ro = x.method(FJ, 'JoinVariant', 'right_outer'); ro.name_result('r'); ro.add_spec('        ensures r == (self is Outer),   // #obl:variant.right_outer\n')
    sh = x.struct(F, 'SideHashMap')
    sh.sub('V-SUBST', r'HashMap<Key, Vec<Out>, crate::block::GroupHasherBuilder>', 'KMap<Key, Out>', detail='std HashMap<K, Vec<V>, GroupHasherBuilder> -> map-view model KMap<K, V>', must=True)
    sh.sub('V-SUBST', r'HashSet<Key>', 'KSet<Key>', detail='std HashSet<K> -> set-view model KSet<K>', must=True)
    sh.text = '#[verifier::reject_recursive_types(Key)]\n#[verifier::reject_recursive_types(Out)]\n' + sh.text
    jo = x.struct(F, 'JoinKeyedOuter')
    jo.text = ''.join(f'#[verifier::reject_recursive_types({t})]\n' for t in ('K', 'V1', 'V2')) + jo.text
    po = x.method(F, 'JoinKeyedOuter', 'process_item')
    po.add_spec(OUTER_SPEC)
    po.sub('V-SUBST', r'self\.(left|right)\.data\.entry\((\w+)\)\.or_default\(\)', r'self.\1.data.entry_or_default(\2)', detail='`.entry(k).or_default()` -> entry_or_default(k)', must=True)
    FR = ("self.left == old(self).left || true, self.prev == old(self).prev, self.coord == old(self).coord, self.variant == old(self).variant,")
    # the two drain loops of the end arms (before the element loops: they contain `for v in vec` loops over OWNED vectors)
    for side, other in (('right', 'left'), ('left', 'right')):
        rx = re.compile(r'for \((?P<k>\w+), (?P<v>\w+)\) in self\.' + side + r'\.data\.drain\(\) \{\s*if !self\.' + other + r'\.keys\.contains\(&(?P=k)\) \{\s*for (?P<e>\w+) in (?P=v) \{(?P<body>.*?)\}\s*\}\s*\}', re.S)
        mm = rx.search(po.text)
        if not mm:
            raise ScanError(f'JoinKeyedOuter::process_item: the drain loop of the {side} store was not found')
        k, v, e, body = mm.group('k'), mm.group('v'), mm.group('e'), mm.group('body')
        new = (f"{{ let mut __d = self.{side}.data.drain_all(); let ghost __b0 = self.buffer@;\n"
               f"                        while __d.len() > 0\n                            invariant self.{side}.data@ =~= Map::empty(), self.buffer@.len() >= __b0.len() && self.buffer@.take(__b0.len() as int) == __b0, self.left.ended == old(self).left.ended, self.right.ended == old(self).right.ended, self.left.keys@ == old(self).left.keys@, self.right.keys@ == old(self).right.keys@, self.{other}.data@ == old(self).{other}.data@, self.prev == old(self).prev, self.coord == old(self).coord, self.variant == old(self).variant, self.left.count == old(self).left.count, self.right.count == old(self).right.count,\n"
               f"                            decreases __d@.len(),\n"
               f"                        {{ let ({k}, {v}) = __d.remove(0);\n                            if !self.{other}.keys.contains(&{k}) {{ let mut {v} = {v};\n"
               f"                                while {v}.len() > 0\n                                    invariant self.{side}.data@ =~= Map::empty(), self.buffer@.len() >= __b0.len() && self.buffer@.take(__b0.len() as int) == __b0, self.left.ended == old(self).left.ended, self.right.ended == old(self).right.ended, self.left.keys@ == old(self).left.keys@, self.right.keys@ == old(self).right.keys@, self.{other}.data@ == old(self).{other}.data@, self.prev == old(self).prev, self.coord == old(self).coord, self.variant == old(self).variant, self.left.count == old(self).left.count, self.right.count == old(self).right.count,\n"
               f"                                    decreases {v}@.len(),\n"
               f"                                {{ let {e} = {v}.remove(0);{body} proof {{ assert(self.buffer@.take(__b0.len() as int) =~= __b0); }} }} }} }} }}")
        po.text = po.text[:mm.start()] + new + po.text[mm.end():]
        po.note('V-ITER', 1, '`for (k, vs) in M.drain() { if !S.contains(&k) { for v in vs { B } } }` -> loop over M.drain_all() (arbitrary order) and a pop-front loop over vs (B verbatim)')
    OINV_L = ("__i <= {v}@.len(), {v}@ == at(self.right.data@, §key§), self.buffer@ == __b0 + opairs_l(§key§, §v1§, {v}@.take(__i as int)), self.left == old(self).left || self.left.count == old(self).left.count + 1, "
              "self.left.data@ == old(self).left.data@, self.left.keys@ == old(self).left.keys@, self.left.ended == old(self).left.ended, self.left.count == old(self).left.count + 1, self.right == old(self).right, self.prev == old(self).prev, self.coord == old(self).coord, self.variant == old(self).variant,")
    OINV_R = ("__i <= {v}@.len(), {v}@ == at(self.left.data@, §key§), self.buffer@ == __b0 + opairs_r(§key§, {v}@.take(__i as int), §v2§), "
              "self.right.data@ == old(self).right.data@, self.right.keys@ == old(self).right.keys@, self.right.ended == old(self).right.ended, self.right.count == old(self).right.count + 1, self.left == old(self).left, self.prev == old(self).prev, self.coord == old(self).coord, self.variant == old(self).variant,")
    for_over_ref_vec(po, 2, OINV_R)
    for_over_ref_vec(po, 1, OINV_L)
    po.bind('key', r'BinaryElement::Left\(\((\w+), \w+\)\) =>')
    po.bind('v1', r'BinaryElement::Left\(\(\w+, (\w+)\)\) =>')
    po.bind('v2', r'BinaryElement::Right\(\(\w+, (\w+)\)\) =>')
    po.text = po.fmt(po.text)
    po.text = po.text.replace('let ghost __b0 = self.buffer@;\n                        while __i', 'let ghost __b0 = self.buffer@; proof { assert(__b0 + Seq::<(K, (Option<V1>, Option<V2>))>::empty() =~= __b0); }\n                        while __i')
    po.text = po.text.replace('/*@pair_pushed*/', '/*@pair_pushed*/ proof { assert(self.buffer@.len() == __b0.len() + __i); }')
    pieces += [jv, "impl JoinVariant {", lo, ro, "}", sh, jo, "impl<K: DataKey + ExchangeData, V1: ExchangeData, V2: ExchangeData> JoinKeyedOuter<K, V1, V2> {", po, "}"]
    return pieces
