"""C12 / C13 / C14 / C05 / C06 — WindowOperator::next (src/operator/window/mod.rs): the per-key dispatch around the window
managers.  A data element goes to the manager of its key only (created from `init` on first use); its results are queued
with that key.  A control element (Watermark / FlushAndRestart / Terminate) goes to EVERY manager; all their results are
queued BEFORE the control element itself; managers that ask to be recycled are dropped.  FlushBatch passes through.
Queued elements leave in order."""
import os, re, sys
sys.path.insert(0, os.path.dirname(os.path.dirname(__file__)))
import std_specs as S

PROPERTIES = ["C12", "C13", "C14", "C05", "C06"]
MIN_VERIFIED = 5
F = 'src/operator/window/mod.rs'
FO = 'src/operator/mod.rs'
ASSUMPTIONS = [
    "model trait WindowManager: process is a function of the manager's state and the element (emitted / after), its Output is a Vec of results (the real managers return Option or Vec; both are IntoIterator yielding the results in order); the concrete managers are under contract in units count_window, event_time_v, processing_time_v, session_v, transaction_window",
    "HashMap<Key, W> modelled by its map view (KeyMap): `.entry(k.clone()).or_insert_with(|| init.clone())` -> entry_or_insert_clone(k, &init); retain -> loop over keys_vec() in an ARBITRARY order; Key equality is spec equality; Clone yields an equal value",
    "prev.next() returns any element (model trait Operator with a ghost history)",
    "termination of WindowOperator::next is not verified",
]
PRELUDE = r'''
use std::collections::VecDeque;
type Timestamp = i64;
trait Data: Clone + Send + 'static {}
trait DataKey: Clone + Send + 'static {}
broadcast use trusted_axioms::axiom_data_clone;
#[verifier::external_body]
struct String {}
trait Operator: Sized {
    type Out;
    spec fn hist(&self) -> Seq<StreamElement<Self::Out>>;
    fn next(&mut self) -> (r: StreamElement<Self::Out>)
        ensures final(self).hist() == old(self).hist().push(r);
}
trait WindowManager: Clone + Sized {
    type In: Data;
    type Out: Data;
    // what one call of process does, as functions of the manager's value and the element
    spec fn emitted(&self, el: StreamElement<Self::In>) -> Seq<WindowResult<Self::Out>>;
    spec fn after(&self, el: StreamElement<Self::In>) -> Self;
    spec fn s_recycle(&self) -> bool;
    fn process(&mut self, el: StreamElement<Self::In>) -> (r: Vec<WindowResult<Self::Out>>)
        ensures r@ == old(self).emitted(el), *final(self) == old(self).after(el);
    fn recycle(&self) -> (r: bool)
        ensures r == self.s_recycle();
}
// ---- std HashMap<Key, W> by its map view
#[verifier::external_body]
#[verifier::reject_recursive_types(K)]
#[verifier::reject_recursive_types(W)]
struct KeyMap<K, W> { _p: core::marker::PhantomData<(K, W)> }
impl<K, W: Clone> KeyMap<K, W> {
    uninterp spec fn view(&self) -> Map<K, W>;
    #[verifier::external_body]
    fn entry_or_insert_clone(&mut self, k: K, init: &W) -> (r: &mut W)
        ensures *r == (if old(self)@.contains_key(k) { old(self)@[k] } else { *init }),
                final(self)@ == old(self)@.insert(k, *final(r)),
    { unimplemented!() }
    // the keys, each once, in an arbitrary order
    #[verifier::external_body]
    fn keys_vec(&self) -> (r: Vec<K>)
        ensures forall|i: int, j: int| 0 <= i < j < r@.len() ==> #[trigger] r@[i] != #[trigger] r@[j],
                forall|i: int| 0 <= i < r@.len() ==> self@.contains_key(#[trigger] r@[i]),
                forall|k: K| self@.contains_key(k) ==> exists|i: int| 0 <= i < r@.len() && #[trigger] r@[i] == k,
    { unimplemented!() }
    #[verifier::external_body]
    fn get_mut_some(&mut self, k: &K) -> (r: &mut W)
        requires old(self)@.contains_key(*k),
        ensures *r == old(self)@[*k], final(self)@ == old(self)@.insert(*k, *final(r)),
    { unimplemented!() }
    #[verifier::external_body]
    fn remove(&mut self, k: &K) -> (r: Option<W>)
        ensures final(self)@ == old(self)@.remove(*k)
    { unimplemented!() }
}
// the stream elements a manager's results become once tagged with their key
spec fn keyed<K, T>(k: K, rs: Seq<WindowResult<T>>) -> Seq<StreamElement<(K, T)>> {
    Seq::new(rs.len(), |i: int| match rs[i] {
        WindowResult::Item(x) => StreamElement::Item((k, x)),
        WindowResult::Timestamped(x, ts) => StreamElement::Timestamped((k, x), ts),
    })
}
spec fn is_data<T>(e: StreamElement<T>) -> bool { e is Item || e is Timestamped }
spec fn key_of_elem<K, T>(e: StreamElement<(K, T)>) -> K { match e { StreamElement::Item((k, _)) => k, StreamElement::Timestamped((k, _), _) => k, _ => arbitrary() } }
spec fn unkeyed<K, T>(e: StreamElement<(K, T)>) -> StreamElement<T> {
    match e {
        StreamElement::Item((_, v)) => StreamElement::Item(v), StreamElement::Timestamped((_, v), ts) => StreamElement::Timestamped(v, ts),
        StreamElement::Watermark(w) => StreamElement::Watermark(w), StreamElement::Terminate => StreamElement::Terminate,
        StreamElement::FlushAndRestart => StreamElement::FlushAndRestart, StreamElement::FlushBatch => StreamElement::FlushBatch,
    }
}
spec fn retyped<A, B>(e: StreamElement<A>) -> StreamElement<B> {
    match e {
        StreamElement::Watermark(w) => StreamElement::Watermark(w), StreamElement::Terminate => StreamElement::Terminate,
        StreamElement::FlushAndRestart => StreamElement::FlushAndRestart, _ => StreamElement::FlushBatch,
    }
}
// the queued elements carrying key k, in order
spec fn proj<K, T>(e: Seq<StreamElement<(K, T)>>, k: K) -> Seq<StreamElement<(K, T)>>
    decreases e.len()
{
    if e.len() == 0 { Seq::empty() } else if is_data(e.last()) && key_of_elem(e.last()) == k { proj(e.drop_last(), k).push(e.last()) } else { proj(e.drop_last(), k) }
}
proof fn lemma_proj_push<K, T>(e: Seq<StreamElement<(K, T)>>, x: StreamElement<(K, T)>, k: K)
    ensures proj(e.push(x), k) == (if is_data(x) && key_of_elem(x) == k { proj(e, k).push(x) } else { proj(e, k) })
{ assert(e.push(x).drop_last() =~= e); }
spec fn all_data<K, T>(e: Seq<StreamElement<(K, T)>>) -> bool { forall|i: int| 0 <= i < e.len() ==> is_data(#[trigger] e[i]) }
'''

TAKE_KEY_SPEC = r'''
        ensures
            r.1 == unkeyed(self),                                                                     // #obl:element.take_key_keeps_kind_value_and_timestamp
            is_data(self) ==> r.0 == Some(key_of_elem(self)), !is_data(self) ==> r.0 is None,
'''
ADD_KEY_SPEC = r'''
        ensures
            (self matches StreamElement::Item(v) ==> r == StreamElement::Item((k, v))),
            (self matches StreamElement::Timestamped(v, ts) ==> r == StreamElement::Timestamped((k, v), ts)),   // #obl:element.add_key_keeps_kind_value_and_timestamp
            (self is Watermark || self is Terminate || self is FlushAndRestart || self is FlushBatch) ==> !is_data(r),
'''
FROM_SPEC = r'''
        ensures
            (value matches WindowResult::Item(x) ==> r == StreamElement::Item(x)),
            (value matches WindowResult::Timestamped(x, ts) ==> r == StreamElement::Timestamped(x, ts)),    // #obl:window_result.into_stream_element
'''

NEXT_DEFS = r"""
struct WV<K, W, T> { wins: Map<K, W>, buf: Seq<StreamElement<(K, T)>> }
proof fn lemma_proj_keyed<K, T>(a: Seq<StreamElement<(K, T)>>, k: K, rs: Seq<WindowResult<T>>, k2: K)
    ensures proj(a + keyed(k, rs), k2) =~= (if k == k2 { proj(a, k2) + keyed(k, rs) } else { proj(a, k2) }),
            all_data(keyed(k, rs)),
    decreases rs.len()
{
    if rs.len() == 0 { assert(a + keyed(k, rs) =~= a); }
    else {
        let rs1 = rs.drop_last();
        lemma_proj_keyed(a, k, rs1, k2);
        let x = keyed(k, rs).last();
        assert(keyed(k, rs).drop_last() =~= keyed(k, rs1));
        assert(a + keyed(k, rs) =~= (a + keyed(k, rs1)).push(x));
        lemma_proj_push(a + keyed(k, rs1), x, k2);
        assert(is_data(x) && key_of_elem(x) == k);
        if k == k2 { assert(proj(a, k2) + keyed(k, rs) =~= (proj(a, k2) + keyed(k, rs1)).push(x)); }
    }
}
// one element pulled by the operator (init = the manager a new key starts from)
spec fn wstep<K, W: WindowManager>(init: W, o: WV<K, W, W::Out>, e: StreamElement<(K, W::In)>, n: WV<K, W, W::Out>) -> bool {
    let el = unkeyed(e);
    if is_data(e) {
        // a data element goes to the manager of ITS key only; its results are queued with that key
        let k = key_of_elem(e);
        let m0 = if o.wins.contains_key(k) { o.wins[k] } else { init };
        n.wins == o.wins.insert(k, m0.after(el)) && n.buf == o.buf + keyed(k, m0.emitted(el))
    } else if e is FlushBatch {
        n == o
    } else {
        // a control element goes to EVERY manager; all the results are queued BEFORE the control element itself
        let r = n.buf.subrange(o.buf.len() as int, n.buf.len() - 1);
        &&& n.buf.len() > o.buf.len() && n.buf.take(o.buf.len() as int) == o.buf
        &&& n.buf.last() == retyped::<(K, W::In), (K, W::Out)>(e)
        &&& all_data(r)
        &&& forall|k: K| #[trigger] proj(r, k) == (if o.wins.contains_key(k) { keyed(k, o.wins[k].emitted(el)) } else { Seq::empty() })
        // managers that ask to be recycled are dropped, the others keep their new state
        &&& forall|k: K| #[trigger] n.wins.contains_key(k) <==> (o.wins.contains_key(k) && !o.wins[k].after(el).s_recycle())
        &&& forall|k: K| n.wins.contains_key(k) ==> #[trigger] n.wins[k] == o.wins[k].after(el)
    }
}
spec fn reach<K, W: WindowManager>(init: W, s0: WV<K, W, W::Out>, evs: Seq<StreamElement<(K, W::In)>>, s1: WV<K, W, W::Out>) -> bool
    decreases evs.len()
{
    if evs.len() == 0 { s0 == s1 } else {
        exists|m: WV<K, W, W::Out>| reach(init, s0, evs.drop_last(), m) && #[trigger] wstep(init, m, evs.last(), s1)
    }
}
"""
IMPL_SPEC = r"""
    spec fn wv(&self) -> WV<Key, W, Out> { WV { wins: self.manager.windows@, buf: self.output_buffer@ } }
"""
NEXT_SPEC = r"""
        ensures
            final(self).manager.init == old(self).manager.init,
            final(self).prev.hist().len() >= old(self).prev.hist().len()
                && final(self).prev.hist().take(old(self).prev.hist().len() as int) =~= old(self).prev.hist(),
            // every pulled element acted on (managers, queue) as wstep prescribes; then the oldest queued element leaves,
            // or a FlushBatch passes through
            exists|mid: WV<Key, W, Out>| #[trigger] reach(final(self).manager.init, old(self).wv(), final(self).prev.hist().skip(old(self).prev.hist().len() as int), mid)
                && (if r is FlushBatch && mid.buf.len() == 0 { final(self).wv() == mid }
                    else { mid.buf.len() > 0 && r == mid.buf[0] && final(self).wv() == (WV { buf: mid.buf.skip(1), ..mid }) }),   // #obl:window_operator.dispatch_and_queue_order
"""

HELPERS = r"""
spec fn idx_in<K>(ks: Seq<K>, q: int, k: K) -> bool { exists|i: int| 0 <= i < q && #[trigger] ks[i] == k }
proof fn lemma_idx_in_step<K>(ks: Seq<K>, q: int, k: K)
    requires 0 <= q < ks.len()
    ensures idx_in(ks, q + 1, k) == (idx_in(ks, q, k) || ks[q] == k)
{
    if idx_in(ks, q, k) { let i = choose|i: int| 0 <= i < q && #[trigger] ks[i] == k; assert(ks[i] == k && i < q + 1); }
    if ks[q] == k { assert(ks[q] == k && q < q + 1); }
    if idx_in(ks, q + 1, k) { let i = choose|i: int| 0 <= i < q + 1 && #[trigger] ks[i] == k; if i < q { assert(ks[i] == k); } }
}
"""
OUTER_INV = r"""
            invariant
                self.manager.init == old(self).manager.init,
                self.prev.hist().len() >= old(self).prev.hist().len(),
                self.prev.hist().take(old(self).prev.hist().len() as int) =~= old(self).prev.hist(),
                reach(self.manager.init, old(self).wv(), self.prev.hist().skip(old(self).prev.hist().len() as int), self.wv()),
"""
EXT_INV = r"""
                            invariant
                                __it@.len() <= ret0.len(), __it@ =~= ret0.skip(ret0.len() - __it@.len()),
                                self.output_buffer@ =~= bq + keyed(FRAMEKEY, ret0.take(ret0.len() - __it@.len())),
                                self.manager.init == mi0, self.prev == pv0, FRAMEWINS
                            decreases __it@.len(),
"""
RETAIN_INV = r"""
                    invariant
                        __q <= __keys@.len(), self.manager.init == mi0, self.prev == pv0, el == el0,
                        forall|i: int, j: int| 0 <= i < j < __keys@.len() ==> #[trigger] __keys@[i] != #[trigger] __keys@[j],
                        forall|i: int| 0 <= i < __keys@.len() ==> w0.contains_key(#[trigger] __keys@[i]),
                        // managers: processed keys are updated or dropped, the others untouched
                        forall|k: Key| #[trigger] self.manager.windows@.contains_key(k) <==> (w0.contains_key(k) && (idx_in(__keys@, __q as int, k) ==> !w0[k].after(el0).s_recycle())),
                        forall|k: Key| self.manager.windows@.contains_key(k) ==> #[trigger] self.manager.windows@[k] == (if idx_in(__keys@, __q as int, k) { w0[k].after(el0) } else { w0[k] }),
                        // queue: the results of the processed managers, each manager's results contiguous and in order
                        self.output_buffer@.len() >= b0.len(), self.output_buffer@.take(b0.len() as int) =~= b0,
                        all_data(self.output_buffer@.skip(b0.len() as int)),
                        forall|k: Key| #[trigger] proj(self.output_buffer@.skip(b0.len() as int), k)
                            == (if idx_in(__keys@, __q as int, k) { keyed(k, w0[k].emitted(el0)) } else { Seq::empty() }),
                    decreases __keys@.len() - __q,
"""


def build(x):
    pieces = [S.CLONE_IS_EQ, S.RUST_PANIC, PRELUDE]
    se = x.enum(FO, 'StreamElement'); se.text = '#[derive(Clone)]\n' + se.text
    wr = x.enum(F, 'WindowResult'); wr.text = '#[derive(Clone)]\n' + wr.text
    tk = x.method(FO, 'StreamElement', 'take_key'); tk.name_result('r'); tk.add_spec(TAKE_KEY_SPEC)
    ak = x.method(FO, 'StreamElement', 'add_key'); ak.name_result('r'); ak.add_spec(ADD_KEY_SPEC)
    fr = x.method(F, '=StreamElement<T>', 'from', trait='From'); fr.name_result('r'); fr.add_spec(FROM_SPEC)
    pieces += [se, wr, "impl<Key, Out> StreamElement<(Key, Out)> {", tk, "}", "impl<Out> StreamElement<Out> {", ak, "}", "impl<T> StreamElement<T> {", fr, "}"]
    km = x.struct(F, 'KeyedWindowManager')
    km.sub('V-SUBST', r'windows: HashMap<Key, W, GroupHasherBuilder>,', 'windows: KeyMap<Key, W>,', detail='HashMap -> map-view model KeyMap', must=True)
    km.text = 'use std::marker::PhantomData;\n#[verifier::reject_recursive_types(Key)]\n#[verifier::reject_recursive_types(In)]\n#[verifier::reject_recursive_types(Out)]\n#[verifier::reject_recursive_types(W)]\n' + km.text
    wo = x.struct(F, 'WindowOperator')
    wo.text = '#[verifier::reject_recursive_types(Key)]\n#[verifier::reject_recursive_types(In)]\n#[verifier::reject_recursive_types(Out)]\n#[verifier::reject_recursive_types(Prev)]\n#[verifier::reject_recursive_types(W)]\n' + wo.text
    nx = x.method(F, 'WindowOperator', 'next', trait='Operator')
    nx.sub('V-SUBST', r'self\s*\.manager\s*\.windows\s*\.entry\(key\.clone\(\)\)\s*\.or_insert_with\(\|\| self\.manager\.init\.clone\(\)\)', 'self.manager.windows.entry_or_insert_clone(key.clone(), &self.manager.init)',
           detail='`.entry(k).or_insert_with(|| init.clone())` -> entry_or_insert_clone(k, &init) on the map-view model', flags=re.S, must=True)
    nx.iter_retain()
    nx.iter_extend_map(1)
    nx.iter_extend_map(1)
    nx.sub('V-ASSERT', r'_ => unreachable!\(\),', '_ => { rust_panic(); StreamElement::FlushBatch }', detail='unreachable!() arm -> rust_panic() (requires false)', must=True)
    nx.name_result('r')
    nx.add_spec(NEXT_SPEC)
    nx.text = '#[verifier::exec_allows_no_decreases_clause]\n' + nx.text
    nx.insert_at_body_start('\n        proof { assert(self.prev.hist().skip(self.prev.hist().len() as int) =~= Seq::<StreamElement<(Key, In)>>::empty()); }')
    nx.add_loop_spec(1, OUTER_INV)
    # ---- oldest queued element leaves
    nx.insert_before('if let Some(item) = self.output_buffer.pop_front() {', 'let ghost mid0 = self.wv();\n            ')
    nx.insert_before('return item;', 'proof { assert(self.output_buffer@ =~= mid0.buf.skip(1)); assert(self.wv() == (WV { buf: mid0.buf.skip(1), ..mid0 })); }\n                ')
    # ---- pulled element
    nx.sub('V-SPEC', r'let el = self\.prev\.next\(\);', '''let ghost h0 = self.prev.hist(); let ghost j0 = self.wv(); let ghost mi0 = self.manager.init;
            let el = self.prev.next();
            let ghost ge = el; let ghost pv0 = self.prev;
            proof {
                let k = old(self).prev.hist().len() as int;
                assert(self.prev.hist().skip(k) =~= h0.skip(k).push(ge));
                assert(self.prev.hist().skip(k).drop_last() =~= h0.skip(k));
                assert(j0.buf.len() == 0);
            }''', detail='ghost snapshot around the pull', must=True)
    # FlushBatch passes through
    nx.sub('V-SPEC', r'StreamElement::FlushBatch => return StreamElement::FlushBatch,', '''StreamElement::FlushBatch => {
                    proof {
                        let k = old(self).prev.hist().len() as int; let pulled = self.prev.hist().skip(k);
                        assert(pulled.drop_last() == h0.skip(k)); assert(pulled.last() == ge);
                        assert(wstep(self.manager.init, j0, ge, j0));
                        assert(reach(self.manager.init, old(self).wv(), pulled, j0));
                    }
                    return StreamElement::FlushBatch
                }''', detail='match arm braced so that a proof block can precede the return', must=True)
    # data arm
    BEGIN = ' let ghost ret0 = __it@; let ghost bq = self.output_buffer@; let ghost wq = self.manager.windows@; proof { assert(ret0.take(0) =~= Seq::<WindowResult<Out>>::empty()); assert(bq + keyed(KEY, ret0.take(0)) =~= bq); }'
    ITEM = ' proof { let jj = ret0.len() - __it@.len() - 1; assert(ret0.skip(jj)[0] == ret0[jj]); assert(ret0.skip(jj).skip(1) =~= ret0.skip(jj + 1)); assert(ret0.take(jj + 1) =~= ret0.take(jj).push(ret0[jj])); assert(keyed(KEY, ret0.take(jj + 1)) =~= keyed(KEY, ret0.take(jj)).push(keyed(KEY, ret0)[jj])); }'
    nx.insert_after('/*@extend_begin*/', BEGIN.replace('KEY', 'key'), nth=1)
    nx.add_loop_spec(2, EXT_INV.replace('FRAMEKEY', 'key').replace('FRAMEWINS', 'self.manager.windows@ == wq,'))
    nx.insert_after('/*@extend_item*/', ITEM.replace('KEY', 'key'), nth=1)
    nx.insert_after('/*@extend_end*/', """
                        proof {
                            assert(ret0.take(ret0.len() as int) =~= ret0);
                            let kk = key_of_elem(ge);
                            let m0 = if j0.wins.contains_key(kk) { j0.wins[kk] } else { mi0 };
                            assert(self.wv().buf =~= j0.buf + keyed(kk, m0.emitted(unkeyed(ge))));
                            assert(wstep(mi0, j0, ge, self.wv()));                                     // #obl:window_operator.data_element_goes_to_the_manager_of_its_key
                        }""", nth=1)
    # control arm: retain loop
    nx.insert_before('{ let __keys = self.manager.windows.keys_vec();', """let ghost w0 = self.manager.windows@; let ghost b0 = self.output_buffer@; let ghost el0 = el;
                    proof { assert(self.output_buffer@.skip(b0.len() as int) =~= Seq::<StreamElement<(Key, Out)>>::empty()); }
                    """)
    nx.add_loop_spec(3, RETAIN_INV)
    nx.insert_after('/*@retain_key*/', ' let ghost bq0 = self.output_buffer@; let ghost wq0 = self.manager.windows@; proof { assert(!idx_in(__keys@, __q as int, *key)) by { if idx_in(__keys@, __q as int, *key) { let i = choose|i: int| 0 <= i < __q && #[trigger] __keys@[i] == *key; assert(__keys@[i] != __keys@[__q as int]); } } }')
    nx.insert_after('/*@extend_begin*/', BEGIN.replace('KEY', '*key').replace(' let ghost wq = self.manager.windows@;', ''), nth=2)
    nx.add_loop_spec(4, EXT_INV.replace('FRAMEKEY', '*key').replace('FRAMEWINS', 'el == el0,'))
    nx.insert_after('/*@extend_item*/', ITEM.replace('KEY', '*key'), nth=2)
    nx.insert_after('/*@extend_end*/', """
                        proof {
                            assert(ret0.take(ret0.len() as int) =~= ret0);
                            assert(ret0 == w0[*key].emitted(el0));
                            assert(self.output_buffer@ =~= bq0 + keyed(*key, w0[*key].emitted(el0)));
                        }""", nth=2)
    nx.insert_after('/*@retain_step*/', """
                        proof {
                            let kq = __keys@[__q as int - 1];
                            let ret0 = w0[kq].emitted(el0);
                            assert(self.output_buffer@ =~= bq0 + keyed(kq, ret0));
                            let rq0 = bq0.skip(b0.len() as int);
                            assert(self.output_buffer@.skip(b0.len() as int) =~= rq0 + keyed(kq, ret0));
                            assert forall|k: Key| #[trigger] proj(self.output_buffer@.skip(b0.len() as int), k)
                                    == (if idx_in(__keys@, __q as int, k) { keyed(k, w0[k].emitted(el0)) } else { Seq::empty() }) by {
                                lemma_proj_keyed(rq0, kq, ret0, k);
                                lemma_idx_in_step(__keys@, __q as int - 1, k);
                            }
                            lemma_proj_keyed(rq0, kq, ret0, kq);
                            assert forall|k: Key| #[trigger] self.manager.windows@.contains_key(k) <==> (w0.contains_key(k) && (idx_in(__keys@, __q as int, k) ==> !w0[k].after(el0).s_recycle())) by {   // #obl:window_operator.recycled_managers_dropped_others_kept
                                lemma_idx_in_step(__keys@, __q as int - 1, k);
                            }
                            assert forall|k: Key| self.manager.windows@.contains_key(k) implies #[trigger] self.manager.windows@[k] == (if idx_in(__keys@, __q as int, k) { w0[k].after(el0) } else { w0[k] }) by {
                                lemma_idx_in_step(__keys@, __q as int - 1, k);
                            }
                        }""")
    nx.insert_after('/*@retain_end*/', """
                    proof {
                        assert forall|k: Key| w0.contains_key(k) == idx_in(__keys@, __keys@.len() as int, k) by {
                            if w0.contains_key(k) { let i = choose|i: int| 0 <= i < __keys@.len() && #[trigger] __keys@[i] == k; assert(__keys@[i] == k); }
                            if idx_in(__keys@, __keys@.len() as int, k) { let i = choose|i: int| 0 <= i < __keys@.len() && #[trigger] __keys@[i] == k; assert(w0.contains_key(__keys@[i])); }
                        }
                        assert forall|k: Key| #[trigger] proj(self.output_buffer@.skip(b0.len() as int), k) == (if w0.contains_key(k) { keyed(k, w0[k].emitted(el0)) } else { Seq::empty() }) by { }
                        assert forall|k: Key| #[trigger] self.manager.windows@.contains_key(k) <==> (w0.contains_key(k) && !w0[k].after(el0).s_recycle()) by { }
                        assert forall|k: Key| self.manager.windows@.contains_key(k) implies #[trigger] self.manager.windows@[k] == w0[k].after(el0) by { }
                    }""")
    nx.insert_before(re.compile(r'let msg = match el \{'), 'let ghost rr = self.output_buffer@.skip(b0.len() as int);\n                    ')
    nx.insert_after_stmt(re.compile(r'self\.output_buffer\.push_(?:back|front)\(msg\)'), """
                    proof {
                        let n = self.wv();
                        assert(n.buf =~= b0 + rr + seq![msg]);   // #obl:window_operator.control_element_queued_after_the_results
                        assert(n.buf.subrange(j0.buf.len() as int, n.buf.len() - 1) =~= rr);
                        assert(msg == retyped::<(Key, In), (Key, Out)>(ge));
                        let el_ = unkeyed(ge);
                        assert(!is_data(ge) && !(ge is FlushBatch) && el_ == el0 && j0.wins == w0);
                        let r_ = n.buf.subrange(j0.buf.len() as int, n.buf.len() - 1);
                        assert(n.buf.len() > j0.buf.len() && n.buf.take(j0.buf.len() as int) == j0.buf);   // #obl:window_operator.queue_only_grows
                        assert(all_data(r_));
                        assert forall|k: Key| #[trigger] proj(r_, k) == (if j0.wins.contains_key(k) { keyed(k, j0.wins[k].emitted(el_)) } else { Seq::empty() }) by {}
                        assert forall|k: Key| #[trigger] n.wins.contains_key(k) <==> (j0.wins.contains_key(k) && !j0.wins[k].after(el_).s_recycle()) by {}
                        assert forall|k: Key| n.wins.contains_key(k) implies #[trigger] n.wins[k] == j0.wins[k].after(el_) by {}
                        assert(wstep(mi0, j0, ge, n));                                                   // #obl:window_operator.control_element_reaches_every_manager_and_follows_their_results
                    }""")
    # extend the reach relation at the end of the loop body
    nx.insert_at_loop_end(1, """
            proof {
                let k = old(self).prev.hist().len() as int; let pulled = self.prev.hist().skip(k);
                assert(pulled.drop_last() == h0.skip(k)); assert(pulled.last() == ge);
                assert(reach(self.manager.init, old(self).wv(), pulled.drop_last(), j0));
                assert(wstep(self.manager.init, j0, ge, self.wv()));   // #obl:window_operator.every_pulled_element_acts_as_prescribed
                assert(reach(self.manager.init, old(self).wv(), pulled, self.wv()));
            }
        """)
    hdr = "impl<Key: DataKey, In: Data, Out: Data, Prev: Operator<Out = (Key, In)>, W: WindowManager<In = In, Out = Out>> WindowOperator<Key, In, Out, Prev, W> {"
    pieces += [km, wo, HELPERS, NEXT_DEFS, hdr, IMPL_SPEC, nx, "}"]
    return pieces
