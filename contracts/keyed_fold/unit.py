"""C07 / C05 / C06 — KeyedFold::{process_item, next} (src/operator/keyed_fold.rs): per iteration exactly one result per key
that occurs, equal to the sequential left fold of that key's values in arrival order (from a clone of `init`), stamped with
the maximum timestamp of the key's timestamped elements; all results leave before the held-back watermark and before the end
marker; nothing is carried over into the next iteration."""
import os, re, sys
sys.path.insert(0, os.path.dirname(os.path.dirname(__file__)))
import std_specs as S
from engine.rsx import ScanError

PROPERTIES = ["C07", "C05", "C06"]
MIN_VERIFIED = 8
F = 'src/operator/keyed_fold.rs'
FO = 'src/operator/mod.rs'
FS = 'src/stream.rs'
ASSUMPTIONS = [
    "user fold closure: total, and its effect on the accumulator is a function fs(acc, value) (assumed contract fold_ok; the closure is opaque)",
    "Clone of the initial accumulator and of a key yields an equal value (axiom_data_clone)",
    "std HashMap<Key, V, GroupHasherBuilder> modelled by its map view (KMap): contains_key, insert, get_mut_some (the `&mut V` of an occupied entry), remove, is_empty, drain() -> drain_all() returning the entries in an ARBITRARY order (distinct keys, covering the map); Key equality is spec equality (Eq/Hash agree with it)",
    "std hash_map::Entry API replaced by its definition (V-COMB): `match M.entry(k) { Vacant(e) => { S; e.insert(v); } Occupied(mut e) => { T(e.get_mut()) } }` -> `if !M.contains_key(&k) { S; M.insert(k, v); } else { T(M.get_mut_some(&k)) }`; `M.entry(k).and_modify(|e| B).or_insert(v);` -> `if M.contains_key(&k) { let e = M.get_mut_some(&k); B; } else { M.insert(k, v); }` (S, T, B verbatim)",
    "KeyedItem::into_kv returns (key, value) of the item (model trait; the only impl in the crate is the identity on tuples, extracted and verified against it)",
    "prev.next() returns any element (model trait Operator)",
    "termination of next() is not verified (it pulls until the iteration ends)",
]
PRELUDE = r'''
type Timestamp = i64;
trait DataKey: Clone + Send + 'static {}
trait Operator: Sized {
    type Out: Send;
    spec fn hist(&self) -> Seq<StreamElement<Self::Out>>;
    fn next(&mut self) -> (r: StreamElement<Self::Out>)
        ensures final(self).hist() == old(self).hist().push(r);
}
trait KeyedItem: Sized {
    type Key: DataKey;
    type Value;
    spec fn skey(&self) -> Self::Key;
    spec fn sval(&self) -> Self::Value;
    fn into_kv(self) -> (r: (Self::Key, Self::Value))
        ensures r.0 == self.skey(), r.1 == self.sval();
}
broadcast use trusted_axioms::axiom_data_clone;
spec fn tmax(a: Timestamp, b: Timestamp) -> Timestamp { if a >= b { a } else { b } }
spec fn omax(a: Option<Timestamp>, b: Timestamp) -> Option<Timestamp> { match a { Some(x) => Some(tmax(x, b)), None => Some(b) } }
spec fn is_end<T>(e: StreamElement<T>) -> bool { e is Terminate || e is FlushAndRestart }
spec fn is_data<T>(e: StreamElement<T>) -> bool { e is Item || e is Timestamped }
spec fn no_end<T>(s: Seq<StreamElement<T>>) -> bool { forall|i: int| 0 <= i < s.len() ==> !is_end(#[trigger] s[i]) }
spec fn key_of_elem<K, T>(e: StreamElement<(K, T)>) -> K { match e { StreamElement::Item((k, _)) => k, StreamElement::Timestamped((k, _), _) => k, _ => arbitrary() } }

// ---- std HashMap<K, V, S> by its map view
#[verifier::external_body]
#[verifier::reject_recursive_types(K)]
#[verifier::reject_recursive_types(V)]
struct KMap<K, V> { _p: core::marker::PhantomData<(K, V)> }
impl<K, V> KMap<K, V> {
    uninterp spec fn view(&self) -> Map<K, V>;
    #[verifier::external_body]
    fn contains_key(&self, k: &K) -> (r: bool) ensures r == self@.contains_key(*k) { unimplemented!() }
    #[verifier::external_body]
    fn insert(&mut self, k: K, v: V) -> (r: Option<V>)
        ensures final(self)@ == old(self)@.insert(k, v)
    { unimplemented!() }
    #[verifier::external_body]
    fn get_mut_some(&mut self, k: &K) -> (r: &mut V)
        requires old(self)@.contains_key(*k),
        ensures *r == old(self)@[*k], final(self)@ == old(self)@.insert(*k, *final(r)),
    { unimplemented!() }
    #[verifier::external_body]
    fn remove(&mut self, k: &K) -> (r: Option<V>)
        ensures final(self)@ == old(self)@.remove(*k),
                old(self)@.contains_key(*k) ==> r == Some(old(self)@[*k]),
                !old(self)@.contains_key(*k) ==> r is None,
    { unimplemented!() }
    #[verifier::external_body]
    fn is_empty(&self) -> (r: bool) ensures r == (self@.dom() =~= Set::<K>::empty()) { unimplemented!() }
    #[verifier::external_body]
    fn len(&self) -> (r: usize) ensures (r == 0) == (self@.dom() =~= Set::<K>::empty()) { unimplemented!() }
    #[verifier::external_body]
    fn get(&self, k: &K) -> (r: Option<&V>)
        ensures (r matches Some(v) ==> self@.contains_key(*k) && *v == self@[*k]), (r is None ==> !self@.contains_key(*k)),
    { unimplemented!() }
    // HashMap::drain(): every entry once, in an arbitrary order; the map is left empty
    #[verifier::external_body]
    fn drain_all(&mut self) -> (r: Vec<(K, V)>)
        ensures final(self)@ =~= Map::<K, V>::empty(),
            forall|i: int, j: int| 0 <= i < j < r@.len() ==> (#[trigger] r@[i]).0 != (#[trigger] r@[j]).0,
            forall|i: int| 0 <= i < r@.len() ==> old(self)@.contains_key((#[trigger] r@[i]).0) && r@[i].1 == old(self)@[r@[i].0],
            forall|k: K| old(self)@.contains_key(k) ==> exists|i: int| 0 <= i < r@.len() && (#[trigger] r@[i]).0 == k,
    { unimplemented!() }
}
'''
TUPLE_IMPL = r'''
impl<K: DataKey, V> KeyedItem for (K, V) {
    type Key = K;
    type Value = V;
    spec fn skey(&self) -> K { self.0 }
    spec fn sval(&self) -> V { self.1 }
    §INTO_KV§
}
'''
SPEC_IMPL = r'''
// abstract per-iteration state of a keyed fold
ghost struct KF<K, O> { accs: Map<K, O>, tss: Map<K, Timestamp>, wm: Option<Timestamp> }

impl<O: Send + Clone, F, Op> KeyedFold<O, F, Op>
where
    F: Fn(&mut O, <Op::Out as KeyedItem>::Value) + Send + Clone,
    Op: Operator,
    Op::Out: KeyedItem,
{
    // the user's fold function as a mathematical function (ASSUMED contract of the opaque closure)
    uninterp spec fn fs(a: O, x: <Op::Out as KeyedItem>::Value) -> O;
    #[verifier::prophetic]
    spec fn fold_ok(f: F) -> bool {
        &&& forall|a: &mut O, x: <Op::Out as KeyedItem>::Value| f.requires((a, x))
        &&& forall|a: &mut O, x: <Op::Out as KeyedItem>::Value| #[trigger] f.ensures((a, x), ()) ==> *final(a) == Self::fs(*a, x)
    }
    spec fn add_kv(init: O, accs: Map<<Op::Out as KeyedItem>::Key, O>, k: <Op::Out as KeyedItem>::Key, v: <Op::Out as KeyedItem>::Value) -> Map<<Op::Out as KeyedItem>::Key, O> {
        accs.insert(k, Self::fs(if accs.contains_key(k) { accs[k] } else { init }, v))
    }
    spec fn add_item(init: O, accs: Map<<Op::Out as KeyedItem>::Key, O>, kv: Op::Out) -> Map<<Op::Out as KeyedItem>::Key, O> {
        Self::add_kv(init, accs, kv.skey(), kv.sval())
    }
    spec fn add_ts(tss: Map<<Op::Out as KeyedItem>::Key, Timestamp>, k: <Op::Out as KeyedItem>::Key, t: Timestamp) -> Map<<Op::Out as KeyedItem>::Key, Timestamp> {
        tss.insert(k, if tss.contains_key(k) { tmax(tss[k], t) } else { t })
    }
    // sequential semantics: consume the elements of one iteration from left to right
    spec fn step1(init: O, p: KF<<Op::Out as KeyedItem>::Key, O>, e: StreamElement<Op::Out>) -> KF<<Op::Out as KeyedItem>::Key, O> {
        match e {
            StreamElement::Item(kv) => KF { accs: Self::add_item(init, p.accs, kv), tss: p.tss, wm: p.wm },
            StreamElement::Timestamped(kv, t) => KF { accs: Self::add_item(init, p.accs, kv), tss: Self::add_ts(p.tss, kv.skey(), t), wm: p.wm },
            StreamElement::Watermark(w) => KF { accs: p.accs, tss: p.tss, wm: omax(p.wm, w) },
            _ => p,
        }
    }
    spec fn run(init: O, st: KF<<Op::Out as KeyedItem>::Key, O>, s: Seq<StreamElement<Op::Out>>) -> KF<<Op::Out as KeyedItem>::Key, O>
        decreases s.len()
    {
        if s.len() == 0 { st } else { Self::step1(init, Self::run(init, st, s.drop_last()), s.last()) }
    }
    proof fn lemma_run_push(init: O, st: KF<<Op::Out as KeyedItem>::Key, O>, s: Seq<StreamElement<Op::Out>>, e: StreamElement<Op::Out>)
        ensures Self::run(init, st, s.push(e)) == Self::step1(init, Self::run(init, st, s), e),
                no_end(s) && !is_end(e) ==> no_end(s.push(e)),
    {
        assert(s.push(e).drop_last() =~= s);
    }
    spec fn empty_state() -> KF<<Op::Out as KeyedItem>::Key, O> { KF { accs: Map::empty(), tss: Map::empty(), wm: None } }

    // ---- what `run` means per key (the statement of C07): the values / timestamps of key k, in arrival order
    spec fn vals_of(s: Seq<StreamElement<Op::Out>>, k: <Op::Out as KeyedItem>::Key) -> Seq<<Op::Out as KeyedItem>::Value>
        decreases s.len()
    {
        if s.len() == 0 { Seq::empty() } else {
            let r = Self::vals_of(s.drop_last(), k);
            match s.last() {
                StreamElement::Item(kv) => if kv.skey() == k { r.push(kv.sval()) } else { r },
                StreamElement::Timestamped(kv, _) => if kv.skey() == k { r.push(kv.sval()) } else { r },
                _ => r,
            }
        }
    }
    spec fn ts_of(s: Seq<StreamElement<Op::Out>>, k: <Op::Out as KeyedItem>::Key) -> Option<Timestamp>
        decreases s.len()
    {
        if s.len() == 0 { None } else {
            let r = Self::ts_of(s.drop_last(), k);
            match s.last() {
                StreamElement::Timestamped(kv, t) => if kv.skey() == k { omax(r, t) } else { r },
                _ => r,
            }
        }
    }
    spec fn wm_of(s: Seq<StreamElement<Op::Out>>) -> Option<Timestamp>
        decreases s.len()
    {
        if s.len() == 0 { None } else {
            let r = Self::wm_of(s.drop_last());
            match s.last() { StreamElement::Watermark(w) => omax(r, w), _ => r }
        }
    }
    spec fn fold_seq(a: O, v: Seq<<Op::Out as KeyedItem>::Value>) -> O
        decreases v.len()
    {
        if v.len() == 0 { a } else { Self::fs(Self::fold_seq(a, v.drop_last()), v.last()) }
    }
    // the accumulator of key k after an iteration is the sequential left fold of the key's values from `init`; a key has
    // an accumulator iff it occurred; its timestamp is the maximum of the key's timestamps (none if it had none)
    proof fn lemma_run_per_key(init: O, s: Seq<StreamElement<Op::Out>>, k: <Op::Out as KeyedItem>::Key)
        ensures
            Self::run(init, Self::empty_state(), s).accs.contains_key(k) == (Self::vals_of(s, k).len() > 0),
            Self::run(init, Self::empty_state(), s).accs.contains_key(k) ==> Self::run(init, Self::empty_state(), s).accs[k] == Self::fold_seq(init, Self::vals_of(s, k)),
            Self::run(init, Self::empty_state(), s).tss.contains_key(k) == (Self::ts_of(s, k) is Some),
            Self::run(init, Self::empty_state(), s).tss.contains_key(k) ==> Some(Self::run(init, Self::empty_state(), s).tss[k]) == Self::ts_of(s, k),
            Self::run(init, Self::empty_state(), s).wm == Self::wm_of(s),
            Self::run(init, Self::empty_state(), s).tss.contains_key(k) ==> Self::run(init, Self::empty_state(), s).accs.contains_key(k),
        decreases s.len()
    {
        if s.len() > 0 {
            Self::lemma_run_per_key(init, s.drop_last(), k);
            let v0 = Self::vals_of(s.drop_last(), k);
            if v0.len() == 0 { assert(Self::fold_seq(init, v0) == init); }
            match s.last() {
                StreamElement::Item(kv) => { if kv.skey() == k { assert(v0.push(kv.sval()).drop_last() =~= v0); assert(Self::fold_seq(init, v0.push(kv.sval())) == Self::fs(Self::fold_seq(init, v0), kv.sval())); } },
                StreamElement::Timestamped(kv, t) => { if kv.skey() == k { assert(v0.push(kv.sval()).drop_last() =~= v0); assert(Self::fold_seq(init, v0.push(kv.sval())) == Self::fs(Self::fold_seq(init, v0), kv.sval())); } },
                _ => {},
            }
        }
    }

    spec fn view(&self) -> KF<<Op::Out as KeyedItem>::Key, O> { KF { accs: self.accumulators@, tss: self.timestamps@, wm: self.max_watermark } }
    spec fn dom_ok(st: KF<<Op::Out as KeyedItem>::Key, O>) -> bool { forall|k: <Op::Out as KeyedItem>::Key| st.tss.contains_key(k) ==> st.accs.contains_key(k) }
    // between two calls the maps are empty (every call drains them); while an iteration is open nothing is queued
    spec fn inv(&self) -> bool {
        &&& (self.received_end_iter ==> self.received_end)
        &&& self.accumulators@ =~= Map::<<Op::Out as KeyedItem>::Key, O>::empty()
        &&& self.timestamps@ =~= Map::<<Op::Out as KeyedItem>::Key, Timestamp>::empty()
        &&& (!self.received_end ==> self.ready@.len() == 0 && self.max_watermark is None)
        &&& forall|i: int| 0 <= i < self.ready@.len() ==> is_data(#[trigger] self.ready@[i])
    }
    spec fn pulled(o: &Self, n: &Self) -> Seq<StreamElement<Op::Out>> { n.prev.hist().skip(o.prev.hist().len() as int) }
    // the element a key contributes to the output
    spec fn result_of(d: KF<<Op::Out as KeyedItem>::Key, O>, k: <Op::Out as KeyedItem>::Key) -> StreamElement<(<Op::Out as KeyedItem>::Key, O)> {
        if d.tss.contains_key(k) { StreamElement::Timestamped((k, d.accs[k]), d.tss[k]) } else { StreamElement::Item((k, d.accs[k])) }
    }
    // `ext` holds exactly one element per key of d, the key's result (any order)
    spec fn is_results(d: KF<<Op::Out as KeyedItem>::Key, O>, ext: Seq<StreamElement<(<Op::Out as KeyedItem>::Key, O)>>) -> bool {
        &&& forall|i: int, j: int| 0 <= i < j < ext.len() ==> key_of_elem(#[trigger] ext[i]) != key_of_elem(#[trigger] ext[j])
        &&& forall|i: int| 0 <= i < ext.len() ==> d.accs.contains_key(key_of_elem(#[trigger] ext[i])) && ext[i] == Self::result_of(d, key_of_elem(ext[i]))
        &&& forall|k: <Op::Out as KeyedItem>::Key| d.accs.contains_key(k) ==> exists|i: int| 0 <= i < ext.len() && key_of_elem(#[trigger] ext[i]) == k
    }
    // the queue right after the drain phase of this call
    spec fn queue_ok(o: &Self, n: &Self, q: Seq<StreamElement<(<Op::Out as KeyedItem>::Key, O)>>) -> bool {
        if o.received_end { q == o.ready@ } else { Self::is_results(Self::run(o.init, Self::empty_state(), Self::pulled(o, n).drop_last()), q) }
    }
    spec fn wm_after_drain(o: &Self, n: &Self) -> Option<Timestamp> {
        if o.received_end { o.max_watermark } else { Self::run(o.init, Self::empty_state(), Self::pulled(o, n).drop_last()).wm }
    }
    spec fn end_iter_after_drain(o: &Self, n: &Self) -> bool {
        if o.received_end { o.received_end_iter } else { Self::pulled(o, n).last() is FlushAndRestart }
    }
}
'''
PROCESS_ITEM_SPEC = r'''
        requires Self::fold_ok(old(self).fold),
        ensures
            final(self).accumulators@ == Self::add_kv(old(self).init, old(self).accumulators@, key, value),     // #obl:keyed_fold.item_folded_into_its_keys_accumulator_only
            final(self).timestamps@ == old(self).timestamps@, final(self).ready@ == old(self).ready@,
            final(self).max_watermark == old(self).max_watermark, final(self).received_end == old(self).received_end,
            final(self).received_end_iter == old(self).received_end_iter, final(self).prev == old(self).prev,
            final(self).init == old(self).init, final(self).fold == old(self).fold,
'''
NEXT_SPEC = r'''
        requires old(self).inv(), Self::fold_ok(old(self).fold),
        ensures
            final(self).inv(), final(self).init == old(self).init, final(self).fold == old(self).fold,
            final(self).prev.hist().len() >= old(self).prev.hist().len(),
            // pulling phase: if the iteration was still open, everything up to (and including) its end marker is consumed
            !old(self).received_end ==> {
                let p = Self::pulled(old(self), final(self));
                p.len() > 0 && is_end(p.last()) && no_end(p.drop_last())                                    // #obl:keyed_fold.consumes_exactly_one_iteration
            },
            old(self).received_end ==> final(self).prev.hist() == old(self).prev.hist(),
            // output phase: the queued results one per call (one per key that occurred, the key's sequential fold stamped with the
            // key's max timestamp), then the held-back watermark, then the end marker
            ({
                let wm = Self::wm_after_drain(old(self), final(self));
                let ei = Self::end_iter_after_drain(old(self), final(self));
                if is_data(r) {
                    &&& Self::queue_ok(old(self), final(self), final(self).ready@.push(r))                   // #obl:keyed_fold.one_result_per_key_equal_to_the_keys_sequential_fold
                    &&& final(self).max_watermark == wm && final(self).received_end && final(self).received_end_iter == ei   // #obl:keyed_fold.watermark_and_end_marker_held_back_until_results_are_out
                } else {
                    &&& Self::queue_ok(old(self), final(self), Seq::empty())                                 // #obl:keyed_fold.control_only_when_no_result_is_pending
                    &&& final(self).ready@.len() == 0
                    &&& match wm {
                        Some(w) => {
                            &&& r == StreamElement::<(<Op::Out as KeyedItem>::Key, O)>::Watermark(w)         // #obl:keyed_fold.watermark_is_the_max_and_follows_the_results
                            &&& final(self).max_watermark is None && final(self).received_end && final(self).received_end_iter == ei
                        },
                        None => {
                            &&& final(self).max_watermark is None
                            &&& (ei ==> r is FlushAndRestart && !final(self).received_end && !final(self).received_end_iter)   // #obl:keyed_fold.nothing_carried_over
                            &&& (!ei ==> r is Terminate && final(self).received_end && !final(self).received_end_iter)         // #obl:keyed_fold.terminate_is_sticky
                        },
                    }
                }
            }),
'''


LOOP1 = r"""
            invariant
                self.init == old(self).init, self.fold == old(self).fold, Self::fold_ok(self.fold),
                self.prev.hist().len() >= old(self).prev.hist().len(),
                self.received_end_iter ==> self.received_end, old(self).inv(),
                self.ready@ == old(self).ready@, Self::dom_ok(self.view()),
                old(self).received_end ==> self.prev.hist() == old(self).prev.hist() && self.view() == old(self).view()
                    && self.received_end && self.received_end_iter == old(self).received_end_iter,
                (!old(self).received_end && !self.received_end) ==> no_end(Self::pulled(old(self), self))
                    && self.view() == Self::run(self.init, Self::empty_state(), Self::pulled(old(self), self))   // #obl:keyed_fold.state_is_the_sequential_run_of_the_pulled_elements
                    && !self.received_end_iter,
                (!old(self).received_end && self.received_end) ==> {
                    let p = Self::pulled(old(self), self);
                    p.len() > 0 && is_end(p.last()) && no_end(p.drop_last())
                    && self.view() == Self::run(self.init, Self::empty_state(), p.drop_last())
                    && (self.received_end_iter == (p.last() is FlushAndRestart))
                },
"""
LOOP2 = r"""
                invariant
                    __d@.len() <= d0.len(), __d@ =~= d0.skip(d0.len() - __d@.len()),
                    self.ready@.len() == r0.len() + (d0.len() - __d@.len()),
                    forall|i: int| 0 <= i < r0.len() ==> self.ready@[i] == r0[i],
                    forall|i: int| 0 <= i < d0.len() - __d@.len() ==> #[trigger] self.ready@[r0.len() + i] == Self::result_of(D, d0[i].0),   // #obl:keyed_fold.each_drained_key_queued_once_with_its_timestamp
                    forall|k: <Op::Out as KeyedItem>::Key| #[trigger] §timestamps§@.contains_key(k) <==> (D.tss.contains_key(k) && !(exists|i: int| 0 <= i < d0.len() - __d@.len() && (#[trigger] d0[i]).0 == k)),
                    forall|k: <Op::Out as KeyedItem>::Key| #[trigger] §timestamps§@.contains_key(k) ==> §timestamps§@[k] == D.tss[k],
                    forall|i: int, j: int| 0 <= i < j < d0.len() ==> (#[trigger] d0[i]).0 != (#[trigger] d0[j]).0,
                    forall|i: int| 0 <= i < d0.len() ==> D.accs.contains_key((#[trigger] d0[i]).0) && d0[i].1 == D.accs[d0[i].0],
                    self.accumulators@ =~= Map::<<Op::Out as KeyedItem>::Key, O>::empty(),
                    self.init == old(self).init, self.fold == old(self).fold, self.prev.hist() == hP, self.max_watermark == D.wm,
                    self.received_end, self.received_end_iter == old(self).received_end_iter || !old(self).received_end,
                decreases __d@.len(),
"""


def entry_match_by_definition(fr):
    """V-COMB: `match M.entry(K) { Entry::Vacant(e) => { S } Entry::Occupied(mut e) => { T } }` by the definition of the Entry API."""
    ws = r'(?:\s|//[^\n]*\n)*'
    rx = re.compile(r'match (?P<m>[\w\.]+)\.entry\((?P<k>\w+)\) \{' + ws + r'Entry::Vacant\((?P<e1>\w+)\) => \{(?P<s>.*?)\}' + ws + r'Entry::Occupied\((mut )?(?P<e2>\w+)\) => \{(?P<t>.*?)\}\s*\}', re.S)
    m = rx.search(fr.text)
    if not m:
        raise ScanError(f"{fr.what}: V-COMB entry-match not found")
    mp, k, e1, e2 = m.group('m'), m.group('k'), m.group('e1'), m.group('e2')
    s, n1 = re.subn(r'\b' + e1 + r'\.insert\((?P<v>\w+)\);', lambda mm: f"{mp}.insert({k}, {mm.group('v')});", m.group('s'))
    t, n2 = re.subn(r'\b' + e2 + r'\.get_mut\(\)', f"{mp}.get_mut_some(&{k})", m.group('t'))
    if n1 != 1 or n2 != 1 or re.search(r'\b' + e1 + r'\b', s) or re.search(r'\b' + e2 + r'\b', t):
        raise ScanError('V-COMB entry-match: the arms use the entry in a way the definition template does not cover')
    new = f"if !{mp}.contains_key(&{k}) {{ /*@vacant*/{s}}} else {{ /*@occupied*/{t}}}"
    fr.text = fr.text[:m.start()] + new + fr.text[m.end():]
    fr.note('V-COMB', 1, '`match M.entry(k) { Entry::Vacant(e) => { S; e.insert(v); } Entry::Occupied(mut e) => { T(e.get_mut()) } }` -> `if !M.contains_key(&k) { S; M.insert(k, v); } else { T(M.get_mut_some(&k)) }` (S, T verbatim)')


def entry_and_modify_or_insert(fr):
    rx = re.compile(r'(?P<m>[\w\.]+?)\s*\.entry\((?P<k>\w+)\)\s*\.and_modify\(\|(?P<e>\w+)\|\s*(?P<b>.*?)\)\s*\.or_insert\((?P<v>\w+)\);', re.S)
    m = rx.search(fr.text)
    if not m:
        raise ScanError('V-COMB and_modify/or_insert not found')
    mp, k, e, b, v = re.sub(r'\s+', '', m.group('m')), m.group('k'), m.group('e'), m.group('b').strip(), m.group('v')
    new = f"if {mp}.contains_key(&{k}) {{ let {e} = {mp}.get_mut_some(&{k}); {b}; /*@modified*/ }} else {{ {mp}.insert({k}, {v}); }}"
    fr.text = fr.text[:m.start()] + new + fr.text[m.end():]
    fr.note('V-COMB', 1, '`M.entry(k).and_modify(|e| B).or_insert(v);` -> `if M.contains_key(&k) { let e = M.get_mut_some(&k); B; } else { M.insert(k, v); }` (B verbatim)')


def extend_drain_map(fr):
    """V-ITER: `Q.extend(M.drain().map(|(k, v)| { B }));` -> loop over M.drain_all() pushing B (verbatim) to Q."""
    rx = re.compile(r'(?P<q>[\w\.]+?)\s*\.extend\(\s*(?P<m>[\w\.]+?)\s*\.drain\(\)\s*\.map\(\|\((?P<k>\w+), (?P<v>\w+)\)\|\s*\{', re.S)
    m = rx.search(fr.text)
    if not m:
        raise ScanError('V-ITER extend/drain/map not found')
    s = fr._src()
    ob = m.end() - 1
    cb = s.match_close(ob)
    tail = re.match(r'\s*\)\s*\)\s*;', fr.text[cb + 1:])
    if not tail:
        raise ScanError('V-ITER extend/drain/map: unexpected text after the closure')
    body = fr.text[ob:cb + 1]
    q, mp = re.sub(r'\s+', '', m.group('q')), re.sub(r'\s+', '', m.group('m'))
    new = (f"{{ let mut __d = {mp}.drain_all(); /*@drained*/\n"
           f"                while __d.len() > 0 {{ let ({m.group('k')}, {m.group('v')}) = __d.remove(0); /*@entry*/\n"
           f"                    let __x = {body};\n"
           f"                    {q}.push(__x); /*@pushed*/ }}\n"
           f"                /*@drain_end*/ }}")
    fr.text = fr.text[:m.start()] + new + fr.text[cb + 1 + tail.end():]
    fr.note('V-ITER', 1, '`Q.extend(M.drain().map(|(k, v)| { B }));` -> `let mut __d = M.drain_all(); while __d.len() > 0 { let (k, v) = __d.remove(0); let __x = { B }; Q.push(__x); }` (B verbatim; HashMap::drain yields every entry once in an arbitrary order)')


def build(x):
    pieces = [S.CLONE_IS_EQ, PRELUDE, x.enum(FO, 'StreamElement')]
    # integer constants of the file (a function under contract may refer to them)
    for cm in re.finditer(r'^(?:pub(?:\([a-z]+\))? )?const (\w+): (usize|u\d+|i\d+|isize) = ([^;]+);', x.src(F).text, re.M):
        pieces.append(f"const {cm.group(1)}: {cm.group(2)} = {cm.group(3)};   // extracted from {F}\n")
    ik = x.method(FS, '(K, V)', 'into_kv', trait='KeyedItem')
    ik.name_result('r')
    pieces += [TUPLE_IMPL.replace('§INTO_KV§', ik.fmt(ik.text) if hasattr(ik, 'fmt') else ik.text)]
    st = x.struct(F, 'KeyedFold')
    st.sub('V-SUBST', r'HashMap<([^;]*?), crate::block::GroupHasherBuilder>', r'KMap<\1>', detail='std HashMap<K, V, GroupHasherBuilder> -> map-view model KMap<K, V>', must=True)
    st.text = '#[verifier::reject_recursive_types(O)]\n#[verifier::reject_recursive_types(F)]\n#[verifier::reject_recursive_types(Op)]\n' + st.text
    pieces += [st, SPEC_IMPL]

    pi = x.method(F, 'KeyedFold', 'process_item')
    entry_match_by_definition(pi)
    pi.add_spec(PROCESS_ITEM_SPEC)
    pieces += ["impl<O, F, Op> KeyedFold<O, F, Op>\nwhere\n    Op::Out: KeyedItem,\n    F: Fn(&mut O, <Op::Out as KeyedItem>::Value) + Send + Clone,\n    O: Send + Clone,\n    Op: Operator,\n{", pi, "}"]

    nx = x.method(F, 'KeyedFold', 'next', trait='Operator')
    nx.replace_exact('V-TRAIT', 'StreamElement<Self::Out>', 'StreamElement<(<Op::Out as KeyedItem>::Key, O)>', detail='associated type Out substituted by its definition', count=None)
    nx.name_result('r')
    nx.add_spec(NEXT_SPEC)
    nx.text = '#[verifier::exec_allows_no_decreases_clause]\n' + nx.text
    entry_and_modify_or_insert(nx)
    extend_drain_map(nx)
    nx.deref_patterns()
    nx.bind('timestamps', r'let (\w+)(?:\s*:[^=]*)? = &(?:mut )?self\.timestamps;')
    nx.insert_before('while !self.received_end', 'proof { assert(Self::pulled(old(self), self) =~= Seq::<StreamElement<Op::Out>>::empty()); if !old(self).received_end { assert(self.view() == Self::empty_state()); } }\n        ')
    nx.insert_after_loop(1, '\n        let ghost D = self.view(); let ghost r0 = self.ready@; let ghost hP = self.prev.hist();\n        proof { if self.accumulators@.dom() =~= Set::empty() { assert(self.timestamps@ =~= Map::empty()); assert(self.accumulators@ =~= Map::empty()); if !old(self).received_end { assert(Self::is_results(D, self.ready@)); } } }\n        ')
    nx.add_loop_spec(1, LOOP1)
    nx.insert_before('match self.prev.next() {', 'let ghost h0 = self.prev.hist();\n            ')
    nx.sub('V-SPEC', r'match self\.prev\.next\(\) \{', 'let __e = self.prev.next();\n            proof { let k = old(self).prev.hist().len() as int; assert(self.prev.hist().skip(k) =~= h0.skip(k).push(__e)); Self::lemma_run_push(self.init, Self::empty_state(), h0.skip(k), __e); assert(h0.skip(k).push(__e).drop_last() =~= h0.skip(k)); }\n            match __e {',
           detail='scrutinee bound to a ghost-visible name `__e`', must=True)
    nx.insert_after('/*@drained*/', ' let ghost d0 = __d@;')
    nx.add_loop_spec(2, LOOP2)
    nx.insert_after('/*@entry*/', ' let ghost g = d0.len() - __d@.len() - 1; proof { assert(d0.skip(g)[0] == d0[g]); assert(d0.skip(g).skip(1) =~= d0.skip(g + 1)); }')
    nx.insert_after('/*@drain_end*/', ''' proof { assert(__d@.len() == 0);
                    if !old(self).received_end {
                        let q = self.ready@;
                        assert(r0.len() == 0);
                        assert forall|i: int| 0 <= i < q.len() implies q[i] == Self::result_of(D, d0[i].0) && key_of_elem(#[trigger] q[i]) == d0[i].0 by { assert(q[i] == self.ready@[r0.len() + i]); }
                        assert forall|k: <Op::Out as KeyedItem>::Key| D.accs.contains_key(k) implies exists|i: int| 0 <= i < q.len() && key_of_elem(#[trigger] q[i]) == k by {
                            let i = choose|i: int| 0 <= i < d0.len() && (#[trigger] d0[i]).0 == k; assert(key_of_elem(q[i]) == k);
                        }
                        assert(Self::is_results(D, q));
                    } }''')
    nx.insert_before('if let Some(elem) = self.ready.pop()', 'let ghost q0 = self.ready@;\n        proof { assert(self.timestamps@ =~= Map::empty()); assert(self.accumulators@ =~= Map::empty()); }\n        ')
    nx.insert_before('if let Some(ts) = self.max_watermark.take()', 'proof { assert(q0 =~= Seq::empty()); }\n        ')
    nx.insert_before('return elem;', 'proof { assert(self.ready@.push(elem) =~= q0); }\n            ')
    pieces += ["impl<O: Send + Clone, F, Op> KeyedFold<O, F, Op>\nwhere\n    F: Fn(&mut O, <Op::Out as KeyedItem>::Value) + Send + Clone,\n    Op: Operator,\n    Op::Out: KeyedItem,\n{", nx, "}"]
    return pieces
