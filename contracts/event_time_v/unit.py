"""C13 / C06 — EventTimeWindowManager::{alloc_windows, process} (src/operator/window/descr/event_time.rs), Verus,
unbounded in the number of open windows.  The three iterator-adapter chains of `process` are desugared by the declared
V-ITER templates (predicates and bodies are copied verbatim)."""
import os, re, sys
sys.path.insert(0, os.path.dirname(os.path.dirname(__file__)))
import std_specs as S

PROPERTIES = ["C13", "C06"]
MIN_VERIFIED = 5
VERUS_ARGS = ['--rlimit', '60']
F = 'src/operator/window/descr/event_time.rs'
FW = 'src/operator/window/mod.rs'
FO = 'src/operator/mod.rs'
ASSUMPTIONS = [
    "user accumulator contract (model trait WindowAccumulator: process appends to the ghost view, output is a function of it); Clone yields an equal value",
    "V-ITER: the iterator chains skip_while/take_while/for_each, partition_point and drain/filter/map/collect are desugared into index loops by fixed templates (engine/rsx.py), predicates and bodies verbatim; partition_point == linear scan because the slots are ordered by end (proved as part of inv)",
    "|timestamps| <= 2^60, size <= 2^40 (no i64 overflow in start + size)",
    "std specs assumed: VecDeque::back",
    "W_in: an element is not late w.r.t. the last watermark (the code asserts it)",
]
PRELUDE = r'''
use std::collections::VecDeque;
type Timestamp = i64;
trait Data: Clone {}
impl<T: Clone> Data for T {}
trait WindowAccumulator: Clone + Sized {
    type In;
    type Out;
    spec fn contents(&self) -> Seq<Self::In>;
    spec fn result(s: Seq<Self::In>) -> Self::Out;
    fn process(&mut self, el: Self::In)
        ensures final(self).contents() == old(self).contents().push(el);
    fn output(self) -> (r: Self::Out)
        ensures r == Self::result(self.contents());
}
broadcast use trusted_axioms::axiom_data_clone;
spec const B: int = 0x1000_0000_0000_0000;
spec fn bounded(t: int) -> bool { -B <= t <= B }
'''
SPEC_IMPL = r'''
spec const SLACK: int = 0x200_0000_0000;
impl<A: WindowAccumulator> EventTimeWindowManager<A> {
    spec fn wf(&self) -> bool {
        &&& 1 <= self.slide <= self.size <= 0x100_0000_0000
        &&& self.init.contents() =~= Seq::empty()
        &&& (self.last_watermark matches Some(w) ==> bounded(w as int))
    }
    spec fn slot_ok(&self, i: int) -> bool {
        let s = self.ws@[i];
        &&& s.end == s.start + self.size && -B <= s.start <= B + SLACK
        &&& s.active == (s.acc.contents().len() > 0)
        // slots are ordered, at least one slide apart; a larger gap only lies below the watermark (skipped empty windows)
        &&& (i > 0 ==> (s.start == self.ws@[i - 1].start + self.slide
                        || (self.last_watermark is Some && self.ws@[i - 1].start + self.slide <= s.start <= self.last_watermark->0)))
    }
    spec fn inv(&self) -> bool {
        &&& self.wf()
        &&& forall|i: int| 0 <= i < self.ws@.len() ==> #[trigger] self.slot_ok(i)
    }
    spec fn covers(&self, i: int, ts: Timestamp) -> bool { self.ws@[i].start <= ts < self.ws@[i].end }
    spec fn same_params(&self, o: &Self) -> bool { self.size == o.size && self.slide == o.slide && self.init == o.init }

    proof fn lemma_ordered(&self, i: int, j: int)
        requires self.inv(), 0 <= i <= j < self.ws@.len(),
        ensures self.ws@[i].start + (j - i) * self.slide <= self.ws@[j].start,
        decreases j - i
    {
        if i < j {
            self.lemma_ordered(i, j - 1);
            assert(self.slot_ok(j));
            assert((j - i) * self.slide == (j - 1 - i) * self.slide + self.slide) by (nonlinear_arith);
        } else {
            assert(0 * self.slide == 0) by (nonlinear_arith);
        }
    }
    proof fn lemma_mono(&self, i: int, j: int)
        requires self.inv(), 0 <= i < j < self.ws@.len(),
        ensures self.ws@[i].start < self.ws@[j].start, self.ws@[i].end < self.ws@[j].end,
    {
        self.lemma_ordered(i, j);
        assert((j - i) * self.slide >= 1) by (nonlinear_arith) requires j - i >= 1, self.slide >= 1;
        assert(self.slot_ok(i)); assert(self.slot_ok(j));
    }
    proof fn lemma_all_mono(&self)
        requires self.inv(),
        ensures forall|i: int, j: int| 0 <= i < j < self.ws@.len() ==> (#[trigger] self.ws@[i]).end < (#[trigger] self.ws@[j]).end,
    {
        assert forall|i: int, j: int| 0 <= i < j < self.ws@.len() implies (#[trigger] self.ws@[i]).end < (#[trigger] self.ws@[j]).end by { self.lemma_mono(i, j); }
    }
    // raising the watermark keeps the invariant (gaps below the old watermark are below the new one)
    proof fn lemma_inv_raise_watermark(&self, o: &Self)
        requires o.inv(), self.ws == o.ws, self.same_params(o), self.last_watermark matches Some(w) && bounded(w as int) && (o.last_watermark matches Some(l) ==> w >= l),
        ensures self.inv(),
    {
        assert forall|k: int| 0 <= k < self.ws@.len() implies #[trigger] self.slot_ok(k) by { assert(o.slot_ok(k)); }
    }
    // C13: an element that is not late and not before the first open window lies in at least one window
    proof fn lemma_covered(&self, ts: Timestamp, k: int)
        requires self.inv(), 0 <= k < self.ws@.len(), self.ws@[k].start <= ts <= self.ws@.last().start,
                 self.last_watermark matches Some(w) ==> ts >= w,
        ensures exists|j: int| k <= j < self.ws@.len() && #[trigger] self.covers(j, ts),
        decreases self.ws@.len() - k
    {
        assert(self.slot_ok(k));
        if k == self.ws@.len() - 1 {
            assert(self.covers(k, ts));
        } else {
            assert(self.slot_ok(k + 1));
            if self.ws@[k + 1].start <= ts {
                self.lemma_covered(ts, k + 1);
            } else {
                // the next slot starts after ts: no skip happened between k and k+1 (a skip only jumps below the watermark <= ts)
                assert(self.covers(k, ts));
            }
        }
    }
}
'''

HINT_DIV = r'''
            proof {
                // rounding down to a multiple of slide: 0 <= (a / slide) * slide <= a   (a = distance to the watermark)
                if self.last_watermark is Some {
                    let d = self.slide as int;
                    let a = if self.last_watermark->0 - next_start >= 0 { (self.last_watermark->0 - next_start) as int } else { 0int };
                    vstd::arithmetic::div_mod::lemma_fundamental_div_mod(a, d);
                    vstd::arithmetic::div_mod::lemma_mod_bound(a, d);
                    assert(d * (a / d) == (a / d) * d) by (nonlinear_arith);
                    assert(a / d >= 0) by (nonlinear_arith) requires a >= 0, d >= 1, d * (a / d) + a % d == a, 0 <= a % d < d;
                    assert((a / d) * d >= 0) by (nonlinear_arith) requires a / d >= 0, d >= 1;
                }
            }'''
ALLOC_SPEC = r'''
        requires old(self).inv(), bounded(ts as int),
            old(self).last_watermark matches Some(w) ==> ts >= w,
        ensures
            final(self).inv(), final(self).same_params(old(self)), final(self).last_watermark == old(self).last_watermark,   // #obl:alloc.inv_preserved
            final(self).ws@.len() >= old(self).ws@.len() && final(self).ws@.len() >= 1,
            forall|i: int| 0 <= i < old(self).ws@.len() ==> final(self).ws@[i] == old(self).ws@[i],                          // #obl:alloc.open_windows_untouched
            forall|i: int| old(self).ws@.len() <= i < final(self).ws@.len() ==> !(#[trigger] final(self).ws@[i]).active
                && final(self).ws@[i].acc.contents() =~= Seq::<A::In>::empty(),                                                // #obl:alloc.new_windows_empty
            final(self).ws@.last().start >= ts,                                                                               // #obl:alloc.allocates_up_to_the_element
            old(self).ws@.len() == 0 ==> final(self).ws@[0].start == ts,                                                       // #obl:alloc.first_window_starts_at_first_element
'''
ALLOC_INV = r'''
            invariant
                self.inv(), self.same_params(old(self)), self.last_watermark == old(self).last_watermark, bounded(ts as int),
                self.last_watermark matches Some(w) ==> ts >= w,
                self.ws@.len() >= old(self).ws@.len(),
                forall|i: int| 0 <= i < old(self).ws@.len() ==> self.ws@[i] == old(self).ws@[i],
                forall|i: int| old(self).ws@.len() <= i < self.ws@.len() ==> !(#[trigger] self.ws@[i]).active
                    && self.ws@[i].acc.contents() =~= Seq::<A::In>::empty(),
                old(self).ws@.len() == 0 && self.ws@.len() > 0 ==> self.ws@[0].start == ts,
            decreases (if self.ws@.len() == 0 { 4 * B + 1 } else { B + (ts - self.ws@.last().start) + 1 }),
'''
PROCESS_SPEC = r'''
        requires old(self).inv(),
            el matches StreamElement::Timestamped(_, ts) ==> bounded(ts as int) && (old(self).last_watermark matches Some(w) ==> ts >= w),
            el matches StreamElement::Watermark(w) ==> bounded(w as int) && (old(self).last_watermark matches Some(l) ==> w >= l),
            !(el is Item),
        ensures
            final(self).inv(), final(self).same_params(old(self)),                                                             // #obl:process.inv_preserved
            // ---- a timestamped element: assigned to exactly the windows whose interval contains it
            (el matches StreamElement::Timestamped(x, ts) ==> {
                &&& r@.len() == 0                                                                                              // #obl:process.element_emits_nothing
                &&& final(self).ws@.len() >= old(self).ws@.len() && final(self).last_watermark == old(self).last_watermark
                &&& forall|i: int| 0 <= i < old(self).ws@.len() ==> (#[trigger] final(self).ws@[i]).start == old(self).ws@[i].start
                &&& forall|i: int| 0 <= i < final(self).ws@.len() ==> (#[trigger] final(self).ws@[i]).acc.contents() == {
                        let base = if i < old(self).ws@.len() { old(self).ws@[i].acc.contents() } else { Seq::empty() };
                        if final(self).covers(i, ts) { base.push(x) } else { base } }                                        // #obl:process.element_in_every_covering_window_and_no_other
                &&& ((old(self).ws@.len() == 0 || ts >= old(self).ws@[0].start) ==>
                        exists|j: int| 0 <= j < final(self).ws@.len() && #[trigger] final(self).covers(j, ts))                // #obl:process.element_in_at_least_one_window
                &&& forall|i: int, j: int| 0 <= i < j < final(self).ws@.len() && #[trigger] final(self).covers(i, ts) && #[trigger] final(self).covers(j, ts)
                        ==> (j - i) * final(self).slide < final(self).size                                                      // #obl:process.at_most_ceil_size_over_slide_windows
            }),
            // ---- a watermark: fires exactly the windows it has passed, oldest first, stamped with their end
            (el matches StreamElement::Watermark(w) ==> {
                &&& final(self).last_watermark == Some(w)
                &&& exists|split: int| 0 <= split <= old(self).ws@.len()
                        // not earlier than a watermark reaching the window end, not later than the first watermark beyond it
                        && (forall|k: int| 0 <= k < split ==> (#[trigger] old(self).ws@[k]).end <= w)
                        && (split < old(self).ws@.len() ==> old(self).ws@[split].end >= w)
                        && final(self).ws@ =~= old(self).ws@.skip(split)
                        && #[trigger] fired(old(self).ws@, split) == r@                                                          // #obl:process.watermark_fires_exactly_the_passed_windows
            }),
            // C06: after a watermark no result at or below it can still be produced
            (el matches StreamElement::Watermark(w) ==>
                forall|i: int| 0 <= i < final(self).ws@.len() && (#[trigger] final(self).ws@[i]).active ==> final(self).ws@[i].end > w),   // #obl:process.no_future_result_at_or_below_watermark
            // C13: an element that is not late is never dropped, whatever the arrival order
            (el matches StreamElement::Timestamped(x, ts) ==>
                exists|j: int| 0 <= j < final(self).ws@.len() && #[trigger] final(self).covers(j, ts)),                         // #obl:process.early_element_not_dropped
            (el is FlushAndRestart || el is Terminate) ==> final(self).ws@.len() == 0 && r@ == fired(old(self).ws@, old(self).ws@.len() as int),   // #obl:process.end_fires_all_and_carries_nothing_over
            el is FlushBatch ==> r@.len() == 0 && final(self).ws@ == old(self).ws@ && final(self).last_watermark == old(self).last_watermark,       // #obl:process.flush_batch_ignored
'''
HINT_ELEMENT_END = r'''proof {
                    let e = __i as int;
                    assert forall|k: int| 0 <= k < self.ws@.len() implies #[trigger] self.slot_ok(k) by {
                        assert(mid.slot_ok(k));
                        if k > 0 { assert(mid.slot_ok(k - 1)); }
                    }
                    assert forall|k: int| 0 <= k < self.ws@.len() implies   // #obl:process.element_added_to_exactly_the_covering_windows
                        (#[trigger] self.ws@[k]).acc.contents() == (if self.covers(k, ts) { mid.ws@[k].acc.contents().push(item) } else { mid.ws@[k].acc.contents() }) by {
                        if k < i0 { }
                        else if k < e {
                            if k > i0 { mid.lemma_mono(i0 as int, k); }
                        } else {
                            if e < k { mid.lemma_mono(e, k); }
                        }
                    }
                    if old(self).ws@.len() == 0 || ts >= old(self).ws@[0].start {
                        mid.lemma_covered(ts, 0);
                        let j = choose|j: int| 0 <= j < mid.ws@.len() && #[trigger] mid.covers(j, ts);
                        assert(self.covers(j, ts));
                    }
                    assert forall|a: int, b: int| 0 <= a < b < self.ws@.len() && #[trigger] self.covers(a, ts) && #[trigger] self.covers(b, ts)
                        implies (b - a) * self.slide < self.size by {
                        mid.lemma_ordered(a, b);
                        assert(mid.slot_ok(a));
                        assert(self.ws@[a].start == mid.ws@[a].start && self.ws@[b].start == mid.ws@[b].start && self.ws@[a].end == mid.ws@[a].end);
                        assert(mid.ws@[a].start + (b - a) * mid.slide <= mid.ws@[b].start);
                    }
                }
                '''
HINT_WM_END = r'''proof {
                    assert forall|k: int| 0 <= k < self.ws@.len() implies #[trigger] self.slot_ok(k) by {
                        assert(mid.slot_ok(k + §partition_point_var§ as int));
                        if k > 0 { assert(mid.slot_ok(k - 1 + §partition_point_var§ as int)); }
                    }
                    if (§partition_point_var§ as int) < mid.ws@.len() { assert(mid.ws@[§partition_point_var§ as int].end >= ts); }
                    assert forall|i: int| 0 <= i < self.ws@.len() implies (#[trigger] self.ws@[i]).end >= mid.ws@[§partition_point_var§ as int].end by { if i > 0 { mid.lemma_mono(§partition_point_var§ as int, i + §partition_point_var§ as int); } }
                    assert(fired(old(self).ws@, §partition_point_var§ as int) == __out@);
                }
            '''
FIRED = r'''
// results of the active windows among the first k, oldest first, each stamped with its window end
spec fn fired<A: WindowAccumulator>(ws: Seq<Slot<A>>, k: int) -> Seq<WindowResult<A::Out>>
    decreases k
{
    if k <= 0 { Seq::empty() } else {
        let p = fired(ws, k - 1);
        if ws[k - 1].active { p.push(WindowResult::Timestamped(A::result(ws[k - 1].acc.contents()), ws[k - 1].end)) } else { p }
    }
}
'''

def build(x):
    pieces = [S.VECDEQUE_BACK, S.CLONE_IS_EQ, S.RUST_PANIC, PRELUDE, x.enum(FO, 'StreamElement'), x.enum(FW, 'WindowResult')]
    pieces += [x.struct(F, 'EventTimeWindowManager'), x.struct(F, 'Slot')]
    sn = x.method(F, 'Slot', 'new'); sn.name_result('r')
    sn.add_spec("        ensures r.acc == acc, r.start == start, r.end == end, !r.active, // #obl:slot.new")
    pieces += ["impl<A> Slot<A> {", sn, "}", SPEC_IMPL, FIRED]
    al = x.method(F, 'EventTimeWindowManager', 'alloc_windows')
    al.desugar_assert()
    al.annotate_closure('self.last_watermark.map(', 'w: Timestamp', 'ok: bool', 'ok == (ts >= w)', obl='alloc.not_late_check')
    al.annotate_closure(re.compile(r'while self\.ws\.back\(\)\.map\('), 'b: &Slot<A>', 'more: bool', 'more == (b.start < ts)', obl='alloc.allocates_until_slot_start_reaches_ts')
    al.annotate_closure(re.compile(r'let (?:mut )?\w+ = self\.ws\.back\(\)\.map\('), 'b: &Slot<A>', 'ns: Timestamp', 'ns == b.start + self.slide', requires='-B <= b.start <= B + SLACK && 1 <= self.slide <= 0x100_0000_0000', obl='alloc.next_start_is_previous_plus_slide')
    al.add_spec(ALLOC_SPEC)
    al.add_loop_spec(1, ALLOC_INV)
    al.insert_after_stmt('let mut next_start', HINT_DIV)
    al.insert_before('let mut next_start', 'proof { if self.ws@.len() > 0 { assert(self.slot_ok(self.ws@.len() - 1)); } }\n            let ghost before = *self;\n            ')
    al.insert_before('self.ws.push_back(Slot::new(', 'let ghost ns = next_start;\n            ')
    al.insert_after_stmt('self.ws.push_back(Slot::new(', '''
            proof {
                let n = self.ws@.len() - 1;
                assert(self.ws@ =~= before.ws@.push(self.ws@[n]));
                assert forall|k: int| 0 <= k < self.ws@.len() implies #[trigger] self.slot_ok(k) by {
                    if k < n { assert(before.slot_ok(k)); }
                }
            }''')
    pr = x.method(F, 'EventTimeWindowManager', 'process', trait='WindowManager')
    pr.replace_exact('V-TRAIT', 'Self::Output', 'Vec<WindowResult<A::Out>>', detail='associated type Output substituted')
    pr.iter_skip_take_foreach()
    pr.iter_partition_point()
    pr.iter_drain_filter_map_collect(1)
    pr.iter_drain_filter_map_collect(1)
    pr.name_result('r')
    pr.add_spec(PROCESS_SPEC)
    pr.insert_after('self.alloc_windows(ts);', '\n                let ghost mid = *self;\n                proof { mid.lemma_all_mono(); }')
    pr.add_loop_spec(1, r'''
                    invariant __i <= self.ws@.len(), *self == mid,
                        forall|k: int| 0 <= k < __i ==> (#[trigger] self.ws@[k]).end <= ts,
                    decreases self.ws@.len() - __i,
''')
    pr.insert_before('while __i < self.ws.len() && (self.ws[__i].start', 'let ghost i0 = __i;\n                ')
    pr.add_loop_spec(2, r'''
                    invariant i0 <= __i <= self.ws@.len(), self.ws@.len() == mid.ws@.len(), self.same_params(&mid), self.last_watermark == mid.last_watermark,
                        forall|k: int| 0 <= k < self.ws@.len() ==> (#[trigger] self.ws@[k]).start == mid.ws@[k].start && self.ws@[k].end == mid.ws@[k].end,
                        forall|k: int| i0 <= k < __i ==> (#[trigger] self.ws@[k]).start <= ts && self.ws@[k].active
                            && self.ws@[k].acc.contents() == mid.ws@[k].acc.contents().push(item),
                        forall|k: int| (0 <= k < i0 || __i <= k < self.ws@.len()) ==> (#[trigger] self.ws@[k]) == mid.ws@[k],
                    decreases self.ws@.len() - __i,
''')
    pr.insert_after('/*@foreach_end*/', '\n                ' + HINT_ELEMENT_END)
    pr.insert_after('self.last_watermark = Some(ts);', '\n                let ghost mid = *self;\n                proof { mid.lemma_inv_raise_watermark(old(self)); mid.lemma_all_mono(); }')
    pr.add_loop_spec(3, r'''
            invariant §partition_point_var§ <= self.ws@.len(), *self == mid,
                forall|k: int| 0 <= k < §partition_point_var§ ==> (#[trigger] self.ws@[k]).end <= ts,
            decreases self.ws@.len() - §partition_point_var§,
''')
    pr.add_loop_spec(4, r'''
                invariant __j <= §partition_point_var§ <= mid.ws@.len(), self.ws@ =~= mid.ws@.skip(__j as int), __out@ == fired(mid.ws@, __j as int),
                    self.same_params(&mid), self.last_watermark == mid.last_watermark,
                decreases §partition_point_var§ - __j,
''')
    pr.insert_after('/*@drain_end*/', '\n            ' + HINT_WM_END, nth=1)
    pr.add_loop_spec(5, r'''
                invariant self.ws@.len() <= old(self).ws@.len(), self.ws@ =~= old(self).ws@.skip(old(self).ws@.len() - self.ws@.len()),
                    __out@ == fired(old(self).ws@, old(self).ws@.len() - self.ws@.len()),
                    self.same_params(old(self)), self.last_watermark == old(self).last_watermark,
                decreases self.ws@.len(),
''')
    pieces += ["impl<A: WindowAccumulator> EventTimeWindowManager<A> {", al, "}",
               "impl<A: WindowAccumulator> EventTimeWindowManager<A>\nwhere\n    A::In: Data,\n    A::Out: Data,\n{", pr, "}"]
    return pieces
