//! Contract harness for TransactionWindowManager::process (overlay, cfg(kani) only).
use super::*;

#[derive(Clone, Copy, Debug, PartialEq, Eq)]
pub struct Log { n: u8, items: [u8; 3] }
impl WindowAccumulator for Log {
    type In = u8;
    type Out = Log;
    fn process(&mut self, el: u8) {
        if (self.n as usize) < 3 { self.items[self.n as usize] = el; }
        self.n = self.n.saturating_add(1);
    }
    fn output(self) -> Log { self }
}
const EMPTY: Log = Log { n: 0, items: [0; 3] };

// the user's transaction logic, a fixed total function of the element: low 2 bits choose the operation
fn logic(x: &u8) -> TransactionOp {
    match *x % 4 {
        0 => TransactionOp::Continue,
        1 => TransactionOp::Commit,
        2 => TransactionOp::CommitAfter((*x / 4) as Timestamp),
        _ => TransactionOp::Discard,
    }
}

#[kani::proof]
fn transaction_process_contract() {
    let open: bool = kani::any();
    let old_log = Log { n: kani::any(), items: kani::any() };
    kani::assume(old_log.n >= 1 && old_log.n < 200);
    let close: Option<Timestamp> = kani::any();
    let mut m = TransactionWindowManager { init: EMPTY, f: logic, w: if open { Some(Slot { acc: old_log, close }) } else { None } };
    let sel: u8 = kani::any();
    let x: u8 = kani::any();
    let t: Timestamp = kani::any();
    let el = match sel % 5 {
        0 => StreamElement::Timestamped(x, t),
        1 => StreamElement::Watermark(t),
        2 => StreamElement::FlushBatch,
        3 => StreamElement::FlushAndRestart,
        _ => StreamElement::Terminate,
    };
    let r = m.process(el);
    let cur = if open { old_log } else { EMPTY };
    match sel % 5 {
        0 => {
            let mut want = cur;
            want.process(x);
            match x % 4 {
                0 => kani::assert(r.is_none() && matches!(&m.w, Some(s) if s.acc == want && s.close == if open { close } else { None }), "obl:transaction.continue_keeps_accumulating"),
                1 => kani::assert(r == Some(WindowResult::Item(want)) && m.w.is_none(), "obl:transaction.commit_outputs_now_including_the_element"),
                2 => kani::assert(r.is_none() && matches!(&m.w, Some(s) if s.acc == want && s.close == Some((x / 4) as Timestamp)), "obl:transaction.commit_after_registers_deadline"),
                _ => kani::assert(r.is_none() && m.w.is_none(), "obl:transaction.discard_drops_without_output"),
            }
        }
        1 => {
            let fire = open && matches!(close, Some(c) if c < t);
            if fire {
                kani::assert(r == Some(WindowResult::Item(old_log)) && m.w.is_none(), "obl:transaction.commit_after_fires_at_first_later_watermark");
            } else {
                kani::assert(r.is_none() && m.w.is_some() == open, "obl:transaction.watermark_otherwise_keeps_window");
            }
        }
        2 => kani::assert(r.is_none() && m.w.is_some() == open, "obl:transaction.flush_batch_ignored"),
        _ => {
            let fire = open && close.is_some();
            if fire {
                kani::assert(r == Some(WindowResult::Item(old_log)) && m.w.is_none(), "obl:transaction.pending_commit_fires_at_end");
            } else {
                kani::assert(r.is_none(), "obl:transaction.no_commit_without_user_decision");
            }
            if sel % 5 == 3 {
                // C05: a window operator carries nothing over into the next iteration
                kani::assert(m.w.is_none(), "obl:transaction.iteration_end_carries_nothing_over");
            }
        }
    }
    kani::cover!(sel % 5 == 0 && x % 4 == 1 && open, "cov:commit_on_open_window");
    kani::cover!(sel % 5 == 1 && r.is_some(), "cov:watermark_fires");
}
