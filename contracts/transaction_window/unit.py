"""C13 (transaction windows) — TransactionWindowManager::process: loop-free Kani contract harness (complete)."""
ENGINE = 'kani'
PROPERTIES = ['C13']
FUNCTIONS = ['src/operator/window/descr/transaction.rs: TransactionWindowManager::process']
OVERLAY = [('src/operator/window/descr/transaction/verif_transaction.rs', 'verif_transaction.rs')]
MOD_LINES = [('src/operator/window/descr/transaction.rs', '#[cfg(kani)] mod verif_transaction;')]
ASSUMPTIONS = [
    'user logic instantiated by a fixed total function covering all four TransactionOp variants; accumulator = Log (first 3 items + count)',
]
HARNESSES = [
    {'name': 'transaction_process_contract', 'tier': 'quick', 'timeout': 900, 'form': 'K-step (loop-free: complete)', 'bounds': 'none'},
]
KANI_ARGS = []
