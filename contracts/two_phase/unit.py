"""C07 — 'two-phase forms change nothing': a pure Verus lemma over the Fold contract's sequential semantics.
No code is extracted here: the lemma connects the per-operator contract (unit `fold`: each Fold outputs the sequential
left fold of what it received, nothing for an empty input) to the statement about fold_assoc / reduce_assoc wiring."""
PROPERTIES = ["C07"]
MIN_VERIFIED = 4
ASSUMPTIONS = [
    "algebraic laws of the user functions (stated as hypotheses of the lemma): global(a, local(b, x)) == local(global(a, b), x), global(a, init) == a, and local is commutative over elements (order of arrival irrelevant)",
    "wiring of fold_assoc/reduce_assoc/group_by_* (local Fold -> shuffle/group-by -> global Fold) is read off src/operator/mod.rs, not verified",
]
TEXT = r'''
spec fn foldl<A, T>(f: spec_fn(A, T) -> A, a: A, s: Seq<T>) -> A
    decreases s.len()
{
    if s.len() == 0 { a } else { f(foldl(f, a, s.drop_last()), s.last()) }
}
spec fn flatten<T>(parts: Seq<Seq<T>>) -> Seq<T>
    decreases parts.len()
{
    if parts.len() == 0 { Seq::empty() } else { flatten(parts.drop_last()) + parts.last() }
}
spec fn laws<A, T>(local: spec_fn(A, T) -> A, global: spec_fn(A, A) -> A, init: A) -> bool {
    &&& forall|a: A, b: A, x: T| #[trigger] global(a, local(b, x)) == local(global(a, b), x)
    &&& forall|a: A| #[trigger] global(a, init) == a
}
proof fn lemma_foldl_append<A, T>(f: spec_fn(A, T) -> A, a: A, s: Seq<T>, t: Seq<T>)
    ensures foldl(f, a, s + t) == foldl(f, foldl(f, a, s), t)
    decreases t.len()
{
    if t.len() == 0 {
        assert(s + t =~= s);
    } else {
        assert((s + t).drop_last() =~= s + t.drop_last());
        lemma_foldl_append(f, a, s, t.drop_last());
    }
}
// a partial result computed from `init` can be merged into any accumulator
proof fn lemma_global_absorbs<A, T>(local: spec_fn(A, T) -> A, global: spec_fn(A, A) -> A, init: A, a: A, xs: Seq<T>)
    requires laws(local, global, init),
    ensures global(a, foldl(local, init, xs)) == foldl(local, a, xs)        // #obl:two_phase.partial_merges_into_any_accumulator
    decreases xs.len()
{
    if xs.len() > 0 {
        lemma_global_absorbs(local, global, init, a, xs.drop_last());
    }
}
// C07: folding the per-replica partial results equals folding all elements sequentially,
// for every partition of the input into per-replica sequences (empty partitions included)
proof fn lemma_two_phase<A, T>(local: spec_fn(A, T) -> A, global: spec_fn(A, A) -> A, init: A, parts: Seq<Seq<T>>)
    requires laws(local, global, init),
    ensures foldl(global, init, parts.map(|i: int, p: Seq<T>| foldl(local, init, p))) == foldl(local, init, flatten(parts))   // #obl:two_phase.local_then_global_equals_sequential
    decreases parts.len()
{
    let partials = parts.map(|i: int, p: Seq<T>| foldl(local, init, p));
    if parts.len() > 0 {
        let pp = parts.drop_last();
        lemma_two_phase(local, global, init, pp);
        assert(partials.drop_last() =~= pp.map(|i: int, p: Seq<T>| foldl(local, init, p)));
        lemma_global_absorbs(local, global, init, foldl(local, init, flatten(pp)), parts.last());
        lemma_foldl_append(local, init, flatten(pp), parts.last());
    }
}
// order of arrival is irrelevant for a commutative fold: swapping two adjacent elements changes nothing
proof fn lemma_adjacent_swap<A, T>(f: spec_fn(A, T) -> A, a: A, s: Seq<T>, i: int)
    requires 0 <= i < s.len() - 1, forall|b: A, x: T, y: T| #[trigger] f(f(b, x), y) == f(f(b, y), x),
    ensures foldl(f, a, s) == foldl(f, a, s.update(i, s[i + 1]).update(i + 1, s[i]))    // #obl:two_phase.arrival_order_irrelevant
    decreases s.len()
{
    let t = s.update(i, s[i + 1]).update(i + 1, s[i]);
    if i == s.len() - 2 {
        let base = foldl(f, a, s.drop_last().drop_last());
        assert(s.drop_last().drop_last() =~= t.drop_last().drop_last());
        assert(t.drop_last().last() == s.last());
        assert(t.last() == s.drop_last().last());
        assert(foldl(f, a, s.drop_last()) == f(base, s.drop_last().last()));
        assert(foldl(f, a, s) == f(f(base, s.drop_last().last()), s.last()));
        assert(foldl(f, a, t.drop_last()) == f(base, t.drop_last().last()));
        assert(foldl(f, a, t) == f(f(base, t.drop_last().last()), t.last()));
    } else {
        assert(t.drop_last() =~= s.drop_last().update(i, s[i + 1]).update(i + 1, s[i]));
        lemma_adjacent_swap(f, a, s.drop_last(), i);
        assert(t.last() == s.last());
    }
}
'''
def build(x):
    return [TEXT]
