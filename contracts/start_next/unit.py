"""C05 / C06 / C16 / C17 / C18 — Start::next (src/operator/start/mod.rs) with NetworkMessage::{into_iter,
sender,new_single} and NetworkDataIterator::next, against the per-call contract:

  taken      = the elements pulled from batches during this call (ghost, defined from pre/post state)
  returns    Terminate only when every upstream Terminate was consumed, FlushAndRestart only when every
             upstream FlushAndRestart of the iteration was consumed (then resets), otherwise exactly the
             last pulled element (data / FlushBatch) or the frontier's announcement for a pulled watermark;
             every element pulled before it was a control element that is *absorbed* (never data).
Callees under contract only: WatermarkFrontier::{update,reset} (unit frontier), receiver (environment),
IterationStateLock::wait_for_update (unit state_lock)."""
import os, re, sys
sys.path.insert(0, os.path.dirname(os.path.dirname(__file__)))
import std_specs as S
import shared as SH

PROPERTIES = ["C05", "C06", "C16", "C17", "C18"]
MIN_VERIFIED = 8
FS = 'src/operator/start/mod.rs'
FN = 'src/network/mod.rs'
FO = 'src/operator/mod.rs'
FC = 'src/channel.rs'

ASSUMPTIONS = [
    "environment contract of the receiver (R-CHAN): recv/recv_timeout return the next batch of the link; batches are non-empty, come from a known upstream replica and never contain FlushBatch (End::next never enqueues FlushBatch: obligation end.routes_... of unit end_next)",
    "callee contracts used, not bodies: WatermarkFrontier::update/reset (unit frontier), IterationStateLock::wait_for_update (blocks until the generation is reached)",
    "V-TRAIT: `impl Iterator for NetworkDataIterator` / `impl IntoIterator for NetworkMessage` methods extracted as inherent methods",
    "Default::default() for Coord is the all-zero coordinate (derive(Default))",
    "Arc<IterationStateLock> modelled as an owned opaque lock (only as_ref()/wait_for_update are used)",
]

PRELUDE = r'''
use vstd::std_specs::iter::IteratorSpec;
type BlockId = u64; type HostId = u64; type ReplicaId = u64; type Timestamp = i64;
trait ExchangeData: Clone + Send + 'static {}

#[verifier::external_body]
#[derive(Clone, Copy)]
struct Duration {}

// ---- model of crate::operator::start::StartReceiver (environment contract, R-CHAN)
trait StartReceiver: Sized {
    type Out;
    // every batch received so far, in order
    spec fn received(&self) -> Seq<NetworkMessage<Self::Out>>;
    // the upstream replicas this receiver is connected to
    spec fn upstream(&self) -> Set<Coord>;
    // number of waits made without a timeout so far (ghost; C18)
    spec fn untimed_waits(&self) -> nat;
    fn recv_timeout(&mut self, timeout: Duration) -> (r: Result<NetworkMessage<Self::Out>, RecvTimeoutError>)
        ensures
            final(self).upstream() == old(self).upstream(), final(self).untimed_waits() == old(self).untimed_waits(),
            r is Err ==> final(self).received() == old(self).received(),
            r is Ok ==> final(self).received() == old(self).received().push(r->Ok_0) && legal_batch(r->Ok_0, old(self).upstream());
    fn recv(&mut self) -> (r: NetworkMessage<Self::Out>)
        ensures
            final(self).upstream() == old(self).upstream(), final(self).untimed_waits() == old(self).untimed_waits() + 1,
            final(self).received() == old(self).received().push(r) && legal_batch(r, old(self).upstream());
}
spec fn legal_batch<T>(m: NetworkMessage<T>, up: Set<Coord>) -> bool {
    &&& up.contains(m.sender)
    &&& msg_data(m).len() > 0
    &&& forall|i: int| 0 <= i < msg_data(m).len() ==> !(#[trigger] msg_data(m)[i] is FlushBatch)
}
spec fn msg_data<T>(m: NetworkMessage<T>) -> Seq<StreamElement<T>> {
    match m.data { NetworkData::Batch(v) => v@ }
}

// ---- contract stub of IterationStateLock (wait_for_update blocks until generation >= g)
#[verifier::external_body]
struct IterationStateLock {}
impl IterationStateLock {
    uninterp spec fn reached(&self, generation: usize) -> bool;
    #[verifier::external_body]
    fn wait_for_update(&self, generation: usize)
        ensures self.reached(generation)
    { unimplemented!() }
}
// model of Arc<T>: transparent (only Option::as_ref + a &self method call go through it)
type Arc<T> = T;
'''

FRONTIER_STUB = r'''
// ---- contract stub of WatermarkFrontier (bodies verified in unit `frontier`)
#[verifier::external_body]
struct WatermarkFrontier {}
''' + SH.FRONTIER_SPEC + r'''
impl WatermarkFrontier {
    uninterp spec fn entries(&self) -> Map<Coord, Option<Timestamp>>;
    uninterp spec fn front(&self) -> Option<Timestamp>;
    #[verifier::external_body]
    fn update(&mut self, coord: Coord, ts: Timestamp) -> (r: Option<Timestamp>)
        requires ''' + SH.FRONTIER_UPDATE_REQUIRES + r'''
        ensures ''' + SH.FRONTIER_UPDATE_ENSURES + r'''
    { unimplemented!() }
    #[verifier::external_body]
    fn reset(&mut self)
        ensures ''' + SH.FRONTIER_RESET_ENSURES + r'''
    { unimplemented!() }
}
'''

SPEC_IMPL = r'''
spec fn count_fr<T>(s: Seq<StreamElement<T>>) -> nat decreases s.len() {
    if s.len() == 0 { 0 } else { count_fr(s.drop_last()) + (if s.last() is FlushAndRestart { 1nat } else { 0nat }) }
}
spec fn count_term<T>(s: Seq<StreamElement<T>>) -> nat decreases s.len() {
    if s.len() == 0 { 0 } else { count_term(s.drop_last()) + (if s.last() is Terminate { 1nat } else { 0nat }) }
}
spec fn is_control<T>(e: StreamElement<T>) -> bool { e is Watermark || e is FlushAndRestart || e is Terminate }
spec fn all_control<T>(s: Seq<StreamElement<T>>) -> bool { forall|i: int| 0 <= i < s.len() ==> is_control(#[trigger] s[i]) }
proof fn lemma_counts_push<T>(s: Seq<StreamElement<T>>, e: StreamElement<T>)
    ensures count_fr(s.push(e)) == count_fr(s) + (if e is FlushAndRestart { 1nat } else { 0nat }),
            count_term(s.push(e)) == count_term(s) + (if e is Terminate { 1nat } else { 0nat }),
            all_control(s) && is_control(e) ==> all_control(s.push(e)),
{
    assert(s.push(e).drop_last() =~= s);
}

impl<Receiver: StartReceiver + Send> Start<Receiver> {
    // elements of the current batch not yet pulled
    #[verifier::prophetic]
    spec fn unread(&self) -> Seq<StreamElement<Receiver::Out>> {
        match self.batch_iter {
            Some((_, NetworkDataIterator::Batch(i))) => i.remaining(),
            None => Seq::empty(),
        }
    }
    #[verifier::prophetic]
    spec fn no_flush_batch_unread(&self) -> bool {
        forall|i: int| 0 <= i < self.unread().len() ==> !(#[trigger] self.unread()[i] is FlushBatch)
    }
    // invariant at call boundaries
    #[verifier::prophetic]
    spec fn inv(&self) -> bool { self.inv_core() && self.no_flush_batch_unread() }
    #[verifier::prophetic]
    spec fn inv_core(&self) -> bool {
        &&& self.coord is Some
        &&& self.missing_flush_and_restart <= self.num_previous_replicas
        &&& self.watermark_frontier.entries().dom() == self.receiver.upstream()
        &&& frontier_of(self.watermark_frontier.entries(), self.watermark_frontier.front())
        // the batch being read comes from a known upstream replica, or is the synthetic FlushBatch of a timeout
        &&& (self.batch_iter matches Some((s, _)) ==> (self.receiver.upstream().contains(s) || self.unread().len() == 0
                || (self.unread().len() == 1 && self.unread()[0] is FlushBatch)))
        // after a timeout nothing real is left unread (the synthetic FlushBatch at most)
        &&& (self.already_timed_out ==> self.unread().len() == 0 || (self.unread().len() == 1 && self.unread()[0] is FlushBatch))
    }
}
'''

NEXT_SPEC = r'''
        requires
            old(self).inv(),
            old(self).state_generation <= usize::MAX - 2,
        ensures
            final(self).inv(),                                                                       // #obl:start.inv_preserved
            exists|taken: Seq<StreamElement<Receiver::Out>>, fake: bool| #[trigger] Self::step(old(self), final(self), r, taken, fake),   // #obl:start.step_contract
'''

STEP_SPEC = r'''
spec fn flat_msgs<T>(log: Seq<NetworkMessage<T>>) -> Seq<StreamElement<T>>
    decreases log.len()
{
    if log.len() == 0 { Seq::empty() } else { flat_msgs(log.drop_last()) + msg_data(log.last()) }
}
proof fn lemma_flat_msgs_push<T>(log: Seq<NetworkMessage<T>>, m: NetworkMessage<T>)
    ensures flat_msgs(log.push(m)) == flat_msgs(log) + msg_data(m)
{
    assert(log.push(m).drop_last() =~= log);
}
spec fn fresh_before_recv<R: StartReceiver + Send>(o: &Start<R>, r0: Seq<NetworkMessage<R::Out>>) -> Seq<StreamElement<R::Out>> {
    flat_msgs(r0.skip(o.receiver.received().len() as int))
}
spec fn fake_batch<T>(fake: bool) -> Seq<StreamElement<T>> {
    if fake { seq![StreamElement::FlushBatch] } else { Seq::empty() }
}

impl<Receiver: StartReceiver + Send> Start<Receiver> {
    spec fn same_config(&self, o: &Self) -> bool {
        &&& self.num_previous_replicas == o.num_previous_replicas
        &&& self.coord == o.coord
        &&& self.max_delay == o.max_delay
        &&& self.state_lock == o.state_lock
        &&& self.receiver.upstream() == o.receiver.upstream()
    }
    // everything received in this call (plus the synthetic FlushBatch of a timeout)
    #[verifier::prophetic]
    spec fn fresh(o: &Self, n: &Self, fake: bool) -> Seq<StreamElement<Receiver::Out>> {
        flat_msgs(n.receiver.received().skip(o.receiver.received().len() as int)) + fake_batch(fake)
    }
    // THE per-call contract of Start::next.  `taken` = elements pulled from the batches during the call.
    #[verifier::prophetic]
    spec fn step(o: &Self, n: &Self, r: StreamElement<Receiver::Out>, taken: Seq<StreamElement<Receiver::Out>>, fake: bool) -> bool {
        &&& n.same_config(o)
        // link -> chain: nothing lost, duplicated or reordered (C02/C16)
        &&& n.receiver.received().len() >= o.receiver.received().len()
        &&& n.receiver.received().take(o.receiver.received().len() as int) =~= o.receiver.received()
        &&& o.unread() + Self::fresh(o, n, fake) =~= taken + n.unread()
        &&& match r {
            StreamElement::Terminate => {
                // only after every upstream Terminate (C05); all pulled elements were control elements
                &&& all_control(taken)
                &&& o.missing_terminate == count_term(taken) && n.missing_terminate == 0
                &&& n.missing_flush_and_restart + count_fr(taken) == o.missing_flush_and_restart
                &&& n.state_generation == o.state_generation
            },
            StreamElement::FlushAndRestart => {
                // only after every upstream FlushAndRestart of this iteration; then the per-iteration state restarts
                &&& all_control(taken)
                &&& o.missing_flush_and_restart == count_fr(taken)
                &&& o.missing_terminate > count_term(taken) && n.missing_terminate + count_term(taken) == o.missing_terminate
                &&& n.missing_flush_and_restart == n.num_previous_replicas
                &&& n.watermark_frontier.front() is None
                &&& forall|c: Coord| n.watermark_frontier.entries().contains_key(c) ==> (#[trigger] n.watermark_frontier.entries()[c]) is None
                &&& n.wait_for_state && n.state_generation == o.state_generation + 2
            },
            StreamElement::Watermark(w) => {
                // the pulled watermark made the frontier advance to w; it is forwarded at once (C17) and is strictly larger (C06)
                &&& taken.len() > 0 && all_control(taken) && taken.last() is Watermark
                &&& n.watermark_frontier.front() == Some(w)
                &&& (o.watermark_frontier.front() is Some ==> w > o.watermark_frontier.front()->0)
                &&& n.missing_flush_and_restart + count_fr(taken) == o.missing_flush_and_restart
                &&& n.missing_terminate + count_term(taken) == o.missing_terminate
                &&& n.state_generation == o.state_generation && !n.wait_for_state
                &&& (o.wait_for_state && n.state_lock is Some ==> n.state_lock->0.reached(o.state_generation))
            },
            _ => {
                // a data element (or FlushBatch) is returned unchanged; everything pulled before it was absorbed control (C05/C16)
                &&& taken.len() > 0 && all_control(taken.drop_last()) && taken.last() == r
                &&& (r is FlushBatch ==> fake)
                &&& n.watermark_frontier.front() == o.watermark_frontier.front()
                &&& n.missing_flush_and_restart + count_fr(taken) == o.missing_flush_and_restart
                &&& n.missing_terminate + count_term(taken) == o.missing_terminate
                &&& n.state_generation == o.state_generation && !n.wait_for_state
                // first element of a new iteration passes only once the loop state of that round is installed (C10)
                &&& (o.wait_for_state && n.state_lock is Some ==> n.state_lock->0.reached(o.state_generation))
            },
        }
        // C18: a receive timeout is turned into FlushBatch (and only then)
        &&& (fake ==> r is FlushBatch && n.already_timed_out)
        // C18: with a flush delay configured, the link is waited on WITHOUT a timeout only right after a timeout
        // (the downstream batchers were just flushed), at most once; whenever data went downstream the next wait is timed
        &&& (n.max_delay is Some ==> n.receiver.untimed_waits() <= o.receiver.untimed_waits() + (if o.already_timed_out { 1nat } else { 0nat }))   // #obl:start.untimed_wait_only_after_timeout
        &&& ((r is Item || r is Timestamped || r is Watermark) ==> !n.already_timed_out)                                                      // #obl:start.next_wait_after_data_is_timed
    }
}
'''

HINT_PULLED = r'''
                        proof {
                            taken = taken.push(item);
                            lemma_counts_push(taken0, item);
                            assert(unread0.len() > 0 && item == unread0[0]);
                            assert(self.unread() =~= unread0.skip(1));
                            assert(taken0 + unread0 =~= taken + self.unread());
                            assert(taken.drop_last() =~= taken0);
                            if fake { assert(item is FlushBatch); } else { assert(!(unread0[0] is FlushBatch)); }
                        }'''
HINT_FR_ARM = r'''
                                    // C17: a replica that ends its iteration must not make the frontier advance silently
                                    assert(self.watermark_frontier.front() == front_before);   // #obl:start.progress_on_replica_end
                                    proof { assert(self.watermark_frontier.entries().dom() =~= self.receiver.upstream()); }'''
HINT_RECV_PRE = r'''let ghost recv_now = self.receiver.received();
            let ghost nm = net_msg;
            '''
HINT_RECV_POST = r'''
            proof {
                let k = old(self).receiver.received().len() as int;
                assert(self.unread() =~= msg_data(nm));
                if fake {
                    assert(recv_now == r0);
                    assert(msg_data(nm) =~= seq![StreamElement::<Receiver::Out>::FlushBatch]);
                } else {
                    assert(recv_now == r0.push(nm));
                    assert(recv_now.skip(k) =~= r0.skip(k).push(nm));
                    lemma_flat_msgs_push(r0.skip(k), nm);
                }
            }'''
HINT_RESET = r'''proof {
                    let e = self.watermark_frontier.entries();
                    if !(e.dom() =~= Set::empty()) {
                        let c = choose|c: Coord| e.dom().contains(c);
                        assert(e.contains_key(c) && e[c] is None);
                    }
                    assert(frontier_of(e, self.watermark_frontier.front()));
                }
                '''
GHOST_INIT = r'''
        let ghost mut taken: Seq<StreamElement<Receiver::Out>> = Seq::empty();
        let ghost mut fake: bool = false;
        proof {
            assert(self.receiver.received().skip(self.receiver.received().len() as int) =~= Seq::<NetworkMessage<Receiver::Out>>::empty());
        }
'''
LOOP_INV = r'''
            invariant
                self.inv_core(), self.same_config(old(self)),
                !fake ==> self.no_flush_batch_unread(),
                self.receiver.received().len() >= old(self).receiver.received().len(),
                self.receiver.received().take(old(self).receiver.received().len() as int) =~= old(self).receiver.received(),
                old(self).unread() + Self::fresh(old(self), self, fake) =~= taken + self.unread(),
                all_control(taken),
                self.missing_flush_and_restart + count_fr(taken) == old(self).missing_flush_and_restart,
                self.missing_terminate + count_term(taken) == old(self).missing_terminate,
                self.state_generation == old(self).state_generation, self.state_generation <= usize::MAX - 2,
                self.wait_for_state == old(self).wait_for_state,
                self.watermark_frontier.front() == old(self).watermark_frontier.front(),
                fake ==> self.already_timed_out && self.unread() =~= seq![StreamElement::<Receiver::Out>::FlushBatch],
                fake ==> self.missing_terminate != 0 && self.missing_flush_and_restart != 0,
                self.max_delay is Some ==> self.receiver.untimed_waits() + (if self.already_timed_out && !fake { 1nat } else { 0nat })
                    <= old(self).receiver.untimed_waits() + (if old(self).already_timed_out { 1nat } else { 0nat }),   // #obl:start.untimed_wait_only_after_timeout.loop
                self.receiver.untimed_waits() >= old(self).receiver.untimed_waits(),
'''


def build(x):
    pieces = [PRELUDE, FRONTIER_STUB]
    pieces.append(x.enum(FO, 'StreamElement'))
    c = x.struct(FN, 'Coord')
    c.text = '#[derive(Clone, Copy)]\n' + c.text
    pieces += [c, x.enum(FC, 'RecvTimeoutError'), x.enum(FN, 'NetworkDataIterator'), x.enum(FN, 'NetworkData'), x.struct(FN, 'NetworkMessage')]
    # Default for Coord (derive(Default)): all-zero
    pieces.append("impl Default for Coord { fn default() -> Coord { Coord { block_id: 0, host_id: 0, replica_id: 0 } } }")
    ns = x.method(FN, 'NetworkMessage', 'new_single'); ns.name_result('r')
    ns.add_spec("        ensures r.sender == sender, msg_data(r) == seq![data], // #obl:message.new_single")
    sd = x.method(FN, 'NetworkMessage', 'sender'); sd.name_result('r')
    sd.add_spec("        ensures r == self.sender, // #obl:message.sender")
    ii = x.method(FN, 'NetworkMessage', 'into_iter', trait='IntoIterator')
    ii.replace_exact('V-TRAIT', 'Self::IntoIter', 'NetworkDataIterator<StreamElement<T>>', detail='associated type IntoIter substituted')
    ii.name_result('r')
    ii.add_spec("        ensures (r matches NetworkDataIterator::Batch(i) && i.remaining() == msg_data(self)), // #obl:message.into_iter_yields_the_batch_in_order")
    pieces += ["impl<T> NetworkMessage<T> {", ns, sd, ii, "}"]
    nx = x.method(FN, 'NetworkDataIterator', 'next', trait='Iterator')
    nx.replace_exact('V-TRAIT', 'Self::Item', 'T', detail='associated type Item substituted')
    nx.name_result('r')
    nx.add_spec('''        ensures
            (*old(self) matches NetworkDataIterator::Batch(i0) && *final(self) matches NetworkDataIterator::Batch(i1) &&
                (if i0.remaining().len() == 0 { r is None && i1.remaining() == i0.remaining() }
                 else { r == Some(i0.remaining()[0]) && i1.remaining() == i0.remaining().skip(1) })),   // #obl:data_iterator.next_pops_head''')
    pieces += ["impl<T> NetworkDataIterator<T> {", nx, "}"]
    st = x.struct(FS, 'Start')
    st.text = '#[verifier::reject_recursive_types(Receiver)]\n' + st.text
    pieces += [st, SPEC_IMPL, STEP_SPEC]
    nxt = x.method(FS, 'Start', 'next', trait='Operator')
    nxt.name_result('r')
    nxt.add_spec(NEXT_SPEC)
    nxt.text = '#[verifier::exec_allows_no_decreases_clause]\n' + nxt.text
    nxt.note('V-SPEC', 1, 'termination of Start::next is NOT verified (it blocks on the network): exec_allows_no_decreases_clause')
    nxt.insert_at_body_start(GHOST_INIT)
    nxt.bind('msg', r'return (\w+);')
    nxt.add_loop_spec(1, LOOP_INV)
    nxt.insert_before('if let Some((sender, ref mut inner)) = self.batch_iter {', 'let ghost unread0 = self.unread();\n            let ghost taken0 = taken;\n            ')
    nxt.insert_after('Some(item) => {', HINT_PULLED)
    nxt.insert_before('return StreamElement::Terminate;', 'proof { assert(Self::step(old(self), self, StreamElement::Terminate, taken, fake)); }   // #obl:start.step_contract.terminate\n                ')
    nxt.insert_before('return StreamElement::FlushAndRestart;', HINT_RESET + 'proof { assert(Self::step(old(self), self, StreamElement::FlushAndRestart, taken, fake)); }   // #obl:start.step_contract.flush_and_restart\n                ')
    nxt.insert_before(re.compile(r'return \w+;'), 'proof { assert(Self::step(old(self), self, §msg§, taken, fake)); }   // #obl:start.step_contract.element\n                ')
    nxt.insert_before('self.watermark_frontier.update(sender, Timestamp::MAX);', 'let ghost front_before = self.watermark_frontier.front();\n                                    ')
    nxt.insert_after('self.watermark_frontier.update(sender, Timestamp::MAX);', HINT_FR_ARM)
    nxt.insert_before(re.compile(r'self\.missing_flush_and_restart\s*(?:-=\s*1|=\s*self\.missing_flush_and_restart\s*-\s*1);'), '// a replica that ended its iteration no longer holds the frontier back\n                                assert(self.watermark_frontier.entries()[sender] == Some(Timestamp::MAX));   // #obl:start.ended_replica_no_longer_holds_back_the_frontier\n                                ')
    nxt.insert_before('NetworkMessage::new_single(', 'proof { fake = true; }\n                            ')
    nxt.insert_before('let net_msg = match', 'let ghost r0 = self.receiver.received();\n            let ghost fake0 = fake;\n            proof { assert(self.unread() =~= Seq::<StreamElement<Receiver::Out>>::empty()); assert(!fake0); }\n            ')
    nxt.insert_before('self.batch_iter = Some((net_msg.sender(), net_msg.into_iter()));', HINT_RECV_PRE)
    nxt.insert_after('self.batch_iter = Some((net_msg.sender(), net_msg.into_iter()));', HINT_RECV_POST)
    pieces += ["impl<Receiver> Start<Receiver>\nwhere\n    Receiver: StartReceiver + Send,\n    Receiver::Out: ExchangeData,\n{", nxt, "}"]
    return pieces
