"""C15 (line-based file source) — FileSource::{setup, next} (src/operator/source/file.rs): replica g of n emits exactly the lines
that start in (lo_g, hi_g] (and the line at offset 0 for g = 0), with hi_g == lo_{g+1}: every line exactly once."""
import os, re, sys
sys.path.insert(0, os.path.dirname(os.path.dirname(__file__)))
import std_specs as S

PROPERTIES = ["C15"]
MIN_VERIFIED = 4
F = 'src/operator/source/file.rs'
FO = 'src/operator/mod.rs'
FN = 'src/network/mod.rs'
ASSUMPTIONS = [
    "model of std::fs::File / io::BufReader over a fixed byte content: read_line / read_until(b'\\n') return the bytes from the cursor up to and including the next newline (or to EOF) and advance the cursor; seek(Current(k)) moves it by k; all succeed (an I/O error panics: fail-stop)",
    "ExecutionMetadata modelled by its three fields used here (coord, replicas, global_id); PathBuf and String are opaque (String::bytes is its content)",
    "file size < 2^62; usize is 64 bit",
]
PRELUDE = r'''
global size_of usize == 8;
type BlockId = u64; type HostId = u64; type ReplicaId = u64; type Timestamp = i64; type CoordUInt = u64;
#[derive(Debug)]
#[verifier::external_body]
struct IoError {}
#[verifier::external_body]
struct PathBuf {}
#[verifier::external_body]
struct String {}
impl String {
    uninterp spec fn bytes(&self) -> Seq<u8>;
    #[verifier::external_body]
    fn new() -> (r: String) ensures r.bytes() =~= Seq::<u8>::empty() { unimplemented!() }
}
struct ExecutionMetadata { coord: Coord, replicas: Vec<Coord>, global_id: CoordUInt }
uninterp spec fn fs_content(p: PathBuf) -> Seq<u8>;
// length of the line segment starting at pos: up to and including the next '\n', or to the end of the file
spec fn seg_len(c: Seq<u8>, pos: int) -> nat
    decreases c.len() - pos
{
    if pos < 0 || pos >= c.len() { 0 } else if c[pos] == 10u8 { 1 } else { 1 + seg_len(c, pos + 1) }
}
proof fn lemma_seg_bound(c: Seq<u8>, pos: int)
    requires 0 <= pos,
    ensures pos + seg_len(c, pos) <= (if pos <= c.len() { c.len() as int } else { pos }),
    decreases c.len() - pos
{
    if pos < c.len() && c[pos] != 10u8 { lemma_seg_bound(c, pos + 1); }
}
#[verifier::external_body]
struct Metadata {}
impl Metadata {
    uninterp spec fn size(&self) -> u64;
    #[verifier::external_body]
    fn len(&self) -> (r: u64) ensures r == self.size() { unimplemented!() }
}
#[verifier::external_body]
struct File {}
impl File {
    uninterp spec fn content(&self) -> Seq<u8>;
    #[verifier::external_body]
    fn open(p: &PathBuf) -> (r: Result<File, IoError>) ensures r is Ok, r->Ok_0.content() == fs_content(*p) { unimplemented!() }
    #[verifier::external_body]
    fn metadata(&self) -> (r: Result<Metadata, IoError>) ensures r is Ok, r->Ok_0.size() == self.content().len() { unimplemented!() }
}
enum SeekFrom { Current(i64) }
#[verifier::external_body]
struct BufReader {}
impl BufReader {
    uninterp spec fn content(&self) -> Seq<u8>;
    uninterp spec fn pos(&self) -> int;
    #[verifier::external_body]
    fn new(f: File) -> (r: BufReader) ensures r.content() == f.content(), r.pos() == 0 { unimplemented!() }
    #[verifier::external_body]
    fn seek(&mut self, s: SeekFrom) -> (r: Result<u64, IoError>)
        ensures r is Ok, final(self).content() == old(self).content(), (s matches SeekFrom::Current(k) ==> final(self).pos() == old(self).pos() + k)
    { unimplemented!() }
    #[verifier::external_body]
    fn read_until(&mut self, delim: u8, buf: &mut Vec<u8>) -> (r: Result<usize, IoError>)
        requires delim == 10u8, 0 <= old(self).pos(),
        ensures r is Ok, final(self).content() == old(self).content(),
                r->Ok_0 == seg_len(old(self).content(), old(self).pos()), final(self).pos() == old(self).pos() + r->Ok_0,
    { unimplemented!() }
    #[verifier::external_body]
    fn read_line(&mut self, buf: &mut String) -> (r: Result<usize, IoError>)
        requires 0 <= old(self).pos(),
        ensures r is Ok, final(self).content() == old(self).content(),
                r->Ok_0 == seg_len(old(self).content(), old(self).pos()), final(self).pos() == old(self).pos() + r->Ok_0,
                final(buf).bytes() == old(buf).bytes() + old(self).content().subrange(old(self).pos(), old(self).pos() + r->Ok_0),
    { unimplemented!() }
}
// byte range of replica g of n over a file of `size` bytes
spec fn lo(size: int, n: int, g: int) -> int { (size / n) * g }
spec fn hi(size: int, n: int, g: int) -> int { if g == n - 1 { size } else { lo(size, n, g) + size / n } }
// C15: the ranges (lo_g, hi_g] tile (0, size]: consecutive, starting at 0, ending at size
proof fn lemma_ranges_tile(size: int, n: int, g: int)
    requires size >= 0, n >= 1, 0 <= g < n,
    ensures
        lo(size, n, 0) == 0,                                                  // #obl:ranges.first_starts_at_zero
        hi(size, n, n - 1) == size,                                           // #obl:ranges.last_ends_at_file_size
        g < n - 1 ==> hi(size, n, g) == lo(size, n, g + 1),                   // #obl:ranges.consecutive_without_gap_or_overlap
        0 <= lo(size, n, g) <= hi(size, n, g) <= size,                        // #obl:ranges.inside_the_file
{
    let q = size / n;
    vstd::arithmetic::div_mod::lemma_fundamental_div_mod(size, n);
    vstd::arithmetic::div_mod::lemma_mod_bound(size, n);
    assert(q >= 0) by (nonlinear_arith) requires n * q + size % n == size, 0 <= size % n < n, size >= 0, n >= 1;
    assert(q * 0 == 0) by (nonlinear_arith);
    assert(q * (g + 1) == q * g + q) by (nonlinear_arith);
    assert(q * g >= 0) by (nonlinear_arith) requires q >= 0, g >= 0;
    assert(q * g + q <= q * n) by (nonlinear_arith) requires g + 1 <= n, q >= 0;
    assert(q * n == n * q) by (nonlinear_arith);
}
'''
SPEC_IMPL = r'''
impl FileSource {
    spec fn ready(&self) -> bool {
        &&& self.reader matches Some(rd) && rd.pos() == self.current && 0 <= self.current <= rd.content().len() && rd.content().len() < 0x4000_0000_0000_0000
        &&& self.coord is Some
    }
}
'''
SETUP_SPEC = r'''
        requires
            old(metadata).replicas@.len() >= 1, old(metadata).global_id < old(metadata).replicas@.len(),
            fs_content(old(self).path).len() < 0x4000_0000_0000_0000, !old(self).terminated,
        ensures
            final(self).ready(), final(self).path == old(self).path, !final(self).terminated,
            final(self).reader->0.content() == fs_content(old(self).path),
            ({
                let c = fs_content(old(self).path); let n = old(metadata).replicas@.len() as int; let g = old(metadata).global_id as int;
                &&& final(self).end == hi(c.len() as int, n, g)                                          // #obl:setup.range_end
                &&& (g == 0 ==> final(self).current == 0)                                                 // #obl:setup.first_replica_starts_at_the_first_line
                // the other replicas skip the line containing their first byte: they start at the first line start > lo_g
                &&& (g != 0 ==> final(self).current == lo(c.len() as int, n, g) + seg_len(c, lo(c.len() as int, n, g)))   // #obl:setup.skips_the_straddling_line
            }),
'''
NEXT_SPEC = r'''
        requires old(self).terminated || old(self).ready(),
        ensures
            old(self).terminated ==> r is Terminate && final(self).terminated,                          // #obl:next.terminate_after_end
            ({
                let c = old(self).reader->0.content(); let len = seg_len(c, old(self).current as int);
                // a line is emitted iff it STARTS at or before the end of the replica's byte range (so the line starting exactly
                // at the boundary belongs to this replica, and the next replica skips it) and the file is not exhausted
                &&& ((!old(self).terminated && old(self).current <= old(self).end && len > 0) ==> {
                        &&& (r matches StreamElement::Item(line) && line.bytes() =~= c.subrange(old(self).current as int, old(self).current + len))   // #obl:next.emits_the_whole_line_at_the_cursor
                        &&& final(self).current == old(self).current + len && final(self).ready() && !final(self).terminated
                        &&& final(self).end == old(self).end && final(self).reader->0.content() == c
                    })
                &&& ((!old(self).terminated && !(old(self).current <= old(self).end && len > 0)) ==> r is FlushAndRestart && final(self).terminated)   // #obl:next.stops_after_the_last_line_starting_in_range
            }),
'''
def build(x):
    pieces = [S.RUST_PANIC, PRELUDE, x.enum(FO, 'StreamElement')]
    c = x.struct(FN, 'Coord'); c.text = '#[derive(Clone, Copy)]\n' + c.text
    st = x.struct(F, 'FileSource')
    st.sub('V-SUBST', r'BufReader<File>', 'BufReader', detail='BufReader<File> -> model reader')
    pieces += [c, st, SPEC_IMPL]
    def common(fr):
        fr.sub('V-SUBST', r'\.unwrap_or_else\(\|\w+\| \{?\s*panic!\((?:[^()]|\((?:[^()]|\([^()]*\))*\))*\)\s*,?;?\s*\}?\)', '.unwrap()', detail='.unwrap_or_else(|e| panic!(..)) -> .unwrap()', flags=re.S)
        fr.sub('V-SUBST', r'\.expect\("[^"]*"\)', '.unwrap()', detail='.expect(msg) -> .unwrap()')
        fr.sub('V-SUBST', r"b'\\n'", '10u8', detail="byte literal b'\\n' -> 10u8")
    su = x.method(F, 'FileSource', 'setup', trait='Operator')
    common(su)
    su.add_spec(SETUP_SPEC)
    su.insert_at_body_start('''
        proof { lemma_ranges_tile(fs_content(self.path).len() as int, metadata.replicas@.len() as int, metadata.global_id as int); }
''')
    su.insert_after(re.compile(r'if global_id != 0 \{'), '\n            proof { lemma_seg_bound(reader.content(), reader.pos()); }')
    nx = x.method(F, 'FileSource', 'next', trait='Operator')
    common(nx)
    nx.sub('V-SUBST', r'Err\(e\) => panic!\((?:[^()]|\([^()]*\))*\),', 'Err(e) => { rust_panic(); StreamElement::Terminate }', detail='panic!(..) arm -> rust_panic() (requires false)')
    nx.name_result('r')
    nx.add_spec(NEXT_SPEC)
    nx.insert_at_body_start('''
        proof { if !self.terminated { lemma_seg_bound(self.reader->0.content(), self.current as int); } }
''')
    pieces += ["impl FileSource {", su, nx, "}"]
    return pieces
