"""C02 — NetworkSender::send (src/network/network_channel.rs): the hand-over of a batch from a Batcher to a link.  A sender bound to a
local channel puts the message, unchanged, on that channel; a sender bound to a remote connection puts (its receiver endpoint,
the message) on the queue of the multiplexer - so the multiplexer (unit muxdemux) frames it for exactly the endpoint this sender
was created for, and the demultiplexer hands it to that endpoint's local channel.  Nothing else is sent; a failed send is
reported as Disconnected(endpoint) and sends nothing."""
import os, re, sys
sys.path.insert(0, os.path.dirname(os.path.dirname(__file__)))
import std_specs as S

PROPERTIES = ["C02"]
MIN_VERIFIED = 1
F = 'src/network/network_channel.rs'
FN = 'src/network/mod.rs'
FO = 'src/operator/mod.rs'
ASSUMPTIONS = [
    "R-CHAN: a flume Sender is a handle with a ghost log of the values it accepted: send returns Ok and appends, or Err (receiver gone) and appends nothing; interior mutability is modelled as &mut (`&self` -> `&mut self`, `match &self.sender` -> `match &mut self.sender`)",
    "`.map_err(|_| E)` -> `match .. { Ok(v) => Ok(v), Err(_) => Err(E) }` (V-COMB: definition of Result::map_err; Verus rejects `_` closure parameters)",
    "profiler calls dropped (V-LOG)",
]
PRELUDE = r'''
type BlockId = u64; type HostId = u64; type ReplicaId = u64; type Timestamp = i64;
trait ExchangeData: Clone + Send + 'static {}
struct SendError {}
#[verifier::external_body]
#[verifier::reject_recursive_types(T)]
struct Sender<T> { _p: core::marker::PhantomData<T> }
impl<T> Sender<T> {
    uninterp spec fn sent(&self) -> Seq<T>;
    #[verifier::external_body]
    fn send(&mut self, v: T) -> (r: Result<(), SendError>)
        ensures r is Ok ==> final(self).sent() == old(self).sent().push(v), r is Err ==> final(self).sent() == old(self).sent()
    { unimplemented!() }
}
'''
SEND_SPEC = r'''
        ensures
            final(self).receiver_endpoint == old(self).receiver_endpoint,
            (old(self).sender matches SenderInner::Mux(tx0) ==> (final(self).sender matches SenderInner::Mux(tx1)
                && (r is Ok ==> tx1.sent() == tx0.sent().push((old(self).receiver_endpoint, message)))            // #obl:network_sender.remote_send_enqueues_the_message_for_its_own_endpoint
                && (r is Err ==> tx1.sent() == tx0.sent()))),
            (old(self).sender matches SenderInner::Local(tx0) ==> (final(self).sender matches SenderInner::Local(tx1)
                && (r is Ok ==> tx1.sent() == tx0.sent().push(message))                                            // #obl:network_sender.local_send_puts_the_message_on_the_channel_unchanged
                && (r is Err ==> tx1.sent() == tx0.sent()))),
            (r matches Err(NetworkSendError::Disconnected(e)) ==> e == old(self).receiver_endpoint),              // #obl:network_sender.failure_names_the_endpoint
'''


def build(x):
    c = x.struct(FN, 'Coord'); c.text = '#[derive(Clone, Copy)]\n' + c.text
    re_ = x.struct(FN, 'ReceiverEndpoint'); re_.text = '#[derive(Clone, Copy)]\n' + re_.text
    ns = x.struct(F, 'NetworkSender')
    ns.sub('V-ATTR', r'^\s*#\[derivative\([^\n]*\)\]\s*\n', '', detail='field-level derivative attributes dropped')
    ns.text = '#[verifier::reject_recursive_types(Out)]\n' + ns.text
    si = x.enum(F, 'SenderInner'); si.text = '#[verifier::reject_recursive_types(Out)]\n' + si.text
    er = x.enum(F, 'NetworkSendError')
    er.sub('V-ATTR', r'^\s*#\[error\([^\n]*\)\]\s*\n', '', detail='thiserror attribute dropped')
    pieces = [PRELUDE, x.enum(FO, 'StreamElement'), c, re_, x.enum(FN, 'NetworkData'), x.struct(FN, 'NetworkMessage'), si, ns, er]
    sd = x.method(F, 'NetworkSender', 'send')
    sd.sub('V-LOG', r'get_profiler\(\)\.items_out\((?:[^()]|\((?:[^()]|\([^()]*\))*\))*\);', '', detail='profiler call dropped', flags=re.S)
    sd.sub('V-SUBST', r'fn send\(&self,', 'fn send(&mut self,', detail='R-CHAN: `&self` -> `&mut self` (interior mutability of the channel modelled as &mut)', must=True)
    sd.sub('V-SUBST', r'match &self\.sender \{', 'match &mut self.sender {', detail='R-CHAN: the sender handle is borrowed mutably (ghost log)', must=True)
    sd.sub('V-COMB', r'(?P<tx>\w+)\s*\.send\((?P<a>(?:[^()]|\((?:[^()]|\([^()]*\))*\))*)\)\s*\.map_err\(\|_\| (?P<e>NetworkSendError::Disconnected\(self\.receiver_endpoint\))\)',
           lambda m: f"{{ let __ep = self.receiver_endpoint; match {m.group('tx')}.send({m.group('a').replace('self.receiver_endpoint', '__ep')}) {{ Ok(v) => Ok(v), Err(_) => Err(NetworkSendError::Disconnected(__ep)) }} }}",
           detail='`.map_err(|_| E)` -> `match .. { Ok(v) => Ok(v), Err(_) => Err(E) }` (definition of map_err; the endpoint (Copy) read before the mutable borrow)', flags=re.S, must=True)
    sd.name_result('r')
    sd.add_spec(SEND_SPEC)
    pieces += ["impl<Out: ExchangeData> NetworkSender<Out> {", sd, "}"]
    return pieces
