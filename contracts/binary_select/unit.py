"""C11 (+ C09 merge/zip input side, C05 end markers) — the two-input receiver of a block
(src/operator/start/binary.rs): SideReceiver::{recv,reset,is_ended,is_terminated,cache_finished,next_cached_item},
BinaryStartReceiver::{process_side,select} and SimpleStartReceiver::{recv,recv_timeout}.

Per-call contract of `select` over the abstract state (link logs, cache, replay pointer):
  * a cached side (the stream that comes from outside a loop) is read from its producers only while its cache is not
    full; once full the cache never changes and the link is never read again;
  * in the first round what is delivered from the cached side is exactly what is appended to the cache (one entry per
    delivered batch, Terminate kept out);
  * in every later round the batches delivered from the cached side are cache[0], cache[1], ... in order, one per call,
    and the replay pointer goes back to 0 only when the whole cache has been replayed (complete, exactly once);
  * the Terminate markers of the cached side are re-synthesised only when both sides are terminated.
The all-histories statement follows by induction over calls (lemma_rounds)."""
import os, re, sys
sys.path.insert(0, os.path.dirname(os.path.dirname(__file__)))
import std_specs as S

PROPERTIES = ["C11", "C09", "C08"]
MIN_VERIFIED = 14
FB = 'src/operator/start/binary.rs'
FSI = 'src/operator/start/simple.rs'
FN = 'src/network/mod.rs'
FO = 'src/operator/mod.rs'
FC = 'src/channel.rs'

ASSUMPTIONS = [
    "R-CHAN: a blocking recv()/select() on a link always returns a batch (a disconnected link means a crashed upstream: fail-stop behaviour is C20, not decided here)",
    "R-CHAN: NetworkReceiver is the environment: recv/recv_timeout/select/select_timeout return the next batch of the link and append it to the link's ghost log; `&self` receivers are modelled `&mut self` (the log is ghost state of the link)",
    "R-PROTO (marker protocol of the upstream blocks, assumed on every received batch): a link delivers at most `replicas` FlushAndRestart per iteration and `replicas` Terminate overall; the link of a stream that comes from outside the loop (one_shot) carries a single iteration",
    "SideReceiver::setup postcondition (instances == number of upstream replicas of the link == initial marker budgets, receiver connected) is part of wf(); setup itself (ExecutionMetadata, TypeId) is not under contract",
    "V-FNPTR: the parameter `wrap: fn(Out) -> BinaryElement` is given the type `impl Fn(Out) -> BinaryElement + Copy` and the constructor paths passed for it (BinaryElement::Left / ::Right) are written as the closures |x| BinaryElement::Left(x) / Right(x) (Verus has no function-pointer types)",
    "Clone of a NetworkMessage / BinaryElement yields an equal value (axiom_data_clone)",
    "V-TRAIT: StartReceiver methods of SimpleStartReceiver and IntoIterator/Iterator methods of NetworkMessage/NetworkDataIterator extracted as inherent methods",
]

PRELUDE = r'''
use vstd::std_specs::iter::IteratorSpec;
type BlockId = u64; type HostId = u64; type ReplicaId = u64; type Timestamp = i64;
trait Data: Clone + Send + 'static {}
trait ExchangeData: Data {}
broadcast use trusted_axioms::axiom_data_clone;

#[verifier::external_body]
#[derive(Clone, Copy)]
struct Duration {}

spec fn msg_data<T>(m: NetworkMessage<T>) -> Seq<StreamElement<T>> {
    match m.data { NetworkData::Batch(v) => v@ }
}
spec fn count_fr<T>(s: Seq<StreamElement<T>>) -> nat decreases s.len() {
    if s.len() == 0 { 0 } else { count_fr(s.drop_last()) + (if s.last() is FlushAndRestart { 1nat } else { 0nat }) }
}
spec fn count_term<T>(s: Seq<StreamElement<T>>) -> nat decreases s.len() {
    if s.len() == 0 { 0 } else { count_term(s.drop_last()) + (if s.last() is Terminate { 1nat } else { 0nat }) }
}
proof fn lemma_counts_push<T>(s: Seq<StreamElement<T>>, e: StreamElement<T>)
    ensures count_fr(s.push(e)) == count_fr(s) + (if e is FlushAndRestart { 1nat } else { 0nat }),
            count_term(s.push(e)) == count_term(s) + (if e is Terminate { 1nat } else { 0nat }),
{
    assert(s.push(e).drop_last() =~= s);
}
spec fn no_terminate<T>(s: Seq<StreamElement<T>>) -> bool { forall|i: int| 0 <= i < s.len() ==> !(#[trigger] s[i] is Terminate) }

// ---- environment: one incoming link (R-CHAN, R-PROTO)
#[verifier::external_body]
#[verifier::accept_recursive_types(In)]
struct NetworkReceiver<In> { _p: core::marker::PhantomData<In> }
impl<In> NetworkReceiver<In> {
    // every batch delivered so far, in order
    uninterp spec fn received(&self) -> Seq<NetworkMessage<In>>;
    // number of upstream replicas of the link; whether the upstream lives outside the loop (single iteration)
    uninterp spec fn replicas(&self) -> nat;
    uninterp spec fn one_shot(&self) -> bool;
    // markers the upstream still owes in the current iteration / overall
    uninterp spec fn fr_budget(&self) -> nat;
    uninterp spec fn term_budget(&self) -> nat;

    // what one delivery does to the link
    spec fn delivers(&self, n: &Self, m: NetworkMessage<In>) -> bool {
        let b0 = if self.fr_budget() == 0 && !self.one_shot() { self.replicas() } else { self.fr_budget() };
        &&& n.received() == self.received().push(m)
        &&& n.replicas() == self.replicas() && n.one_shot() == self.one_shot()
        &&& count_fr(msg_data(m)) <= b0 && n.fr_budget() == b0 - count_fr(msg_data(m))
        &&& count_term(msg_data(m)) <= self.term_budget() && n.term_budget() == self.term_budget() - count_term(msg_data(m))
    }
    #[verifier::external_body]
    fn recv(&mut self) -> (r: Result<NetworkMessage<In>, RecvError>)
        ensures r matches Ok(m) ==> old(self).delivers(final(self), m),
                r is Ok,   // a disconnected link is a crashed upstream (fail-stop, C20): not modelled
    { unimplemented!() }
    #[verifier::external_body]
    fn recv_timeout(&mut self, timeout: Duration) -> (r: Result<NetworkMessage<In>, RecvTimeoutError>)
        ensures r matches Ok(m) ==> old(self).delivers(final(self), m),
                r is Err ==> *final(self) == *old(self),
    { unimplemented!() }
    #[verifier::external_body]
    fn select<In2>(&mut self, other: &mut NetworkReceiver<In2>) -> (r: SelectResult<NetworkMessage<In>, NetworkMessage<In2>>)
        ensures
            r matches SelectResult::A(Ok(m)) ==> old(self).delivers(final(self), m) && *final(other) == *old(other),
            r matches SelectResult::B(Ok(m)) ==> old(other).delivers(final(other), m) && *final(self) == *old(self),
            (r matches SelectResult::A(Ok(_))) || (r matches SelectResult::B(Ok(_))),
    { unimplemented!() }
    #[verifier::external_body]
    fn select_timeout<In2>(&mut self, other: &mut NetworkReceiver<In2>, timeout: Duration)
        -> (r: Result<SelectResult<NetworkMessage<In>, NetworkMessage<In2>>, RecvTimeoutError>)
        ensures
            r matches Ok(SelectResult::A(Ok(m))) ==> old(self).delivers(final(self), m) && *final(other) == *old(other),
            r matches Ok(SelectResult::B(Ok(m))) ==> old(other).delivers(final(other), m) && *final(self) == *old(self),
            !(r matches Ok(SelectResult::A(Ok(_)))) && !(r matches Ok(SelectResult::B(Ok(_)))) ==> *final(self) == *old(self) && *final(other) == *old(other),
    { unimplemented!() }
}
'''

MAP_SPEC = r'''
        requires
            (self matches StreamElement::Item(x) ==> f.requires((x,))),
            (self matches StreamElement::Timestamped(x, _) ==> f.requires((x,))),
        ensures wrapped(f, self, r),   // #obl:element.map_keeps_kind_and_timestamp
'''
WRAPPED = r'''
// `o` is `e` with its payload passed through f (control elements unchanged)
spec fn wrapped<A, B, F: FnOnce(A) -> B>(f: F, e: StreamElement<A>, o: StreamElement<B>) -> bool {
    match e {
        StreamElement::Item(x) => o matches StreamElement::Item(y) && f.ensures((x,), y),
        StreamElement::Timestamped(x, t) => o matches StreamElement::Timestamped(y, t2) && t2 == t && f.ensures((x,), y),
        StreamElement::Watermark(w) => o == StreamElement::<B>::Watermark(w),
        StreamElement::Terminate => o is Terminate,
        StreamElement::FlushAndRestart => o is FlushAndRestart,
        StreamElement::FlushBatch => o is FlushBatch,
    }
}
'''


def message_pieces(x):
    """NetworkMessage & co. with the same contracts as in unit start_next."""
    c = x.struct(FN, 'Coord')
    c.text = '#[derive(Clone, Copy)]\n' + c.text
    nd = x.enum(FN, 'NetworkData'); nd.text = '#[derive(Clone)]\n' + nd.text
    nm = x.struct(FN, 'NetworkMessage'); nm.text = '#[derive(Clone)]\n' + nm.text
    pieces = [c, x.enum(FN, 'NetworkDataIterator'), nd, nm,
              "impl Default for Coord { fn default() -> Coord { Coord { block_id: 0, host_id: 0, replica_id: 0 } } }"]
    nb = x.method(FN, 'NetworkMessage', 'new_batch'); nb.name_result('r')
    nb.add_spec("        ensures r.sender == sender, msg_data(r) == data@, // #obl:message.new_batch")
    sd = x.method(FN, 'NetworkMessage', 'sender'); sd.name_result('r')
    sd.add_spec("        ensures r == self.sender, // #obl:message.sender")
    ii = x.method(FN, 'NetworkMessage', 'into_iter', trait='IntoIterator')
    ii.replace_exact('V-TRAIT', 'Self::IntoIter', 'NetworkDataIterator<StreamElement<T>>', detail='associated type IntoIter substituted')
    ii.name_result('r')
    ii.add_spec("        ensures (r matches NetworkDataIterator::Batch(i) && i.remaining() == msg_data(self)), // #obl:message.into_iter_yields_the_batch_in_order")
    ni = x.method(FN, 'NetworkMessage', 'num_items'); ni.name_result('r')
    ni.add_spec("        ensures r == msg_data(*self).len(), // #obl:message.num_items")
    pieces += ["impl<T> NetworkMessage<T> {", nb, sd, ni, ii, "}"]
    nx = x.method(FN, 'NetworkDataIterator', 'next', trait='Iterator')
    nx.replace_exact('V-TRAIT', 'Self::Item', 'T', detail='associated type Item substituted')
    nx.name_result('r')
    nx.add_spec('''        ensures
            (*old(self) matches NetworkDataIterator::Batch(i0) && *final(self) matches NetworkDataIterator::Batch(i1) &&
                (if i0.remaining().len() == 0 { r is None && i1.remaining() == i0.remaining() }
                 else { r == Some(i0.remaining()[0]) && i1.remaining() == i0.remaining().skip(1) })),   // #obl:data_iterator.next_pops_head''')
    pieces += ["impl<T> NetworkDataIterator<T> {", nx, "}"]
    return pieces


SIDE_SPEC = r'''
impl<Out: ExchangeData, Item: ExchangeData> SideReceiver<Out, Item> {
    spec fn link(&self) -> NetworkReceiver<Out> { self.receiver.receiver->0 }
    spec fn s_terminated(&self) -> bool { self.missing_terminate == 0 }
    spec fn s_ended(&self) -> bool { if self.cached { self.s_terminated() } else { self.missing_flush_and_restart == 0 } }
    spec fn s_cache_finished(&self) -> bool { self.cache_pointer >= self.cache@.len() }
    spec fn same_config(&self, o: &Self) -> bool {
        &&& self.instances == o.instances && self.cached == o.cached
        &&& self.receiver.previous_replicas == o.receiver.previous_replicas && self.receiver.previous_block_id == o.receiver.previous_block_id
        &&& self.link().replicas() == o.link().replicas() && self.link().one_shot() == o.link().one_shot()
    }
    // representation invariant (established by setup)
    spec fn wf(&self) -> bool {
        &&& self.receiver.receiver is Some
        &&& self.instances == self.link().replicas()
        &&& self.cached == self.link().one_shot()
        &&& self.missing_flush_and_restart <= self.instances && self.missing_terminate <= self.instances
        &&& self.missing_terminate == self.link().term_budget()
        &&& self.cache_pointer <= self.cache@.len()
        &&& (!self.cached ==> self.cache@.len() == 0 && !self.cache_full)
        &&& (!self.cached ==> (self.missing_flush_and_restart == self.link().fr_budget()
                || (self.link().fr_budget() == 0 && self.missing_flush_and_restart == self.instances)))
        &&& (self.cached && !self.cache_full ==> self.missing_flush_and_restart == self.link().fr_budget() && self.s_cache_finished())
        // a full cache means the outside stream is over
        &&& (self.cache_full ==> self.cached && self.s_terminated())
        // Terminate is kept out of the cache
        &&& (forall|i: int| 0 <= i < self.cache@.len() ==> no_terminate(msg_data(#[trigger] self.cache@[i])))
    }
    // the side may be read from its link now without breaking the marker accounting
    spec fn readable(&self) -> bool { !self.s_ended() }
}
'''

RECV_SPEC = r'''
        requires old(self).receiver is Some,
        ensures final(self).receiver is Some,
            final(self).previous_replicas == old(self).previous_replicas, final(self).previous_block_id == old(self).previous_block_id,
            old(self).receiver->0.delivers(&final(self).receiver->0, r),   // #obl:simple.recv_is_the_next_batch_of_the_link
'''
RECV_TIMEOUT_SPEC = r'''
        requires old(self).receiver is Some,
        ensures final(self).receiver is Some,
            final(self).previous_replicas == old(self).previous_replicas, final(self).previous_block_id == old(self).previous_block_id,
            r matches Ok(m) ==> old(self).receiver->0.delivers(&final(self).receiver->0, m),   // #obl:simple.recv_timeout_is_the_next_batch_of_the_link
            r is Err ==> final(self).receiver->0 == old(self).receiver->0,
'''
SIDE_RECV_SPEC = r'''
        requires old(self).receiver.receiver is Some,
        ensures
            final(self).receiver.receiver is Some,
            final(self).instances == old(self).instances && final(self).cached == old(self).cached && final(self).cache == old(self).cache
                && final(self).cache_full == old(self).cache_full && final(self).cache_pointer == old(self).cache_pointer
                && final(self).missing_flush_and_restart == old(self).missing_flush_and_restart && final(self).missing_terminate == old(self).missing_terminate
                && final(self).receiver.previous_replicas == old(self).receiver.previous_replicas && final(self).receiver.previous_block_id == old(self).receiver.previous_block_id,
            r matches Ok(m) ==> old(self).link().delivers(&final(self).link(), m),   // #obl:side.recv_is_the_next_batch_of_the_link
            r is Err ==> final(self).link() == old(self).link(),
            timeout is None ==> r is Ok,
'''

FRAME_SIDE = r"""final(self).instances == old(self).instances && final(self).cached == old(self).cached && final(self).receiver == old(self).receiver"""
RESET_SPEC = r"""
        ensures
            """ + FRAME_SIDE + r""" && final(self).cache == old(self).cache && final(self).missing_terminate == old(self).missing_terminate,
            final(self).missing_flush_and_restart == old(self).instances,                                             // #obl:side.reset_expects_every_replica_again
            old(self).cached ==> final(self).cache_full && final(self).cache_pointer == 0,                              // #obl:side.reset_restarts_the_replay_from_the_first_cached_batch
            !old(self).cached ==> final(self).cache_full == old(self).cache_full && final(self).cache_pointer == old(self).cache_pointer,
"""
NEXT_CACHED_SPEC = r"""
        requires !old(self).s_cache_finished(),
        ensures
            """ + FRAME_SIDE + r""" && final(self).cache == old(self).cache && final(self).missing_terminate == old(self).missing_terminate
                && final(self).cache_full == old(self).cache_full,
            r == old(self).cache@[old(self).cache_pointer as int],                                                      // #obl:side.replays_the_batch_at_the_pointer
            final(self).cache_pointer == old(self).cache_pointer + 1,                                                   // #obl:side.pointer_advances_by_one
            final(self).missing_flush_and_restart == (if final(self).s_cache_finished() { 0 } else { old(self).missing_flush_and_restart }),
"""
OUT_REL = r"""
// what process_side makes of a batch `inp` read from a side that still misses mfr0 FlushAndRestart:
// every element wrapped, in order; the side's end marker right before the FlushAndRestart that completes the
// iteration; Terminate dropped when the side is cached
spec fn out_rel<A, B, F: Fn(A) -> B>(f: F, inp: Seq<StreamElement<A>>, out: Seq<StreamElement<B>>, mfr0: int, cached: bool, end: B) -> bool
    decreases inp.len()
{
    if inp.len() == 0 { out.len() == 0 } else {
        let e = inp.last();
        let pre = e is FlushAndRestart && mfr0 - count_fr(inp) == 0;
        let keep = !(cached && e is Terminate);
        let k = (if pre { 1int } else { 0int }) + (if keep { 1int } else { 0int });
        &&& out.len() >= k
        &&& out_rel(f, inp.drop_last(), out.take(out.len() - k), mfr0, cached, end)
        &&& (pre ==> out[out.len() - k] == StreamElement::Item(end))
        &&& (keep ==> wrapped(f, e, out.last()))
    }
}
"""
PROCESS_SIDE_SPEC = r"""
        requires
            count_fr(msg_data(message)) <= old(side).missing_flush_and_restart,
            count_term(msg_data(message)) <= old(side).missing_terminate,
            forall|v: Out| wrap.requires((v,)),
            forall|i: int| 0 <= i < old(side).cache@.len() ==> no_terminate(msg_data(#[trigger] old(side).cache@[i])),
        ensures
            final(side).instances == old(side).instances && final(side).cached == old(side).cached && final(side).receiver == old(side).receiver
                && final(side).cache_full == old(side).cache_full,
            r.sender == message.sender,
            out_rel(wrap, msg_data(message), msg_data(r), old(side).missing_flush_and_restart as int, old(side).cached, end),   // #obl:process_side.every_element_wrapped_in_order_end_marker_before_last_restart
            final(side).missing_flush_and_restart == old(side).missing_flush_and_restart - count_fr(msg_data(message)),        // #obl:process_side.counts_restarts
            final(side).missing_terminate == old(side).missing_terminate - count_term(msg_data(message)),                     // #obl:process_side.counts_terminates
            old(side).cached ==> final(side).cache@ == old(side).cache@.push(r) && final(side).cache_pointer == final(side).cache@.len(),   // #obl:process_side.first_round_output_is_exactly_what_is_cached
            !old(side).cached ==> final(side).cache@ == old(side).cache@ && final(side).cache_pointer == old(side).cache_pointer,
            forall|i: int| 0 <= i < final(side).cache@.len() ==> no_terminate(msg_data(#[trigger] final(side).cache@[i])),     // #obl:process_side.terminate_kept_out_of_the_cache
"""
PS_LOOP = r"""
            invariant
                side.instances == old(side).instances && side.cached == old(side).cached && side.receiver == old(side).receiver
                    && side.cache_full == old(side).cache_full && side.cache == old(side).cache && side.cache_pointer == old(side).cache_pointer,
                0 <= k <= inp.len(),
                (__it matches NetworkDataIterator::Batch(i) && i.remaining() == inp.skip(k as int)),
                count_fr(inp) <= old(side).missing_flush_and_restart, count_term(inp) <= old(side).missing_terminate,
                side.missing_flush_and_restart == old(side).missing_flush_and_restart - count_fr(inp.take(k as int)),
                side.missing_terminate == old(side).missing_terminate - count_term(inp.take(k as int)),
                out_rel(wrap, inp.take(k as int), data@, old(side).missing_flush_and_restart as int, side.cached, end),
                side.cached ==> no_terminate(data@),
                forall|v: Out| wrap.requires((v,)),
            ensures k == inp.len(),
            decreases inp.len() - k,
"""
PS_ITEM = r"""
                    let ghost data0 = data@;
                    proof {
                        assert(inp.skip(k as int)[0] == inp[k as int]);
                        assert(inp.take(k as int + 1) =~= inp.take(k as int).push(inp[k as int]));
                        assert(inp.take(k as int + 1).drop_last() =~= inp.take(k as int));
                        lemma_counts_push(inp.take(k as int), inp[k as int]);
                        lemma_count_mono(inp, k as int + 1);
                    }
"""
PS_ITEM_END = r"""
                    proof {
                        let kk = data@.len() - data0.len();
                        assert(data@.take(data@.len() - kk) =~= data0);
                        assert(inp.skip(k as int).skip(1) =~= inp.skip(k as int + 1));
                        k = k + 1;
                    }
"""
COUNT_MONO = r"""
proof fn lemma_count_mono<T>(s: Seq<StreamElement<T>>, k: int)
    requires 0 <= k <= s.len()
    ensures count_fr(s.take(k)) <= count_fr(s), count_term(s.take(k)) <= count_term(s)
    decreases s.len() - k
{
    if k < s.len() {
        lemma_count_mono(s, k + 1);
        assert(s.take(k + 1).drop_last() =~= s.take(k));
    } else {
        assert(s.take(k) =~= s);
    }
}
"""

SELECT_DEFS = r"""
enum Side<L, R> {
    Left(L),
    Right(R),
}
spec fn wrapped_sf<A, B>(g: spec_fn(A) -> B, e: StreamElement<A>, o: StreamElement<B>) -> bool {
    match e {
        StreamElement::Item(x) => o == StreamElement::Item(g(x)),
        StreamElement::Timestamped(x, t) => o == StreamElement::Timestamped(g(x), t),
        StreamElement::Watermark(w) => o == StreamElement::<B>::Watermark(w),
        StreamElement::Terminate => o is Terminate,
        StreamElement::FlushAndRestart => o is FlushAndRestart,
        StreamElement::FlushBatch => o is FlushBatch,
    }
}
// out_rel with the wrapping given as a mathematical function
spec fn out_rel_sf<A, B>(g: spec_fn(A) -> B, inp: Seq<StreamElement<A>>, out: Seq<StreamElement<B>>, mfr0: int, cached: bool, end: B) -> bool
    decreases inp.len()
{
    if inp.len() == 0 { out.len() == 0 } else {
        let e = inp.last();
        let pre = e is FlushAndRestart && mfr0 - count_fr(inp) == 0;
        let keep = !(cached && e is Terminate);
        let k = (if pre { 1int } else { 0int }) + (if keep { 1int } else { 0int });
        &&& out.len() >= k
        &&& out_rel_sf(g, inp.drop_last(), out.take(out.len() - k), mfr0, cached, end)
        &&& (pre ==> out[out.len() - k] == StreamElement::Item(end))
        &&& (keep ==> wrapped_sf(g, e, out.last()))
    }
}
proof fn lemma_out_rel_sf<A, B, F: Fn(A) -> B>(f: F, g: spec_fn(A) -> B, inp: Seq<StreamElement<A>>, out: Seq<StreamElement<B>>, mfr0: int, cached: bool, end: B)
    requires out_rel(f, inp, out, mfr0, cached, end), forall|x: A, y: B| f.ensures((x,), y) ==> y == g(x),
    ensures out_rel_sf(g, inp, out, mfr0, cached, end)
    decreases inp.len()
{
    if inp.len() > 0 {
        let e = inp.last();
        let pre = e is FlushAndRestart && mfr0 - count_fr(inp) == 0;
        let keep = !(cached && e is Terminate);
        let k = (if pre { 1int } else { 0int }) + (if keep { 1int } else { 0int });
        lemma_out_rel_sf(f, g, inp.drop_last(), out.take(out.len() - k), mfr0, cached, end);
    }
}

spec fn left_g<L: Data, R: Data>() -> spec_fn(L) -> BinaryElement<L, R> { |x: L| BinaryElement::<L, R>::Left(x) }
spec fn right_g<L: Data, R: Data>() -> spec_fn(R) -> BinaryElement<L, R> { |x: R| BinaryElement::<L, R>::Right(x) }
// one call of select seen from one side.  `reset`: both sides had ended and every cache was replayed (a new round starts)
spec fn read_step<X: ExchangeData, L: ExchangeData, R: ExchangeData>(o: &SideReceiver<X, BinaryElement<L, R>>, n: &SideReceiver<X, BinaryElement<L, R>>,
        raw: NetworkMessage<X>, r: Result<NetworkMessage<BinaryElement<L, R>>, RecvTimeoutError>, g: spec_fn(X) -> BinaryElement<L, R>, end: BinaryElement<L, R>, mfr0: int) -> bool {
    &&& o.link().delivers(&n.link(), raw)
    &&& r is Ok && r->Ok_0.sender == raw.sender
    &&& out_rel_sf(g, msg_data(raw), msg_data(r->Ok_0), mfr0, o.cached, end)
    &&& n.missing_flush_and_restart == mfr0 - count_fr(msg_data(raw)) && n.missing_terminate == o.missing_terminate - count_term(msg_data(raw))
    &&& n.cache_full == o.cache_full
    &&& (o.cached ==> n.cache@ == o.cache@.push(r->Ok_0) && n.cache_pointer == n.cache@.len())
    &&& (!o.cached ==> n.cache@ == o.cache@ && n.cache_pointer == o.cache_pointer)
}
spec fn side_step<X: ExchangeData, L: ExchangeData, R: ExchangeData>(o: &SideReceiver<X, BinaryElement<L, R>>, n: &SideReceiver<X, BinaryElement<L, R>>,
        reset: bool, r: Result<NetworkMessage<BinaryElement<L, R>>, RecvTimeoutError>, g: spec_fn(X) -> BinaryElement<L, R>, end: BinaryElement<L, R>) -> bool {
    let p0 = if reset && o.cached { 0int } else { o.cache_pointer as int };
    let full0 = o.cached && (o.cache_full || reset);
    let mfr0 = if reset { o.instances as int } else { o.missing_flush_and_restart as int };
    &&& n.same_config(o)
    // ---- the cache is full (every round but the first): never read from the producers again, never modified;
    //      replayed one batch per call, in order; the pointer restarts only with `reset`
    &&& (full0 ==> {
            &&& n.cache_full && n.cache@ == o.cache@ && n.link() == o.link() && n.missing_terminate == o.missing_terminate
            &&& (n.cache_pointer == p0
                || (p0 < o.cache@.len() && n.cache_pointer == p0 + 1 && r == Ok::<NetworkMessage<BinaryElement<L, R>>, RecvTimeoutError>(o.cache@[p0])))
        })
    // ---- otherwise the side is either left alone or read once from its link; what is read is delivered wrapped, in
    //      order, and (cached side, first round) appended to the cache as delivered
    &&& (!full0 ==> {
            ||| (n.link() == o.link() && n.cache@ == o.cache@ && n.cache_pointer == o.cache_pointer && n.cache_full == o.cache_full
                    && n.missing_flush_and_restart == mfr0 && n.missing_terminate == o.missing_terminate)
            // (the batch read is the last entry of the link's log)
            ||| read_step(o, n, n.link().received().last(), r, g, end, mfr0)
        })
}

impl<OutL: ExchangeData, OutR: ExchangeData> BinaryStartReceiver<OutL, OutR> {
    spec fn wf(&self) -> bool {
        &&& self.left.wf() && self.right.wf()
        &&& self.left.instances >= 1 && self.right.instances >= 1
        &&& !(self.left.cached && self.right.cached)
        &&& (self.first_message ==> !self.left.cached && !self.right.cached)
    }
    spec fn reset_due(&self) -> bool {
        self.left.s_ended() && self.right.s_ended() && self.left.s_cache_finished() && self.right.s_cache_finished()
    }
    spec fn num_terminates(&self) -> int {
        if self.left.cached { self.left.instances as int } else if self.right.cached { self.right.instances as int } else { 0 }
    }
    spec fn synth_due(&self) -> bool {
        self.left.s_terminated() && self.right.s_terminated() && self.num_terminates() > 0
    }
}
"""
WRAP_CLOSURES = r"""
        let wrap_left = |x: OutL| -> (y: BinaryElement<OutL, OutR>) ensures y == BinaryElement::<OutL, OutR>::Left(x) { BinaryElement::Left(x) };
        let wrap_right = |x: OutR| -> (y: BinaryElement<OutL, OutR>) ensures y == BinaryElement::<OutL, OutR>::Right(x) { BinaryElement::Right(x) };
"""
SELECT_SPEC = r"""
        requires old(self).wf(),
        ensures
            final(self).wf(),                                                                                                   // #obl:select.inv_preserved
            // the Terminate markers of the cached side are re-synthesised at the very end, and only then
            old(self).synth_due() ==> *final(self) == *old(self) && r is Ok && msg_data(r->Ok_0).len() == old(self).num_terminates()
                && (forall|i: int| 0 <= i < msg_data(r->Ok_0).len() ==> #[trigger] msg_data(r->Ok_0)[i] is Terminate),           // #obl:select.outside_stream_end_resynthesised_only_when_both_sides_terminated
            !old(self).synth_due() ==> side_step(&old(self).left, &final(self).left, old(self).reset_due(), r, left_g::<OutL, OutR>(), BinaryElement::LeftEnd),      // #obl:select.left_side_step
            !old(self).synth_due() ==> side_step(&old(self).right, &final(self).right, old(self).reset_due(), r, right_g::<OutL, OutR>(), BinaryElement::RightEnd),   // #obl:select.right_side_step
            // a new round starts by asking the side that comes from the loop first (it tells whether there is a new round at
            // all): in the call that restarts the round nothing is replayed from the cache yet
            !old(self).synth_due() && old(self).reset_due() && old(self).left.cached ==> final(self).left.cache_pointer == 0,     // #obl:select.new_round_asks_the_loop_side_first.left_cached
            !old(self).synth_due() && old(self).reset_due() && old(self).right.cached ==> final(self).right.cache_pointer == 0,   // #obl:select.new_round_asks_the_loop_side_first.right_cached
            // at most one side is read per call
            final(self).left.link() == old(self).left.link() || final(self).right.link() == old(self).right.link(),            // #obl:select.reads_one_side_per_call
"""

LEMMA_ROUNDS = r"""
// ---- all histories: any sequence of select calls, seen from the cached side, between two round starts
// st[i] --select--> st[i+1] with result rs[i]; rst[i] = "this call started a new round" (= reset_due() of the receiver,
// which implies that the cache had been replayed completely).
spec fn replayed<X: ExchangeData, L: ExchangeData, R: ExchangeData>(st: Seq<SideReceiver<X, BinaryElement<L, R>>>,
        rs: Seq<Result<NetworkMessage<BinaryElement<L, R>>, RecvTimeoutError>>, rst: Seq<bool>, m: int) -> Seq<NetworkMessage<BinaryElement<L, R>>>
    decreases m
{
    if m <= 0 { Seq::empty() } else {
        let prev = replayed(st, rs, rst, m - 1);
        let p0 = if rst[m - 1] { 0int } else { st[m - 1].cache_pointer as int };
        if st[m].cache_pointer == p0 + 1 { prev.push(rs[m - 1]->Ok_0) } else { prev }
    }
}
proof fn lemma_rounds<X: ExchangeData, L: ExchangeData, R: ExchangeData>(st: Seq<SideReceiver<X, BinaryElement<L, R>>>,
        rs: Seq<Result<NetworkMessage<BinaryElement<L, R>>, RecvTimeoutError>>, rst: Seq<bool>, g: spec_fn(X) -> BinaryElement<L, R>, end: BinaryElement<L, R>, m: int)
    requires
        m >= 1, st.len() == m + 1, rs.len() == m, rst.len() == m,
        // the cached side; call 0 starts a round, calls 1..m-1 belong to the same round
        st[0].cached, rst[0],
        forall|i: int| 0 <= i < m ==> #[trigger] side_step(&st[i], &st[i + 1], rst[i], rs[i], g, end),
        forall|i: int| 1 <= i < m ==> !#[trigger] rst[i],
    ensures
        // the cache is never modified and the producers are never read again
        st[m].cached && st[m].cache_full && st[m].cache@ == st[0].cache@ && st[m].link() == st[0].link(),               // #obl:history.cache_frozen_once_full
        // what was replayed in this round is exactly the prefix of the cache up to the pointer: in order, no gap, no repeat
        st[m].cache_pointer <= st[0].cache@.len(),
        replayed(st, rs, rst, m) =~= st[0].cache@.take(st[m].cache_pointer as int),                                      // #obl:history.round_replays_the_cache_in_order_exactly_once
        // ... hence complete when the next round may start (reset_due requires the cache to be finished)
        st[m].s_cache_finished() ==> replayed(st, rs, rst, m) =~= st[0].cache@,                                          // #obl:history.round_is_complete_when_the_next_one_starts
    decreases m
{
    let i0 = m - 1;
    assert(side_step(&st[i0], &st[i0 + 1], rst[i0], rs[i0], g, end));
    if m == 1 {
        assert(replayed(st, rs, rst, 0) =~= Seq::<NetworkMessage<BinaryElement<L, R>>>::empty());
        if st[1].cache_pointer == 1 {
            assert(st[0].cache@.take(1) =~= Seq::<NetworkMessage<BinaryElement<L, R>>>::empty().push(st[0].cache@[0]));
        }
    } else {
        let st1 = st.take(m); let rs1 = rs.take(m - 1); let rst1 = rst.take(m - 1);
        assert forall|i: int| 0 <= i < m - 1 implies #[trigger] side_step(&st1[i], &st1[i + 1], rst1[i], rs1[i], g, end) by {
            assert(side_step(&st[i], &st[i + 1], rst[i], rs[i], g, end));
        }
        assert forall|i: int| 1 <= i < m - 1 implies !#[trigger] rst1[i] by { assert(!rst[i]); }
        lemma_rounds(st1, rs1, rst1, g, end, m - 1);
        lemma_replayed_prefix(st, rs, rst, m, m - 1);
        assert(!rst[m - 1]);
        let p0 = st[m - 1].cache_pointer as int;
        if st[m].cache_pointer == p0 + 1 {
            assert(st[0].cache@.take(p0 + 1) =~= st[0].cache@.take(p0).push(st[0].cache@[p0]));
        }
    }
    if st[m].s_cache_finished() { assert(st[0].cache@.take(st[m].cache_pointer as int) =~= st[0].cache@); }
}
proof fn lemma_replayed_prefix<X: ExchangeData, L: ExchangeData, R: ExchangeData>(st: Seq<SideReceiver<X, BinaryElement<L, R>>>,
        rs: Seq<Result<NetworkMessage<BinaryElement<L, R>>, RecvTimeoutError>>, rst: Seq<bool>, m: int, k: int)
    requires 0 <= k <= m - 1, st.len() == m + 1, rs.len() == m, rst.len() == m,
    ensures replayed(st.take(m), rs.take(m - 1), rst.take(m - 1), k) == replayed(st, rs, rst, k),
    decreases k
{
    if k > 0 { lemma_replayed_prefix(st, rs, rst, m, k - 1); }
}
"""


def build(x):
    pieces = [S.CLONE_IS_EQ, S.RUST_PANIC, PRELUDE]
    se = x.enum(FO, 'StreamElement'); se.text = '#[derive(Clone)]\n' + se.text
    pieces += [se, WRAPPED]
    mp = x.method(FO, 'StreamElement', 'map'); mp.name_result('r')
    mp.add_spec(MAP_SPEC)
    pieces += ["impl<Out> StreamElement<Out> {", mp, "}"]
    pieces += message_pieces(x)
    re_ = x.enum(FC, 'RecvError'); re_.text = '#[derive(Debug)]\n' + re_.text
    pieces += [re_, x.enum(FC, 'RecvTimeoutError'), x.enum(FC, 'SelectResult')]
    be = x.enum(FB, 'BinaryElement'); be.text = '#[derive(Clone)]\n' + be.text
    pieces += [be, 'impl<OutL: Data, OutR: Data> Data for BinaryElement<OutL, OutR> {}\nimpl<OutL: Data, OutR: Data> ExchangeData for BinaryElement<OutL, OutR> {}   // blanket impls of the crate', x.struct(FSI, 'SimpleStartReceiver')]
    rt = x.method(FSI, 'SimpleStartReceiver', 'recv_timeout', trait='StartReceiver'); rt.name_result('r'); rt.add_spec(RECV_TIMEOUT_SPEC)
    rc = x.method(FSI, 'SimpleStartReceiver', 'recv', trait='StartReceiver'); rc.name_result('r'); rc.add_spec(RECV_SPEC)
    pieces += ["impl<Out: ExchangeData> SimpleStartReceiver<Out> {", rt, rc, "}"]
    pieces += [x.struct(FB, 'SideReceiver'), SIDE_SPEC]
    srecv = x.method(FB, 'SideReceiver', 'recv'); srecv.name_result('r'); srecv.add_spec(SIDE_RECV_SPEC)
    rs = x.method(FB, 'SideReceiver', 'reset'); rs.add_spec(RESET_SPEC)
    ie = x.method(FB, 'SideReceiver', 'is_ended'); ie.name_result('r'); ie.add_spec("        ensures r == self.s_ended(), // #obl:side.is_ended")
    it = x.method(FB, 'SideReceiver', 'is_terminated'); it.name_result('r'); it.add_spec("        ensures r == self.s_terminated(), // #obl:side.is_terminated")
    cf = x.method(FB, 'SideReceiver', 'cache_finished'); cf.name_result('r'); cf.add_spec("        ensures r == self.s_cache_finished(), // #obl:side.cache_finished")
    nc = x.method(FB, 'SideReceiver', 'next_cached_item'); nc.name_result('r'); nc.add_spec(NEXT_CACHED_SPEC)
    nc.insert_before('self.cache_pointer += 1;', 'proof { assert(self.cache@.len() == self.cache.len() as int); }\n        ')
    pieces += ["impl<Out: ExchangeData, Item: ExchangeData> SideReceiver<Out, Item> {", srecv, rs, ie, it, cf, nc, "}"]
    pieces += [x.struct(FB, 'BinaryStartReceiver'), OUT_REL, COUNT_MONO]
    ps = x.method(FB, 'BinaryStartReceiver', 'process_side')
    ps.replace_exact('V-FNPTR', 'wrap: fn(Out) -> BinaryElement<OutL, OutR>,', 'wrap: impl Fn(Out) -> BinaryElement<OutL, OutR> + Copy,',
                     detail='function-pointer parameter typed as `impl Fn + Copy` (Verus has no fn-pointer types)')
    ps.iter_flat_map_collect()
    ps.name_result('r')
    ps.add_spec(PROCESS_SIDE_SPEC)
    ps.insert_before('let mut data = Vec::new();', 'let ghost inp = msg_data(message);\n        let ghost mut k: nat = 0;\n        ')
    ps.add_loop_spec(1, PS_LOOP)
    ps.insert_after('/*@flat_map_item*/', PS_ITEM)
    ps.insert_after('/*@flat_map_item_end*/', PS_ITEM_END)
    ps.insert_after('/*@flat_map_end*/', '\n        proof { assert(inp.take(k as int) =~= inp); }')
    sel = x.method(FB, 'BinaryStartReceiver', 'select')
    sel.sub('V-HOIST', r'\n[ \t]*enum Side<L, R> \{\s*Left\(L\),\s*Right\(R\),\s*\}\n', '\n', detail='the function-local `enum Side<L, R>` is declared outside the function (same text)', flags=re.S, must=True)
    sel.desugar_assert()
    sel.iter_repeat_collect()
    sel.replace_exact('V-FNPTR', 'BinaryElement::Left,', 'wrap_left,', detail='constructor passed as fn pointer -> closure |x| BinaryElement::Left(x) bound to a local')
    sel.replace_exact('V-FNPTR', 'BinaryElement::Right,', 'wrap_right,', detail='constructor passed as fn pointer -> closure |x| BinaryElement::Right(x) bound to a local')
    sel.annotate_closure('right.recv_timeout(timeout).map(', 'r: NetworkMessage<OutR>', 'o: SelectResult<NetworkMessage<OutL>, NetworkMessage<OutR>>', 'o == SelectResult::<NetworkMessage<OutL>, NetworkMessage<OutR>>::B(Ok(r))')
    sel.annotate_closure('left.recv_timeout(timeout).map(', 'r: NetworkMessage<OutL>', 'o: SelectResult<NetworkMessage<OutL>, NetworkMessage<OutR>>', 'o == SelectResult::<NetworkMessage<OutL>, NetworkMessage<OutR>>::A(Ok(r))')
    sel.annotate_closure('Side::Left(left.map_err(', '_e: RecvError', 'o: RecvTimeoutError', 'o == RecvTimeoutError::Disconnected')
    sel.annotate_closure('Side::Right(right.map_err(', '_e: RecvError', 'o: RecvTimeoutError', 'o == RecvTimeoutError::Disconnected')
    for sd, lo, g, end in (('Left', 'left', 'left_g', 'LeftEnd'), ('Right', 'right', 'right_g', 'RightEnd')):
        sel.sub('V-SPEC', r'Side::%s\(Ok\(%s\)\) => Ok\(Self::process_side\((.*?)\)\),' % (sd, lo),
                lambda m, sd=sd, lo=lo, g=g, end=end: ('Side::%s(Ok(%s)) => { let ghost raw = %s; let ghost mfr_pre = self.%s.missing_flush_and_restart as int; let ghost c_pre = self.%s.cached;\n'
                    '                let __r = Ok(Self::process_side(%s));\n'
                    '                proof { lemma_out_rel_sf(wrap_%s, %s::<OutL, OutR>(), msg_data(raw), msg_data(__r->Ok_0), mfr_pre, c_pre, BinaryElement::%s); }\n'
                    '                __r },') % (sd, lo, lo, lo, lo, m.group(1), lo, g, end),
                detail='tail expression `Ok(Self::process_side(..))` bound to a local so that a proof block can follow it (call text verbatim)', flags=re.S, must=True)
    sel.name_result('r')
    sel.add_spec(SELECT_SPEC)
    sel.insert_at_body_start(WRAP_CLOSURES)
    sel.add_loop_spec(1, r'''
                        invariant __k <= num_terminates, __v@.len() == __k, forall|i: int| 0 <= i < __v@.len() ==> #[trigger] __v@[i] is Terminate,
                        decreases num_terminates - __k,
''')
    pieces += [SELECT_DEFS, "impl<OutL: ExchangeData, OutR: ExchangeData> BinaryStartReceiver<OutL, OutR> {", ps, sel, "}", LEMMA_ROUNDS]
    return pieces
