//! Contract harnesses for ProcessingTimeWindowManager::process (overlay, cfg(kani) only). R-CLOCK: Instant::now stubbed.
use super::*;

#[derive(Clone, Copy, Debug, PartialEq, Eq)]
pub struct Cnt { n: u8, last: u8 }
impl WindowAccumulator for Cnt {
    type In = u8;
    type Out = Cnt;
    fn process(&mut self, el: u8) { self.n = self.n.saturating_add(1); self.last = el; }
    fn output(self) -> Cnt { self }
}
const EMPTY: Cnt = Cnt { n: 0, last: 0 };
const MAXS: usize = 3;
const LIM: u64 = 1 << 40;

static mut VERIF_NOW_NANOS: u64 = 0;
fn base() -> Instant { unsafe { std::mem::zeroed() } }
fn at(nanos: u64) -> Instant { base() + Duration::from_nanos(nanos) }
fn verif_now() -> Instant { at(unsafe { VERIF_NOW_NANOS }) }

#[derive(Clone, Copy)]
struct SlotView { start: u64, end: u64, active: bool, acc: Cnt }

fn any_manager() -> (ProcessingTimeWindowManager<Cnt>, [SlotView; MAXS], usize, u64, u64) {
    let size: u64 = kani::any();
    let slide: u64 = kani::any();
    kani::assume(1 <= slide && slide <= size && size <= (1 << 20));
    let n: usize = kani::any();
    kani::assume(n <= MAXS);
    let mut start: u64 = kani::any();
    kani::assume(start <= LIM);
    let mut ws = VecDeque::new();
    let mut view = [SlotView { start: 0, end: 0, active: false, acc: EMPTY }; MAXS];
    let mut i = 0;
    while i < MAXS {
        if i < n {
            if i > 0 { start += slide; } // slots are allocated contiguously
            let active: bool = kani::any();
            let acc = if active { let c = Cnt { n: kani::any(), last: kani::any() }; kani::assume(c.n >= 1 && c.n < 200); c } else { EMPTY };
            view[i] = SlotView { start, end: start + size, active, acc };
            ws.push_back(Slot { acc, start: at(start), end: at(start + size), active });
        }
        i += 1;
    }
    (ProcessingTimeWindowManager { init: EMPTY, size: Duration::from_nanos(size), slide: Duration::from_nanos(slide), ws }, view, n, size, slide)
}

/// an item at wall-clock `now`: closed windows are emitted once, the item joins every window covering `now`
#[kani::proof]
#[kani::unwind(9)]
#[kani::stub(std::time::Instant::now, verif_now)]
fn processing_time_item_contract() {
    let (mut m, view, n, size, slide) = any_manager();
    let now: u64 = kani::any();
    kani::assume(now <= 2 * LIM);
    if n > 0 { kani::assume(now >= view[0].start && now <= view[n - 1].start + 2 * slide); } // monotone clock, bounded pause
    unsafe { VERIF_NOW_NANOS = now; }
    let x: u8 = kani::any();
    let out = m.process(StreamElement::Item(x));
    // expected results: the active slots whose end is strictly before now, oldest first
    let mut fired = 0;
    let mut i = 0;
    while i < n {
        if view[i].end < now && view[i].active {
            kani::assert(fired < out.len() && out[fired] == WindowResult::Item(view[i].acc), "obl:processing_time.closed_windows_emitted_once_in_order");
            fired += 1;
        }
        i += 1;
    }
    kani::assert(fired == out.len(), "obl:processing_time.emits_nothing_else");
    // the element is in every remaining slot covering now, in no other, and in at least one
    let mut hits: u64 = 0;
    let mut j = 0;
    while j < m.ws.len() {
        let s = &m.ws[j];
        kani::assert(s.end == s.start + m.size, "obl:processing_time.slot_length_is_size");
        if j > 0 { kani::assert(s.start == m.ws[j - 1].start + m.slide, "obl:processing_time.slots_contiguous"); }
        kani::assert(s.active == (s.acc.n > 0), "obl:processing_time.active_iff_nonempty");
        let inside = s.start <= at(now) && at(now) < s.end;
        if inside {
            hits += 1;
            kani::assert(s.active && s.acc.last == x, "obl:processing_time.item_added_to_every_covering_window");
        }
        j += 1;
    }
    kani::assert(hits >= 1, "obl:processing_time.item_in_at_least_one_window");
    if slide == size { kani::assert(hits == 1, "obl:processing_time.tumbling_exactly_one_window"); }
    kani::assert((hits - 1) * slide < size, "obl:processing_time.sliding_at_most_ceil_size_over_slide");
    kani::cover!(out.len() >= 1 && hits >= 2, "cov:fired_and_two_hits");
    kani::cover!(n == 0, "cov:first_item");
}

/// end of iteration: all pending windows are flushed, nothing is carried over
#[kani::proof]
#[kani::unwind(9)]
#[kani::stub(std::time::Instant::now, verif_now)]
fn processing_time_end_contract() {
    let (mut m, view, n, _size, _slide) = any_manager();
    let now: u64 = kani::any();
    kani::assume(now <= 2 * LIM);
    unsafe { VERIF_NOW_NANOS = now; }
    let term: bool = kani::any();
    let out = m.process(if term { StreamElement::Terminate } else { StreamElement::FlushAndRestart });
    kani::assert(m.ws.is_empty(), "obl:processing_time.end_carries_nothing_over");
    let mut fired = 0;
    let mut i = 0;
    while i < n {
        if view[i].active {
            kani::assert(fired < out.len() && out[fired] == WindowResult::Item(view[i].acc), "obl:processing_time.end_flushes_every_pending_window");
            fired += 1;
        }
        i += 1;
    }
    kani::assert(fired == out.len(), "obl:processing_time.end_emits_nothing_else");
    kani::cover!(out.len() == 2, "cov:two_flushed");
}
