"""C14 — ProcessingTimeWindowManager::process: Kani single-call contract harnesses (bounded number of open slots)."""
ENGINE = 'kani'
PROPERTIES = ['C14']
FUNCTIONS = ['src/operator/window/descr/processing_time.rs: ProcessingTimeWindowManager::process']
OVERLAY = [('src/operator/window/descr/processing_time/verif_processing_time.rs', 'verif_processing_time.rs')]
MOD_LINES = [('src/operator/window/descr/processing_time.rs', '#[cfg(kani)] mod verif_processing_time;')]
ASSUMPTIONS = [
    'R-CLOCK: std::time::Instant::now stubbed (-Z stubbing) by an arbitrary value not before the first open slot (monotone clock) and at most 2 slides after the last slot (bounded pause: CBMC unwinding)',
    'state-size bound: at most 3 open slots; size <= 2^20 ns, instants <= 2^41 ns; accumulator = Cnt (count + last item)',
]
B = 'slots<=3, pause<=2 slides'
HARNESSES = [
    {'name': 'processing_time_item_contract', 'tier': 'quick', 'timeout': 1200, 'form': 'K-step', 'bounds': B},
    {'name': 'processing_time_end_contract', 'tier': 'quick', 'timeout': 1200, 'form': 'K-step', 'bounds': B},
]
KANI_ARGS = ['-Z', 'stubbing']
