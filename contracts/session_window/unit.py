"""C14 — SessionWindowManager::process: Kani contract harness (loop-free => complete over the full input domain up to the stated value bounds)."""
ENGINE = 'kani'
PROPERTIES = ['C14']
FUNCTIONS = ['src/operator/window/descr/session.rs: SessionWindowManager::process']
OVERLAY = [('src/operator/window/descr/session/verif_session.rs', 'verif_session.rs')]
MOD_LINES = [('src/operator/window/descr/session.rs', '#[cfg(kani)] mod verif_session;')]
ASSUMPTIONS = [
    'R-CLOCK: std::time::Instant::now stubbed (-Z stubbing) by an arbitrary non-decreasing value; instants built as zeroed Instant + Duration (nanos <= 2^41)',
    'accumulator = Log (first 3 items + count): the contract of user accumulators is instantiated, not quantified',
]
HARNESSES = [
    {'name': 'session_process_contract', 'tier': 'quick', 'timeout': 900, 'form': 'K-step (loop-free: complete)', 'bounds': 'gap, instants <= 2^41 ns'},
]
KANI_ARGS = ['-Z', 'stubbing']
