//! Contract harness for SessionWindowManager::process (overlay, cfg(kani) only).  R-CLOCK: Instant::now is stubbed by an arbitrary value.
use super::*;

#[derive(Clone, Copy, Debug, PartialEq, Eq)]
pub struct Log { n: u8, items: [u8; 3] }
impl WindowAccumulator for Log {
    type In = u8;
    type Out = Log;
    fn process(&mut self, el: u8) {
        if (self.n as usize) < 3 { self.items[self.n as usize] = el; }
        self.n = self.n.saturating_add(1);
    }
    fn output(self) -> Log { self }
}
const EMPTY: Log = Log { n: 0, items: [0; 3] };

static mut VERIF_NOW_NANOS: u64 = 0;
fn base() -> Instant { unsafe { std::mem::zeroed() } }
fn at(nanos: u64) -> Instant { base() + Duration::from_nanos(nanos) }
fn verif_now() -> Instant { at(unsafe { VERIF_NOW_NANOS }) }

fn any_element() -> StreamElement<u8> {
    match kani::any::<u8>() % 6 {
        0 => StreamElement::Item(kani::any()),
        1 => StreamElement::Timestamped(kani::any(), kani::any()),
        2 => StreamElement::Watermark(kani::any()),
        3 => StreamElement::FlushBatch,
        4 => StreamElement::FlushAndRestart,
        _ => StreamElement::Terminate,
    }
}

#[kani::proof]
#[kani::stub(std::time::Instant::now, verif_now)]
fn session_process_contract() {
    const LIM: u64 = 1 << 40;
    let gap_n: u64 = kani::any();
    kani::assume(1 <= gap_n && gap_n <= LIM);
    let gap = Duration::from_nanos(gap_n);
    let open: bool = kani::any();
    let last_n: u64 = kani::any();
    kani::assume(last_n <= LIM);
    let old_log = Log { n: kani::any(), items: kani::any() };
    kani::assume(old_log.n >= 1 && old_log.n < 200); // invariant: an open session is never empty
    let now_n: u64 = kani::any();
    kani::assume(now_n <= 2 * LIM && (!open || now_n >= last_n)); // the clock is any non-decreasing value
    unsafe { VERIF_NOW_NANOS = now_n; }
    let mut m = SessionWindowManager { init: EMPTY, gap, w: if open { Some(Slot { acc: old_log, last: at(last_n) }) } else { None } };
    let el = any_element();
    let kind = match &el { StreamElement::Item(x) | StreamElement::Timestamped(x, _) => Some(*x), _ => None };
    let is_end = matches!(el, StreamElement::FlushAndRestart | StreamElement::Terminate);
    let expired = open && now_n - last_n > gap_n;
    let r = m.process(el);
    match kind {
        Some(x) => {
            // every item goes into exactly one session: the open one, or a fresh one if the gap elapsed
            let mut want = if open && !expired { old_log } else { EMPTY };
            want.process(x);
            kani::assert(matches!(&m.w, Some(s) if s.acc == want && s.last == at(now_n)), "obl:session.item_joins_exactly_one_session");
            if expired {
                kani::assert(r == Some(WindowResult::Item(old_log)), "obl:session.closed_by_gap_exactly_once");
            } else {
                kani::assert(r.is_none(), "obl:session.no_result_while_session_open");
            }
        }
        None => {
            if is_end {
                // all pending sessions are flushed at the end of the iteration; nothing is carried over
                kani::assert(m.w.is_none(), "obl:session.end_carries_nothing_over");
                kani::assert(r == if open { Some(WindowResult::Item(old_log)) } else { None }, "obl:session.end_flushes_open_session");
            } else if expired {
                kani::assert(r == Some(WindowResult::Item(old_log)) && m.w.is_none(), "obl:session.closed_by_gap_exactly_once");
            } else {
                kani::assert(r.is_none(), "obl:session.no_result_while_session_open");
                kani::assert(match (&m.w, open) { (Some(s), true) => s.acc == old_log && s.last == at(last_n), (None, false) => true, _ => false }, "obl:session.control_elements_leave_session_untouched");
            }
        }
    }
    // results are never empty
    if let Some(WindowResult::Item(l)) = r { kani::assert(l.n >= 1, "obl:session.results_never_empty"); }
    if let Some(s) = &m.w { kani::assert(s.acc.n >= 1, "obl:session.open_session_never_empty"); }
    kani::cover!(expired && kind.is_some(), "cov:gap_then_item");
    kani::cover!(is_end && open, "cov:end_with_open_session");
}
