"""C19 (placement) — Scheduler::remote_block_info (src/scheduler.rs): replicas per host and global ids, for any number of hosts
and cores.  The function does not read the local host id at all, so every host derives the same table."""
import os, re, sys
sys.path.insert(0, os.path.dirname(os.path.dirname(__file__)))
import std_specs as S

PROPERTIES = ["C19"]
MIN_VERIFIED = 3
VERUS_ARGS = ['--rlimit', '60']
F = 'src/scheduler.rs'
FB = 'src/block/mod.rs'
FN = 'src/network/mod.rs'
ASSUMPTIONS = [
    "std HashMap modelled by its map view: `.entry(k).or_default()` -> entry_or_default(k) (returns &mut to the value, inserting an empty Vec if absent), `.insert(k, v)`; iteration order is never used by this function",
    "RemoteConfig / HostConfig / Block / SchedulerBlockInfo modelled by the fields this function reads or writes; Block::to_string() is opaque",
    "V-MACRO: the local macro add_replicas! is expanded at its four call sites; V-ITER: `for (i, x) in v.iter().enumerate()` -> while loop with index",
    "total number of cores < 2^62 (no overflow of the global id counter)",
]
PRELUDE = r'''
global size_of usize == 8;
type CoordUInt = u64; type BlockId = u64; type HostId = u64; type ReplicaId = u64;
#[verifier::external_body]
struct RString {}
struct HostConfig { num_cores: CoordUInt }
struct RemoteConfig { hosts: Vec<HostConfig> }
#[derive(Clone, Copy)]
enum BatchMode { Single }
struct Scheduling { replication: Replication }
struct Block { id: BlockId, scheduling: Scheduling, batch_mode: BatchMode, is_only_one_strategy: bool }
impl Block {
    #[verifier::external_body]
    fn to_string(&self) -> RString { unimplemented!() }
}
// ---- std HashMap<HostId, Vec<Coord>> and HashMap<Coord, CoordUInt> by their map views
#[verifier::external_body]
struct HostMap {}
impl HostMap {
    uninterp spec fn view(&self) -> Map<HostId, Seq<Coord>>;
    #[verifier::external_body]
    fn default() -> (r: HostMap) ensures r@ =~= Map::<HostId, Seq<Coord>>::empty() { unimplemented!() }
    #[verifier::external_body]
    fn entry_or_default(&mut self, k: HostId) -> (r: &mut Vec<Coord>)
        ensures r@ == (if old(self)@.contains_key(k) { old(self)@[k] } else { Seq::<Coord>::empty() }),
                final(self)@ == old(self)@.insert(k, final(r)@),
    { unimplemented!() }
}
#[verifier::external_body]
struct IdMap {}
impl IdMap {
    uninterp spec fn view(&self) -> Map<Coord, CoordUInt>;
    #[verifier::external_body]
    fn default() -> (r: IdMap) ensures r@ =~= Map::<Coord, CoordUInt>::empty() { unimplemented!() }
    #[verifier::external_body]
    fn insert(&mut self, k: Coord, v: CoordUInt) ensures final(self)@ == old(self)@.insert(k, v) { unimplemented!() }
}
struct SchedulerBlockInfo { repr: RString, replicas: HostMap, global_ids: IdMap, batch_mode: BatchMode, is_only_one_strategy: bool }
struct Scheduler {}

spec fn umin(a: int, b: int) -> int { if a <= b { a } else { b } }
// replicas given to host h when `before` replicas were already assigned to hosts < h
spec fn count_at(rep: Replication, cores: Seq<int>, h: int, before: int) -> int {
    match rep {
        Replication::Unlimited => cores[h],
        Replication::Limited(n) => umin(if n as int >= before { n as int - before } else { 0 }, cores[h]),
        Replication::Host => 1,
        Replication::One => if h == 0 { 1 } else { 0 },
    }
}
// replicas assigned to hosts < h  == global id of replica 0 of host h
spec fn sp_assigned(rep: Replication, cores: Seq<int>, h: int) -> int
    decreases h
{
    if h <= 0 { 0 } else { sp_assigned(rep, cores, h - 1) + count_at(rep, cores, h - 1, sp_assigned(rep, cores, h - 1)) }
}
spec fn count(rep: Replication, cores: Seq<int>, h: int) -> int { count_at(rep, cores, h, sp_assigned(rep, cores, h)) }
spec fn cores_of(c: RemoteConfig) -> Seq<int> { Seq::new(c.hosts@.len(), |i: int| c.hosts@[i].num_cores as int) }
spec fn total(cores: Seq<int>, h: int) -> int decreases h { if h <= 0 { 0 } else { total(cores, h - 1) + cores[h - 1] } }
proof fn lemma_total_mono(cores: Seq<int>, a: int, b: int)
    requires 0 <= a <= b <= cores.len(), forall|i: int| 0 <= i < cores.len() ==> #[trigger] cores[i] >= 0,
    ensures total(cores, a) <= total(cores, b),
    decreases b - a
{
    if a < b { lemma_total_mono(cores, a, b - 1); }
}
proof fn lemma_count_bound(rep: Replication, cores: Seq<int>, h: int)
    requires 0 <= h < cores.len(), forall|i: int| 0 <= i < cores.len() ==> #[trigger] cores[i] >= 0,
    ensures 0 <= count(rep, cores, h) <= cores[h] + 1,
{
    lemma_assigned_bound(rep, cores, h);
}
proof fn lemma_assigned_bound(rep: Replication, cores: Seq<int>, h: int)
    requires 0 <= h <= cores.len(), forall|i: int| 0 <= i < cores.len() ==> #[trigger] cores[i] >= 0,
    ensures 0 <= sp_assigned(rep, cores, h) <= total(cores, h) + h, total(cores, h) >= 0,
            rep matches Replication::Limited(n) ==> sp_assigned(rep, cores, h) <= n,
    decreases h
{
    if h > 0 { lemma_assigned_bound(rep, cores, h - 1); }
}
spec fn mk(block_id: BlockId, h: int, r: int) -> Coord { Coord { block_id, host_id: h as u64, replica_id: r as u64 } }
// the placement table a block must get: host h holds replicas 0..count(h), replica r of host h has global id sp_assigned(h) + r
spec fn placed_maps(ids: Map<Coord, CoordUInt>, reps: Map<HostId, Seq<Coord>>, block_id: BlockId, rep: Replication, cores: Seq<int>, upto: int) -> bool {
    &&& forall|h: int, r: int| 0 <= h < upto && 0 <= r < count(rep, cores, h) ==>
            ids.contains_key(#[trigger] mk(block_id, h, r)) && ids[mk(block_id, h, r)] == sp_assigned(rep, cores, h) + r        // contiguous ids in host order
    &&& forall|h: int| 0 <= h < upto ==> #[trigger] reps.contains_key(h as u64)
    &&& forall|h: int| 0 <= h < upto ==> (#[trigger] reps[h as u64]).len() == count(rep, cores, h)
            && (forall|r: int| 0 <= r < count(rep, cores, h) ==> reps[h as u64][r] == mk(block_id, h, r))
    &&& forall|c: Coord| #[trigger] ids.contains_key(c) ==> c.block_id == block_id && 0 <= c.host_id < upto
            && c.replica_id < count(rep, cores, c.host_id as int)                                                           // nothing else gets an id
    &&& forall|k: HostId| #[trigger] reps.contains_key(k) ==> k < upto
}
spec fn placed(info: &SchedulerBlockInfo, block_id: BlockId, rep: Replication, cores: Seq<int>, upto: int) -> bool {
    placed_maps(info.global_ids@, info.replicas@, block_id, rep, cores, upto)
}
// inside the replica loop of host h: the first `done` replicas of host h have been added
spec fn placing(ids: Map<Coord, CoordUInt>, ids0: Map<Coord, CoordUInt>, hr: Seq<Coord>, block_id: BlockId, h: int, base: int, done: int) -> bool {
    &&& hr.len() == done && (forall|r: int| 0 <= r < done ==> hr[r] == mk(block_id, h, r))
    &&& forall|c: Coord| #[trigger] ids.contains_key(c) <==> (ids0.contains_key(c) || (c.block_id == block_id && c.host_id == h && c.replica_id < done))
    &&& forall|c: Coord| ids0.contains_key(c) ==> #[trigger] ids[c] == ids0[c]
    &&& forall|r: int| 0 <= r < done ==> #[trigger] ids[mk(block_id, h, r)] == base + r
}
'''
SPEC = r'''
        requires
            remote.hosts@.len() >= 1, remote.hosts@.len() < 0x1_0000_0000,
            total(cores_of(*remote), remote.hosts@.len() as int) < 0x4000_0000_0000_0000,
        ensures
            ({
                let rep = block.scheduling.replication; let cores = cores_of(*remote);
                let hmax = if rep is One { 1int } else { remote.hosts@.len() as int };
                placed(&r, block.id, rep, cores, hmax)                                                                      // #obl:placement.replicas_and_global_ids_per_host
            }),
            r.is_only_one_strategy == block.is_only_one_strategy,
'''
def build(x):
    rep = x.enum(FB, 'Replication'); rep.text = '#[derive(Clone, Copy)]\n' + rep.text
    c = x.struct(FN, 'Coord'); c.text = '#[derive(Clone, Copy)]\n' + c.text
    cn = x.method(FN, 'Coord', 'new'); cn.name_result('r')
    cn.add_spec("        ensures r.block_id == block_id && r.host_id == host_id && r.replica_id == replica_id, // #obl:coord.new")
    f = x.method(F, 'Scheduler', 'remote_block_info')
    f.bind('n', r'add_replicas!\(host_id\.try_into\(\)\.unwrap\(\), host_info, (?!host_info)([A-Za-z_]\w*)\)')
    f.expand_local_macro('add_replicas')
    f.sub('V-LOG', r'log::debug!\((?:[^()]|\((?:[^()]|\([^()]*\))*\))*\);', '', detail='log statement inside the macro body dropped')
    f.sub('V-SUBST', r'fn remote_block_info<OperatorChain>\(\s*&self,\s*block: &Block<OperatorChain>,', 'fn remote_block_info(&self, block: &Block,', detail='generic Block<OperatorChain> -> field model Block', flags=re.S, must=True)
    f.sub('V-SUBST', r'\s*where\s*OperatorChain: Operator,', '', detail='generic bound dropped', flags=re.S)
    f.sub('V-SUBST', r'let mut replicas: HashMap<_, Vec<_>, crate::block::CoordHasherBuilder> = HashMap::default\(\);', 'let mut replicas = HostMap::default();', detail='HashMap -> map-view model', must=True)
    f.sub('V-SUBST', r'let mut global_ids = HashMap::default\(\);', 'let mut global_ids = IdMap::default();', detail='HashMap -> map-view model', must=True)
    f.sub('V-SUBST', r'replicas\.entry\((?P<k>[^)]*(?:\([^)]*\)[^)]*)*)\)\.or_default\(\)', lambda m: f"replicas.entry_or_default({m.group('k')})", detail='`.entry(k).or_default()` -> entry_or_default(k)', must=True)
    f.sub('V-ITER', r'for \(host_id, host_info\) in remote\.hosts\.iter\(\)\.enumerate\(\) \{', 'let mut __h: usize = 0; while __h < remote.hosts.len() { let host_id = __h; let host_info = &remote.hosts[__h]; __h += 1;', detail='`for (i, x) in v.iter().enumerate() {` -> while loop with index', must=True)
    # the running counter is referred to only if the function still has one (a change that removes it must still be judged)
    has_gc = re.search(r'\bglobal_counter\b', f.text) is not None
    gc = lambda t: (t.replace('GC_INNER', 'global_counter == base + replica_id,').replace('GC_OUTER', 'global_counter == sp_assigned(rep, cores, __h as int),').replace('GC_AFTER', 'assert(global_counter == sp_assigned(rep, cores, hh + 1));')
                    if has_gc else t.replace('GC_INNER', '').replace('GC_OUTER', '').replace('GC_AFTER', ''))
    f.name_result('r')
    f.add_spec(SPEC)
    f.insert_after('let mut global_ids = IdMap::default();', '''
        let ghost cores = cores_of(*remote);
        let ghost rep = block.scheduling.replication;
        proof {
            assert forall|i: int| 0 <= i < cores.len() implies #[trigger] cores[i] >= 0 by { }
            lemma_assigned_bound(rep, cores, remote.hosts@.len() as int);
        }''')
    OUTER = r"""
                    invariant
                        __h <= remote.hosts@.len(), cores == cores_of(*remote), rep == block.scheduling.replication, REPCOND,
                        remote.hosts@.len() < 0x1_0000_0000, total(cores, remote.hosts@.len() as int) < 0x4000_0000_0000_0000,
                        forall|i: int| 0 <= i < cores.len() ==> #[trigger] cores[i] >= 0,
                        GC_OUTER
                        placed_maps(global_ids@, replicas@, block.id, rep, cores, __h as int),
                    decreases remote.hosts@.len() - __h,
"""
    INNER = r"""
                    invariant
                        placing(global_ids@, ids0, host_replicas@, block.id, hh, base, replica_id as int),
                        GC_INNER base + nn < 0x4000_0001_0000_0002, 0 <= hh < 0x1_0000_0000,
                        nn == (ENDEXPR) as int, HOSTEQ,
                        forall|c: Coord| ids0.contains_key(c) ==> c.host_id < hh,
"""
    OUTER = gc(OUTER); INNER = gc(INNER); 
    f.add_loop_spec(1, OUTER.replace('REPCOND', 'rep is Unlimited'))
    f.add_loop_spec(3, OUTER.replace('REPCOND', 'rep matches Replication::Limited(n0) && remaining as int == n0 as int - sp_assigned(rep, cores, __h as int)'))
    f.add_loop_spec(5, OUTER.replace('REPCOND', 'rep is Host'))
    for nth, (nexpr, hexpr) in enumerate([('host_info.num_cores', '__h as int - 1'), ('§n§', '__h as int - 1'), ('1', '__h as int - 1'), ('1', '0')], start=1):
        f.insert_before('let host_replicas = replicas.entry_or_default(', '''let ghost ids0 = global_ids@;
                let ghost reps0 = replicas@;
                let ghost hh: int = (%s) as int;
                let ghost base: int = sp_assigned(rep, cores, hh);
                let ghost nn: int = (%s) as int;
                proof {
                    lemma_assigned_bound(rep, cores, hh); lemma_assigned_bound(rep, cores, hh + 1);
                    lemma_count_bound(rep, cores, hh);
                    lemma_total_mono(cores, hh + 1, remote.hosts@.len() as int);
                    assert(cores[hh] == remote.hosts@[hh].num_cores);
                    assert(nn == count(rep, cores, hh));   // #obl:placement.replicas_given_to_this_host
                    assert(!reps0.contains_key(hh as u64));
                    assert(base + nn == sp_assigned(rep, cores, hh + 1));
                    assert(base + nn < 0x4000_0001_0000_0002);
                    assert(0 <= hh < 0x1_0000_0000);
                }
                ''' % (hexpr, nexpr), nth=nth)
    AFTER = '''
                let ghost hr1 = host_replicas@;
                proof {
                    // the borrow of the host's vector ends here: replicas@ == reps0.insert(hh, hr1)
                    let reps1 = replicas@;
                    assert(reps1 == reps0.insert(hh as u64, hr1));
                    assert forall|h: int| 0 <= h < hh + 1 implies #[trigger] reps1.contains_key(h as u64) by {
                        if h < hh { assert(reps0.contains_key(h as u64)); }
                    }
                    assert forall|h: int| 0 <= h < hh + 1 implies (#[trigger] reps1[h as u64]).len() == count(rep, cores, h)
                        && (forall|r: int| 0 <= r < count(rep, cores, h) ==> reps1[h as u64][r] == mk(block.id, h, r)) by {
                        if h < hh { let old_v = reps0[h as u64]; assert(reps0.contains_key(h as u64)); assert(reps1[h as u64] == old_v); } else { assert(h == hh); assert(reps1[hh as u64] == hr1); }
                    }
                    assert forall|k: HostId| #[trigger] reps1.contains_key(k) implies k < hh + 1 by { if k != hh as u64 { assert(reps0.contains_key(k)); } }
                    let ids1 = global_ids@;
                    assert forall|h: int, r: int| 0 <= h < hh + 1 && 0 <= r < count(rep, cores, h) implies
                        ids1.contains_key(#[trigger] mk(block.id, h, r)) && ids1[mk(block.id, h, r)] == sp_assigned(rep, cores, h) + r by {
                        if h < hh { assert(ids0.contains_key(mk(block.id, h, r))); }
                    }
                    assert forall|c: Coord| #[trigger] ids1.contains_key(c) implies c.block_id == block.id && 0 <= c.host_id < hh + 1
                        && c.replica_id < count(rep, cores, c.host_id as int) by {
                        if ids0.contains_key(c) { } else { assert(c.host_id == hh); }
                    }
                    assert(placed_maps(ids1, reps1, block.id, rep, cores, hh + 1));
                    GC_AFTER
                }'''
    for ordinal in [7, 6, 4, 2]:
        f.insert_after_loop(ordinal, gc(AFTER))
    for ordinal, endx, hosteq in [(2, 'host_info.num_cores', 'host_id as int == hh'), (4, '§n§', 'host_id as int == hh'), (6, '1u64', 'host_id as int == hh'), (7, '1u64', 'hh == 0')]:
        f.add_loop_spec(ordinal, INNER.replace('ENDEXPR', endx).replace('HOSTEQ', hosteq))
    return [PRELUDE, rep, c, "impl Coord {", cn, "}", "impl Scheduler {", f, "}"]
