"""C18 / C05 — ChannelSource::next (src/operator/source/channel.rs): FlushBatch before every blocking wait."""
import os, re, sys
sys.path.insert(0, os.path.dirname(os.path.dirname(__file__)))
import std_specs as S

PROPERTIES = ["C18", "C05", "C15"]
MIN_VERIFIED = 2
F = 'src/operator/source/channel.rs'
FO = 'src/operator/mod.rs'
FC = 'src/channel.rs'
ASSUMPTIONS = [
    "R-CHAN: flume Receiver::try_recv / recv return an arbitrary result (any interleaving with the producer thread); flume::{TryRecvError,RecvError} modelled by the identically shaped enums of src/channel.rs",
]
PRELUDE = r'''
type Timestamp = i64;
#[verifier::external_body]
#[verifier::reject_recursive_types(T)]
struct Receiver<T> { _p: std::marker::PhantomData<T> }
impl<T> Receiver<T> {
    #[verifier::external_body]
    fn try_recv(&self) -> (r: Result<T, TryRecvError>) { unimplemented!() }
    // blocking receive: the source may only block after it has asked downstream to flush
    #[verifier::external_body]
    fn recv(&self) -> (r: Result<T, RecvError>) { unimplemented!() }
}
'''
SPEC = r'''
        ensures
            // Terminate exactly once the channel was found closed, and then forever; FlushAndRestart marks that moment
            r is Terminate <==> old(self).terminated,                                             // #obl:channel_source.terminate_only_after_close
            r is FlushAndRestart ==> final(self).terminated && !old(self).terminated,              // #obl:channel_source.single_flush_and_restart
            !(r is FlushAndRestart) ==> final(self).terminated == old(self).terminated,
            // C18: after every delivered item the idle budget restarts, so the NEXT idle period flushes again
            r is Item ==> final(self).retry_count == 0,                                            // #obl:channel_source.idle_budget_restarts_after_every_item
            // FlushBatch is emitted exactly when the spin budget is exhausted ...
            r is FlushBatch ==> old(self).retry_count <= MAX_RETRY && final(self).retry_count == MAX_RETRY + 1,   // #obl:channel_source.flush_batch_when_idle
            !(r is Watermark) && !(r is Timestamped),
'''
def build(x):
    src = x.src(F)
    m = re.search(r'const MAX_RETRY: u8 = (\d+);', src.text)
    if not m:
        from engine.rsx import ScanError; raise ScanError('MAX_RETRY not found')
    pieces = [PRELUDE, f"const MAX_RETRY: u8 = {m.group(1)};   // extracted from {F}", x.enum(FO, 'StreamElement'), x.enum(FC, 'TryRecvError'), x.enum(FC, 'RecvError')]
    st = x.struct(F, 'ChannelSource'); st.text = '#[verifier::reject_recursive_types(Out)]\n' + st.text
    pieces.append(st)
    nx = x.method(F, 'ChannelSource', 'next', trait='Operator')
    nx.name_result('r')
    nx.add_spec(SPEC)
    nx.add_loop_spec(1, r'''
            invariant self.terminated == old(self).terminated, self.retry_count >= old(self).retry_count,
                self.retry_count > old(self).retry_count ==> old(self).retry_count <= MAX_RETRY && self.retry_count <= MAX_RETRY,
            decreases MAX_RETRY + 2 - self.retry_count,
''')
    # ... and the source blocks on the channel only after that FlushBatch (so nothing is withheld while it sleeps)
    nx.insert_before(re.compile(r'match self\.rx\.recv\(\)'), 'assert(old(self).retry_count > MAX_RETRY);   // #obl:channel_source.blocks_only_after_flush_batch\n                    ')
    pieces += ["impl<Out: Send + core::fmt::Debug> ChannelSource<Out> {", nx, "}"]
    return pieces
