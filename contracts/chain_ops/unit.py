"""C05 / C06 / C16 — the stateless operators of a chain: Map::next, KeyBy::next, FilterMap::next, Filter::next, Inspect::next
(src/operator/{map,key_by,filter_map,filter,inspect}.rs).  Each pulls from `prev` and returns elements in pull order; a data
element keeps its kind and its timestamp (only the payload goes through the user function), control elements (Watermark,
FlushBatch, FlushAndRestart, Terminate) pass through unchanged and are never created, swallowed or reordered; the filtering
operators drop exactly the data elements the user predicate rejects."""
import os, re, sys
sys.path.insert(0, os.path.dirname(os.path.dirname(__file__)))
import std_specs as S

PROPERTIES = ["C05", "C06", "C16"]
MIN_VERIFIED = 5
FO = 'src/operator/mod.rs'
ASSUMPTIONS = [
    "user closures (map function, keyer, predicates, inspector): total; their results are related to the arguments only by the closures' own (unknown) postconditions",
    "prev.next() returns any element (model trait Operator with a ghost history)",
    "termination of Filter::next / FilterMap::next (they pull until an element survives) is not verified",
    "RichMap::next (per-key closure state in a HashMap captured by a closure) is NOT under contract: closures capturing `&mut self` fields are outside the Verus subset",
]
PRELUDE = r'''
use std::marker::PhantomData;
type Timestamp = i64;
trait Data: Clone + Send + 'static {}
trait DataKey: Clone + Send + 'static {}
trait Operator: Sized {
    type Out: Send;
    spec fn hist(&self) -> Seq<StreamElement<Self::Out>>;
    fn next(&mut self) -> (r: StreamElement<Self::Out>)
        ensures final(self).hist() == old(self).hist().push(r);
}
spec fn is_data<T>(e: StreamElement<T>) -> bool { e is Item || e is Timestamped }
spec fn payload<T>(e: StreamElement<T>) -> T { match e { StreamElement::Item(x) => x, StreamElement::Timestamped(x, _) => x, _ => arbitrary() } }
// same kind, same timestamp / watermark value; payloads may differ
spec fn same_shape<A, B>(a: StreamElement<A>, b: StreamElement<B>) -> bool {
    match a {
        StreamElement::Item(_) => b is Item,
        StreamElement::Timestamped(_, t) => b matches StreamElement::Timestamped(_, t2) && t2 == t,
        StreamElement::Watermark(w) => b matches StreamElement::Watermark(w2) && w2 == w,
        StreamElement::FlushBatch => b is FlushBatch,
        StreamElement::Terminate => b is Terminate,
        StreamElement::FlushAndRestart => b is FlushAndRestart,
    }
}
'''
MAP_ELEM_SPEC = r'''
        requires (self is Item || self is Timestamped) ==> f.requires((payload(self),)),
        ensures
            same_shape(self, r),                                                                             // #obl:element.map_keeps_kind_and_timestamp
            is_data(self) ==> f.ensures((payload(self),), payload(r)),                                       // #obl:element.map_applies_f_to_the_payload
'''
MAP_SPEC = r'''
        requires forall|x: Op::Out| old(self).f.requires((x,)),
        ensures
            final(self).f == old(self).f,
            final(self).prev.hist().len() == old(self).prev.hist().len() + 1,                                // #obl:map.one_element_pulled_per_call
            same_shape(final(self).prev.hist().last(), r),                                                   // #obl:map.kind_and_timestamp_kept_control_unchanged
            is_data(r) ==> old(self).f.ensures((payload(final(self).prev.hist().last()),), payload(r)),      // #obl:map.payload_is_f_of_the_input_payload
'''
KEYBY_SPEC = r'''
        requires forall|x: &Op::Out| old(self).keyer.requires((x,)),
        ensures
            final(self).keyer == old(self).keyer,
            final(self).prev.hist().len() == old(self).prev.hist().len() + 1,                                // #obl:key_by.one_element_pulled_per_call
            same_shape(final(self).prev.hist().last(), r),                                                   // #obl:key_by.kind_and_timestamp_kept_control_unchanged
            is_data(r) ==> payload(r).1 == payload(final(self).prev.hist().last())
                && old(self).keyer.ensures((&payload(final(self).prev.hist().last()),), payload(r).0),       // #obl:key_by.value_kept_key_is_the_keyers
'''
FILTERMAP_SPEC = r'''
        requires forall|x: PreviousOperator::Out| old(self).predicate.requires((x,)),
        ensures
            final(self).predicate == old(self).predicate,
            ({
                let p = final(self).prev.hist().skip(old(self).prev.hist().len() as int);
                &&& p.len() >= 1
                &&& forall|i: int| 0 <= i < p.len() - 1 ==> is_data(#[trigger] p[i]) && old(self).predicate.ensures((payload(p[i]),), None::<Out>)   // #obl:filter_map.only_rejected_data_elements_dropped
                &&& same_shape(p.last(), r)                                                                  // #obl:filter_map.kind_and_timestamp_kept_control_unchanged
                &&& (is_data(r) ==> old(self).predicate.ensures((payload(p.last()),), Some(payload(r))))     // #obl:filter_map.payload_is_the_predicates_result
            }),
'''
FILTER_SPEC = r'''
        requires forall|x: &Op::Out| old(self).predicate.requires((x,)),
        ensures
            final(self).predicate == old(self).predicate,
            ({
                let p = final(self).prev.hist().skip(old(self).prev.hist().len() as int);
                &&& p.len() >= 1
                &&& forall|i: int| 0 <= i < p.len() - 1 ==> is_data(#[trigger] p[i]) && old(self).predicate.ensures((&payload(p[i]),), false)   // #obl:filter.only_rejected_data_elements_dropped
                &&& r == p.last()                                                                            // #obl:filter.surviving_element_unchanged
                &&& (is_data(r) ==> old(self).predicate.ensures((&payload(r),), true))                       // #obl:filter.kept_only_if_the_predicate_holds
            }),
'''
INSPECT_SPEC = r'''
        requires forall|x: &Op::Out| old(self).f.requires((x,)),
        ensures
            final(self).prev.hist().len() == old(self).prev.hist().len() + 1,                                // #obl:inspect.one_element_pulled_per_call
            r == final(self).prev.hist().last(),                                                             // #obl:inspect.element_unchanged
'''
PULL_HINT = 'let __e = self.prev.next();\n            proof { let k = old(self).prev.hist().len() as int; assert(self.prev.hist().skip(k) =~= h0.skip(k).push(__e)); }\n            match __e {'
LOOP_INV = r'''
            invariant
                self.predicate == old(self).predicate, forall|x: %s| self.predicate.requires((x,)),
                self.prev.hist().len() >= old(self).prev.hist().len(),
                forall|i: int| 0 <= i < self.prev.hist().len() - old(self).prev.hist().len() ==>
                    is_data(#[trigger] self.prev.hist().skip(old(self).prev.hist().len() as int)[i])
                    && old(self).predicate.ensures((%s(self.prev.hist().skip(old(self).prev.hist().len() as int)[i]),), %s),
'''


def build(x):
    pieces = [PRELUDE, x.enum(FO, 'StreamElement')]
    # StreamElement::map (the real helper Map::next is written with)
    em = x.method(FO, 'StreamElement', 'map')
    em.name_result('r')
    em.add_spec(MAP_ELEM_SPEC)
    pieces += ["impl<Out> StreamElement<Out> {", em, "}"]

    # ---- Map
    F = 'src/operator/map.rs'
    st = x.struct(F, 'Map'); st.text = '#[verifier::reject_recursive_types(O)]\n#[verifier::reject_recursive_types(F)]\n#[verifier::reject_recursive_types(Op)]\n' + st.text
    nx = x.method(F, 'Map', 'next', trait='Operator'); nx.name_result('r'); nx.add_spec(MAP_SPEC)
    pieces += [st, "impl<O: Send, F, Op> Map<O, F, Op>\nwhere\n    F: Fn(Op::Out) -> O + Send + Clone,\n    Op: Operator,\n{", nx, "}"]

    # ---- KeyBy
    F = 'src/operator/key_by.rs'
    st = x.struct(F, 'KeyBy'); st.text = '#[verifier::reject_recursive_types(Key)]\n#[verifier::reject_recursive_types(Keyer)]\n#[verifier::reject_recursive_types(Op)]\n' + st.text
    nx = x.method(F, 'KeyBy', 'next', trait='Operator')
    nx.replace_exact('V-TRAIT', 'StreamElement<Self::Out>', 'StreamElement<(Key, Op::Out)>', detail='associated type Out substituted by its definition', count=None)
    nx.name_result('r'); nx.add_spec(KEYBY_SPEC)
    pieces += [st, "impl<Key: DataKey, Keyer, Op> KeyBy<Key, Keyer, Op>\nwhere\n    Keyer: Fn(&Op::Out) -> Key + Send + Clone,\n    Op: Operator,\n{", nx, "}"]

    # ---- FilterMap
    F = 'src/operator/filter_map.rs'
    st = x.struct(F, 'FilterMap'); st.text = '#[verifier::reject_recursive_types(Out)]\n#[verifier::reject_recursive_types(PreviousOperator)]\n#[verifier::reject_recursive_types(Predicate)]\n' + st.text
    nx = x.method(F, 'FilterMap', 'next', trait='Operator'); nx.name_result('r'); nx.add_spec(FILTERMAP_SPEC)
    nx.text = '#[verifier::exec_allows_no_decreases_clause]\n' + nx.text
    nx.add_loop_spec(1, LOOP_INV % ('PreviousOperator::Out', 'payload', 'None::<Out>'))
    nx.insert_before('match self.prev.next() {', 'let ghost h0 = self.prev.hist();\n            ')
    nx.sub('V-SPEC', r'match self\.prev\.next\(\) \{', PULL_HINT, detail='scrutinee bound to a ghost-visible name `__e`', must=True)
    pieces += [st, "impl<Out: Data, PreviousOperator, Predicate> FilterMap<Out, PreviousOperator, Predicate>\nwhere\n    Predicate: Fn(PreviousOperator::Out) -> Option<Out> + Send + Clone + 'static,\n    PreviousOperator: Operator + 'static,\n{", nx, "}"]

    # ---- Filter
    F = 'src/operator/filter.rs'
    st = x.struct(F, 'Filter'); st.text = '#[verifier::reject_recursive_types(Op)]\n#[verifier::reject_recursive_types(Predicate)]\n' + st.text
    nx = x.method(F, 'Filter', 'next', trait='Operator'); nx.name_result('r'); nx.add_spec(FILTER_SPEC)
    nx.text = '#[verifier::exec_allows_no_decreases_clause]\n' + nx.text
    nx.add_loop_spec(1, LOOP_INV % ('&Op::Out', '&payload', 'false'))
    nx.insert_before('match self.prev.next() {', 'let ghost h0 = self.prev.hist();\n            ')
    nx.sub('V-SPEC', r'match self\.prev\.next\(\) \{', PULL_HINT, detail='scrutinee bound to a ghost-visible name `__e`', must=True)
    # Verus loses the state across a call inside a match guard (measured: even `self.p == old(self).p` fails after `P if !(self.p)(x) => {}`),
    # so the guarded arms are evaluated first, as the definition of match guards prescribes: guards in order, first true one wins
    nx.sub('V-PAT', r'match (?P<e>\w+) \{(?:\s|//[^\n]*\n)*StreamElement::Item\(ref (?P<i>\w+)\) \| StreamElement::Timestamped\(ref (?P=i), _\)\s*if (?P<g>[^=]*?)=> \{\}(?:\s|//[^\n]*\n)*(?P<el>\w+) => return (?P=el),\s*\}',
           r'{ let __drop: bool = match &\g<e> { StreamElement::Item(\g<i>) => \g<g>, StreamElement::Timestamped(\g<i>, _) => \g<g>, _ => false };\n                if __drop {} else { let \g<el> = \g<e>; return \g<el>; } }',
           detail='`match e { Item(ref i) | Timestamped(ref i, _) if G => {} el => return el }` -> `let __drop = match &e { Item(i) => G, Timestamped(i, _) => G, _ => false }; if __drop {} else { let el = e; return el; }` (definition of match guards; G verbatim)', flags=re.S, must=True)
    pieces += [st, "impl<Op, Predicate> Filter<Op, Predicate>\nwhere\n    Predicate: Fn(&Op::Out) -> bool + Send + Clone + 'static,\n    Op: Operator,\n{", nx, "}"]

    # ---- Inspect
    F = 'src/operator/inspect.rs'
    st = x.struct(F, 'Inspect'); st.text = '#[verifier::reject_recursive_types(F)]\n#[verifier::reject_recursive_types(Op)]\n' + st.text
    nx = x.method(F, 'Inspect', 'next', trait='Operator')
    nx.replace_exact('V-TRAIT', 'StreamElement<Self::Out>', 'StreamElement<Op::Out>', detail='associated type Out substituted by its definition', count=None)
    nx.name_result('r'); nx.add_spec(INSPECT_SPEC)
    pieces += [st, "impl<F, Op> Inspect<F, Op>\nwhere\n    F: FnMut(&Op::Out) + Send + Clone,\n    Op: Operator,\n{", nx, "}"]
    return pieces
