"""C14 — ProcessingTimeWindowManager::process (src/operator/window/descr/processing_time.rs), Verus, any number of open windows."""
import os, re, sys
sys.path.insert(0, os.path.dirname(os.path.dirname(__file__)))
import std_specs as S

PROPERTIES = ["C14"]
MIN_VERIFIED = 3
VERUS_ARGS = ['--rlimit', '60']
F = 'src/operator/window/descr/processing_time.rs'
FW = 'src/operator/window/mod.rs'
FO = 'src/operator/mod.rs'
ASSUMPTIONS = [
    "R-CLOCK: std::time::Instant / Duration are modelled as u64 nanosecond counts (type aliases); Instant::now() is replaced by clock_now(), an arbitrary value not before the first open window (monotone clock) and below 2^62",
    "V-ITER: iterator chains desugared by the declared templates (predicates and bodies verbatim)",
    "user accumulator contract (model trait WindowAccumulator); Clone yields an equal value; std spec assumed: VecDeque::back",
]
PRELUDE = r'''
use std::collections::VecDeque;
type Instant = u64;   // R-CLOCK: integer model of std::time::Instant (ns)
type Duration = u64;  // R-CLOCK: integer model of std::time::Duration (ns)
type Timestamp = i64;
trait Data: Clone {}
impl<T: Clone> Data for T {}
trait WindowAccumulator: Clone + Sized {
    type In;
    type Out;
    spec fn contents(&self) -> Seq<Self::In>;
    spec fn result(s: Seq<Self::In>) -> Self::Out;
    fn process(&mut self, el: Self::In)
        ensures final(self).contents() == old(self).contents().push(el);
    fn output(self) -> (r: Self::Out)
        ensures r == Self::result(self.contents());
}
broadcast use trusted_axioms::axiom_data_clone;
spec const LIM: int = 0x4000_0000_0000_0000;
// the wall clock: any value below LIM; monotonicity w.r.t. the open windows is a precondition of process (clock_floor)
uninterp spec fn clock_floor() -> u64;
#[verifier::external_body]
fn clock_now() -> (r: u64) ensures r >= clock_floor(), r < LIM { unimplemented!() }
spec fn se_val<T>(e: StreamElement<T>) -> Option<T> {
    match e { StreamElement::Item(x) => Some(x), StreamElement::Timestamped(x, _) => Some(x), _ => None }
}
'''
SPEC_IMPL = r'''
impl<A: WindowAccumulator> ProcessingTimeWindowManager<A> {
    spec fn wf(&self) -> bool {
        &&& 1 <= self.slide <= self.size <= 0x100_0000_0000
        &&& self.init.contents() =~= Seq::empty()
    }
    spec fn slot_ok(&self, i: int) -> bool {
        let s = self.ws@[i];
        &&& s.end == s.start + self.size && s.start <= LIM + 0x200_0000_0000
        &&& s.active == (s.acc.contents().len() > 0)
        &&& (i > 0 ==> s.start == self.ws@[i - 1].start + self.slide)      // windows are allocated contiguously
    }
    spec fn inv(&self) -> bool {
        &&& self.wf()
        &&& forall|i: int| 0 <= i < self.ws@.len() ==> #[trigger] self.slot_ok(i)
    }
    spec fn covers(&self, i: int, t: u64) -> bool { self.ws@[i].start <= t < self.ws@[i].end }
    spec fn same_params(&self, o: &Self) -> bool { self.size == o.size && self.slide == o.slide && self.init == o.init }
    proof fn lemma_ordered(&self, i: int, j: int)
        requires self.inv(), 0 <= i <= j < self.ws@.len(),
        ensures self.ws@[i].start + (j - i) * self.slide == self.ws@[j].start,
        decreases j - i
    {
        if i < j {
            self.lemma_ordered(i, j - 1);
            assert(self.slot_ok(j));
            assert((j - i) * self.slide == (j - 1 - i) * self.slide + self.slide) by (nonlinear_arith);
        } else {
            assert(0 * self.slide == 0) by (nonlinear_arith);
        }
    }
    proof fn lemma_all_mono(&self)
        requires self.inv(),
        ensures forall|i: int, j: int| 0 <= i < j < self.ws@.len() ==> (#[trigger] self.ws@[i]).end < (#[trigger] self.ws@[j]).end,
    {
        assert forall|i: int, j: int| 0 <= i < j < self.ws@.len() implies (#[trigger] self.ws@[i]).end < (#[trigger] self.ws@[j]).end by { self.lemma_mono(i, j); }
    }
    proof fn lemma_mono(&self, i: int, j: int)
        requires self.inv(), 0 <= i < j < self.ws@.len(),
        ensures self.ws@[i].start < self.ws@[j].start, self.ws@[i].end < self.ws@[j].end,
    {
        self.lemma_ordered(i, j);
        assert((j - i) * self.slide >= 1) by (nonlinear_arith) requires j - i >= 1, self.slide >= 1;
        assert(self.slot_ok(i)); assert(self.slot_ok(j));
    }
    // contiguous windows: every instant between the first start and the last start lies in some window
    proof fn lemma_covered(&self, t: u64, k: int)
        requires self.inv(), 0 <= k < self.ws@.len(), self.ws@[k].start <= t <= self.ws@.last().start,
        ensures exists|j: int| k <= j < self.ws@.len() && #[trigger] self.covers(j, t),
        decreases self.ws@.len() - k
    {
        assert(self.slot_ok(k));
        if k == self.ws@.len() - 1 { assert(self.covers(k, t)); }
        else {
            assert(self.slot_ok(k + 1));
            if self.ws@[k + 1].start <= t { self.lemma_covered(t, k + 1); } else { assert(self.covers(k, t)); }
        }
    }
}
// results of the active windows among the first k, oldest first
spec fn fired<A: WindowAccumulator>(ws: Seq<Slot<A>>, k: int) -> Seq<WindowResult<A::Out>>
    decreases k
{
    if k <= 0 { Seq::empty() } else {
        let p = fired(ws, k - 1);
        if ws[k - 1].active { p.push(WindowResult::Item(A::result(ws[k - 1].acc.contents()))) } else { p }
    }
}
'''
SPEC = r'''
        requires old(self).inv(),
            old(self).ws@.len() > 0 ==> clock_floor() >= old(self).ws@[0].start,        // monotone clock: now is not before the first open window
        ensures
            final(self).inv(), final(self).same_params(old(self)),                       // #obl:processing_time.inv_preserved
            // end of iteration: every pending window is flushed, nothing is carried over
            (el is FlushAndRestart || el is Terminate) ==> final(self).ws@.len() == 0 && r@ == fired(old(self).ws@, old(self).ws@.len() as int),   // #obl:processing_time.end_flushes_all_and_carries_nothing_over
            // otherwise: exists now >= clock floor such that ...
            !(el is FlushAndRestart || el is Terminate) ==> exists|now: u64, mid: Seq<Slot<A>>| #[trigger] Self::step(old(self), final(self), el, r@, now, mid),   // #obl:processing_time.step_contract
'''
STEP = r'''
impl<A: WindowAccumulator> ProcessingTimeWindowManager<A> {
    // mid = the windows after allocation and assignment, before closed windows are drained
    spec fn step(o: &Self, n: &Self, el: StreamElement<A::In>, r: Seq<WindowResult<A::Out>>, now: u64, mid: Seq<Slot<A>>) -> bool {
        &&& now >= clock_floor()
        &&& mid.len() >= o.ws@.len()
        &&& (forall|i: int| 0 <= i < o.ws@.len() ==> (#[trigger] mid[i]).start == o.ws@[i].start && mid[i].end == o.ws@[i].end)
        // closed windows (end < now) are emitted exactly once, oldest first; the others stay
        &&& exists|split: int| 0 <= split <= mid.len()
                && (forall|k: int| 0 <= k < split ==> (#[trigger] mid[k]).end < now)
                && (split < mid.len() ==> mid[split].end >= now)
                && n.ws@ =~= mid.skip(split) && #[trigger] fired(mid, split) == r
        &&& match se_val(el) {
            Some(x) => {
                // the item is added to every window covering `now` and to no other; at least one, at most ceil(size/slide)
                &&& (forall|i: int| 0 <= i < mid.len() ==> (#[trigger] mid[i]).acc.contents() == {
                        let base = if i < o.ws@.len() { o.ws@[i].acc.contents() } else { Seq::empty() };
                        if mid[i].start <= now < mid[i].end { base.push(x) } else { base } })
                &&& (exists|j: int| 0 <= j < mid.len() && #[trigger] mid[j].start <= now && now < mid[j].end)
                &&& (forall|i: int, j: int| 0 <= i < j < mid.len() && (#[trigger] mid[i]).start <= now < mid[i].end && (#[trigger] mid[j]).start <= now < mid[j].end
                        ==> (j - i) * o.slide < o.size)
            },
            None => mid =~= o.ws@,
        }
    }
}
'''
HINT_ASSIGN = r'''proof {
                    let e = __i as int;
                    assert forall|k: int| 0 <= k < self.ws@.len() implies #[trigger] self.slot_ok(k) by {
                        assert(mid0.slot_ok(k));
                        if k > 0 { assert(mid0.slot_ok(k - 1)); }
                    }
                    assert forall|k: int| 0 <= k < self.ws@.len() implies   // #obl:processing_time.element_added_to_exactly_the_covering_windows
                        (#[trigger] self.ws@[k]).acc.contents() == (if self.covers(k, now) { mid0.ws@[k].acc.contents().push(item) } else { mid0.ws@[k].acc.contents() }) by {
                        if k < i0 { }
                        else if k < e { if k > i0 { mid0.lemma_mono(i0 as int, k); } }
                        else { if e < k { mid0.lemma_mono(e, k); } }
                    }
                    mid0.lemma_covered(now, 0);
                    let j = choose|j: int| 0 <= j < mid0.ws@.len() && #[trigger] mid0.covers(j, now);
                    assert(self.covers(j, now));
                    assert forall|a: int, b: int| 0 <= a < b < self.ws@.len() && self.covers(a, now) && self.covers(b, now)
                        implies (b - a) * self.slide < self.size by {
                        mid0.lemma_ordered(a, b);
                        assert(mid0.slot_ok(a));
                    }
                    mid1 = self.ws@;
                }'''
HINT_END = r'''proof {
                assert forall|k: int| 0 <= k < self.ws@.len() implies #[trigger] self.slot_ok(k) by {
                    assert(m1.slot_ok(k + §partition_point_var§ as int));
                    if k > 0 { assert(m1.slot_ok(k - 1 + §partition_point_var§ as int)); }
                }
                if (§partition_point_var§ as int) < m1.ws@.len() { assert(m1.ws@[§partition_point_var§ as int].end >= now); }
                assert(Self::step(old(self), self, el, __out@, now, m1.ws@));
            }'''

def build(x):
    pieces = [S.VECDEQUE_BACK, S.CLONE_IS_EQ, PRELUDE, x.enum(FO, 'StreamElement'), x.enum(FW, 'WindowResult'),
              x.struct(F, 'ProcessingTimeWindowManager'), x.struct(F, 'Slot')]
    sn = x.method(F, 'Slot', 'new'); sn.name_result('r')
    sn.add_spec("        ensures r.acc == acc, r.start == start, r.end == end, !r.active, // #obl:slot.new")
    pieces += ["impl<A> Slot<A> {", sn, "}", SPEC_IMPL, STEP]
    pr = x.method(F, 'ProcessingTimeWindowManager', 'process', trait='WindowManager')
    pr.replace_exact('V-TRAIT', 'Self::Output', 'Vec<WindowResult<A::Out>>', detail='associated type Output substituted')
    pr.replace_exact('V-SUBST', 'Instant::now()', 'clock_now()', detail='R-CLOCK: the clock is any value >= clock_floor()')
    pr.annotate_closure(re.compile(r'while self\.ws\.back\(\)\.map\('), 'b: &Slot<A>', 'more: bool', 'more == (b.start < now)', obl='processing_time.allocates_until_slot_start_reaches_now')
    pr.annotate_closure(re.compile(r'let (?:mut )?\w+ = self\.ws\.back\(\)\.map\('), 'b: &Slot<A>', 'ns: u64', 'ns == b.start + self.slide', requires='b.start + self.slide <= u64::MAX', obl='processing_time.next_start_is_previous_plus_slide')
    pr.iter_skip_take_foreach()
    pr.iter_drain_filter_map_collect(1)
    pr.iter_partition_point()
    pr.iter_drain_filter_map_collect(1)
    pr.name_result('r')
    pr.add_spec(SPEC)
    pr.insert_after('let now = clock_now();', '\n        let ghost mut mid1: Seq<Slot<A>> = self.ws@;')
    pr.add_loop_spec(1, r'''
                    invariant
                        self.inv(), self.same_params(old(self)), now < LIM,
                        self.ws@.len() >= old(self).ws@.len(),
                        forall|i: int| 0 <= i < old(self).ws@.len() ==> self.ws@[i] == old(self).ws@[i],
                        forall|i: int| old(self).ws@.len() <= i < self.ws@.len() ==> !(#[trigger] self.ws@[i]).active
                            && self.ws@[i].acc.contents() =~= Seq::<A::In>::empty(),
                        old(self).ws@.len() == 0 && self.ws@.len() > 0 ==> self.ws@[0].start == now,
                        self.ws@.len() > 0 ==> self.ws@[0].start <= now,
                        self.ws@.len() > old(self).ws@.len() && old(self).ws@.len() > 0 ==> self.ws@[self.ws@.len() - 2].start < now,
                    decreases (if self.ws@.len() == 0 { 2 * LIM + 2 } else if self.ws@.last().start < now { now - self.ws@.last().start } else { 0 }),
''')
    pr.insert_before('let next_start', 'proof { if self.ws@.len() > 0 { assert(self.slot_ok(self.ws@.len() - 1)); } }\n                    let ghost before = *self;\n                    ')
    pr.insert_after_stmt('self.ws.push_back(Slot::new(', '''
                    proof {
                        let n = self.ws@.len() - 1;
                        assert(self.ws@ =~= before.ws@.push(self.ws@[n]));
                        assert forall|k: int| 0 <= k < self.ws@.len() implies #[trigger] self.slot_ok(k) by {
                            if k < n { assert(before.slot_ok(k)); }
                        }
                    }''')
    pr.insert_before('let mut __i: usize = 0;', 'let ghost mid0 = *self;\n                proof { assert(mid0.ws@.len() > 0 && mid0.ws@.last().start >= now);   /* #obl:processing_time.windows_allocated_up_to_now */ }\n                ')
    pr.add_loop_spec(2, r'''
                    invariant __i <= self.ws@.len(), *self == mid0,
                        forall|k: int| 0 <= k < __i ==> (#[trigger] self.ws@[k]).end <= now,
                    decreases self.ws@.len() - __i,
''')
    pr.insert_before('while __i < self.ws.len() && (self.ws[__i].start', 'let ghost i0 = __i;\n                ')
    pr.add_loop_spec(3, r'''
                    invariant i0 <= __i <= self.ws@.len(), self.ws@.len() == mid0.ws@.len(), self.same_params(&mid0),
                        forall|k: int| 0 <= k < self.ws@.len() ==> (#[trigger] self.ws@[k]).start == mid0.ws@[k].start && self.ws@[k].end == mid0.ws@[k].end,
                        forall|k: int| i0 <= k < __i ==> (#[trigger] self.ws@[k]).start <= now && self.ws@[k].active
                            && self.ws@[k].acc.contents() == mid0.ws@[k].acc.contents().push(item),
                        forall|k: int| (0 <= k < i0 || __i <= k < self.ws@.len()) ==> (#[trigger] self.ws@[k]) == mid0.ws@[k],
                    decreases self.ws@.len() - __i,
''')
    pr.insert_after('/*@foreach_end*/', '\n                ' + HINT_ASSIGN)
    pr.add_loop_spec(4, r'''
                invariant self.ws@.len() <= old(self).ws@.len(), self.ws@ =~= old(self).ws@.skip(old(self).ws@.len() - self.ws@.len()),
                    __out@ == fired(old(self).ws@, old(self).ws@.len() - self.ws@.len()), self.same_params(old(self)),
                decreases self.ws@.len(),
''')
    pr.insert_before('let mut §partition_point_var§: usize = 0;', 'let ghost m1 = *self;\n        proof { m1.lemma_all_mono(); }\n        ')
    pr.add_loop_spec(5, r'''
            invariant §partition_point_var§ <= self.ws@.len(), *self == m1,
                forall|k: int| 0 <= k < §partition_point_var§ ==> (#[trigger] self.ws@[k]).end < now,
            decreases self.ws@.len() - §partition_point_var§,
''')
    pr.add_loop_spec(6, r'''
                invariant __j <= §partition_point_var§ <= m1.ws@.len(), self.ws@ =~= m1.ws@.skip(__j as int), __out@ == fired(m1.ws@, __j as int), self.same_params(&m1),
                decreases §partition_point_var§ - __j,
''')
    pr.insert_after('/*@drain_end*/', '\n            ' + HINT_END, nth=2)
    pieces += ["impl<A: WindowAccumulator> ProcessingTimeWindowManager<A>\nwhere\n    A::In: Data,\n    A::Out: Data,\n{", pr, "}"]
    return pieces
