"""C10 (leader logic) — IterationLeader::{process_updates, final_result, next} (src/operator/iteration/leader.rs):
a round folds exactly one delta per end replica into the state, the loop stops exactly when the condition is false or the
bound is reached, the feedback (Continue|Finished, state) goes to every feedback sender once per round, the final state is
output once, followed by FlushAndRestart, and the leader's state and round counter restart."""
import os, re, sys
sys.path.insert(0, os.path.dirname(os.path.dirname(__file__)))
import std_specs as S

PROPERTIES = ["C10"]
MIN_VERIFIED = 4
F = 'src/operator/iteration/leader.rs'
FI = 'src/operator/iteration/mod.rs'
FO = 'src/operator/mod.rs'
FN = 'src/network/mod.rs'
ASSUMPTIONS = [
    "user closures: global_fold is a total function gf(state, delta); loop_condition is a total PURE predicate lc(state) (it takes &mut State; assumed not to modify it)",
    "R-CHAN: the delta receiver (a Start operator) returns only Item / FlushBatch / FlushAndRestart / Terminate (the real code is unreachable!() otherwise); NetworkSender::send appends to the link log and succeeds; `for sender in &self.feedback_senders` is desugared to an index loop borrowing the handle mutably",
    "Clone yields an equal value; Arc<AtomicUsize> field modelled as an opaque value; profiler call dropped",
    "NOT decided here: that a body replica on another host never reads a stale or newer state (IterationStateLock / barrier protocol across threads), Replay/Iterate operators, nested-loop restart",
]
PRELUDE = r'''
type BlockId = u64; type HostId = u64; type ReplicaId = u64; type Timestamp = i64;
trait ExchangeData: Clone + Send + 'static {}
#[verifier::external_body]
struct FeedbackId {}
#[derive(Debug)]
#[verifier::external_body]
struct SendError {}
#[verifier::external_body]
#[verifier::reject_recursive_types(T)]
struct NetworkSender<T> { _p: std::marker::PhantomData<T> }
impl<T> NetworkSender<T> {
    uninterp spec fn log(&self) -> Seq<NetworkMessage<T>>;
    #[verifier::external_body]
    fn send(&mut self, message: NetworkMessage<T>) -> (r: Result<(), SendError>)
        ensures r is Ok, final(self).log() == old(self).log().push(message)
    { unimplemented!() }
}
// the Start operator receiving the deltas of the IterationEnd replicas
#[verifier::external_body]
#[verifier::reject_recursive_types(T)]
struct SimpleStartOperator<T> { _p: std::marker::PhantomData<T> }
impl<T> SimpleStartOperator<T> {
    uninterp spec fn hist(&self) -> Seq<StreamElement<T>>;
    #[verifier::external_body]
    fn next(&mut self) -> (r: StreamElement<T>)
        ensures final(self).hist() == old(self).hist().push(r), r is Item || r is FlushBatch || r is FlushAndRestart || r is Terminate
    { unimplemented!() }
}
spec fn msg_data<T>(m: NetworkMessage<T>) -> Seq<StreamElement<T>> { match m.data { NetworkData::Batch(v) => v@ } }
type StateFeedback<State> = (IterationResult, State);
// Clone of the feedback tuple yields an equal value (Verus has no built-in tuple Clone instance)
#[verifier::external_body]
fn clone_feedback<S>(x: &(IterationResult, S)) -> (r: (IterationResult, S)) ensures r == *x { unimplemented!() }
broadcast use trusted_axioms::axiom_data_clone;
// the deltas (Items) among a sequence of received elements, in order
spec fn deltas<T>(s: Seq<StreamElement<T>>) -> Seq<T> decreases s.len() {
    if s.len() == 0 { Seq::empty() } else { match s.last() { StreamElement::Item(x) => deltas(s.drop_last()).push(x), _ => deltas(s.drop_last()) } }
}
proof fn lemma_deltas_push<T>(s: Seq<StreamElement<T>>, e: StreamElement<T>)
    ensures deltas(s.push(e)) == (match e { StreamElement::Item(x) => deltas(s).push(x), _ => deltas(s) })
{ assert(s.push(e).drop_last() =~= s); }
'''
SPEC_IMPL = r'''
impl<DeltaUpdate: ExchangeData, State: ExchangeData, Global, LoopCond> IterationLeader<DeltaUpdate, State, Global, LoopCond>
where
    Global: Fn(&mut State, DeltaUpdate) + Send + Clone,
    LoopCond: Fn(&mut State) -> bool + Send + Clone,
{
    uninterp spec fn gf(s: State, d: DeltaUpdate) -> State;     // the user's global fold as a function (ASSUMED)
    uninterp spec fn lc(s: State) -> bool;                       // the user's loop condition as a pure predicate (ASSUMED)
    #[verifier::prophetic]
    spec fn closures_ok(g: Global, c: LoopCond) -> bool {
        &&& forall|a: &mut State, d: DeltaUpdate| g.requires((a, d))
        &&& forall|a: &mut State, d: DeltaUpdate| #[trigger] g.ensures((a, d), ()) ==> *final(a) == Self::gf(*a, d)
        &&& forall|a: &mut State| c.requires((a,))
        &&& forall|a: &mut State, b: bool| #[trigger] c.ensures((a,), b) ==> b == Self::lc(*a) && *final(a) == *a
    }
    spec fn fold_all(s: State, ds: Seq<DeltaUpdate>) -> State decreases ds.len() {
        if ds.len() == 0 { s } else { Self::gf(Self::fold_all(s, ds.drop_last()), ds.last()) }
    }
    proof fn lemma_fold_push(s: State, ds: Seq<DeltaUpdate>, d: DeltaUpdate)
        ensures Self::fold_all(s, ds.push(d)) == Self::gf(Self::fold_all(s, ds), d)
    { assert(ds.push(d).drop_last() =~= ds); }
    #[verifier::prophetic]
    spec fn ready(&self) -> bool {
        self.state is Some && self.state_update_receiver is Some && Self::closures_ok(self.global_fold, self.loop_condition)
    }
    // one call ran k >= 1 rounds: one feedback per sender and round, never more rounds than remain before the bound
    spec fn ran(o: &Self, n: &Self, k: nat) -> bool {
        &&& k >= 1
        &&& o.iteration_index + k <= (if o.iteration_index < o.max_iterations { o.max_iterations as int } else { o.iteration_index + 1 })
        &&& n.feedback_senders@.len() == o.feedback_senders@.len()
        &&& forall|j: int| 0 <= j < n.feedback_senders@.len() ==> #[trigger] n.feedback_senders@[j].log().len() == o.feedback_senders@[j].log().len() + k
    }
    spec fn same_setup(&self, o: &Self) -> bool {
        self.num_receivers == o.num_receivers && self.max_iterations == o.max_iterations && self.initial_state == o.initial_state
        && self.coord == o.coord && self.global_fold == o.global_fold && self.loop_condition == o.loop_condition
    }
    spec fn rx_pulled(o: &Self, n: &Self) -> Seq<StreamElement<DeltaUpdate>> {
        n.state_update_receiver->0.hist().skip(o.state_update_receiver->0.hist().len() as int)
    }
}
'''
PU_SPEC = r'''
        requires old(self).ready(),
        ensures
            final(self).same_setup(old(self)), final(self).state is Some, final(self).state_update_receiver is Some,
            final(self).iteration_index == old(self).iteration_index, final(self).flush_and_restart == old(self).flush_and_restart,
            final(self).feedback_senders == old(self).feedback_senders,
            final(self).state_update_receiver->0.hist().len() >= old(self).state_update_receiver->0.hist().len(),
            // a round consumes exactly one delta per end replica and folds each of them once, in arrival order
            r is None ==> deltas(Self::rx_pulled(old(self), final(self))).len() == old(self).num_receivers
                && final(self).state->0 == Self::fold_all(old(self).state->0, deltas(Self::rx_pulled(old(self), final(self)))),     // #obl:leader.round_folds_one_delta_per_replica
            r is Some ==> r == Some(StreamElement::<State>::Terminate) && Self::rx_pulled(old(self), final(self)).len() > 0
                && Self::rx_pulled(old(self), final(self)).last() is Terminate,                                                        // #obl:leader.terminate_only_when_received
'''
FR_SPEC = r'''
        requires old(self).ready(),
        ensures
            final(self).same_setup(old(self)), final(self).state is Some, final(self).state_update_receiver == old(self).state_update_receiver,
            final(self).iteration_index == old(self).iteration_index, final(self).flush_and_restart == old(self).flush_and_restart,
            final(self).feedback_senders == old(self).feedback_senders,
            // the loop goes on iff the condition holds AND the bound is not reached
            (Self::lc(old(self).state->0) && old(self).iteration_index < old(self).max_iterations)
                ==> r is None && final(self).state == old(self).state,                                                                  // #obl:leader.continues_iff_condition_and_bound
            !(Self::lc(old(self).state->0) && old(self).iteration_index < old(self).max_iterations)
                ==> r == old(self).state && final(self).state == Some(old(self).initial_state),                                         // #obl:leader.finish_outputs_state_and_resets
'''
NEXT_SPEC = r'''
        requires old(self).ready(), old(self).iteration_index <= old(self).max_iterations, old(self).max_iterations < usize::MAX,
        ensures
            final(self).same_setup(old(self)),
            old(self).flush_and_restart ==> r is FlushAndRestart && !final(self).flush_and_restart
                && final(self).state == old(self).state && final(self).iteration_index == old(self).iteration_index,                   // #obl:leader.flush_and_restart_follows_the_final_state
            !old(self).flush_and_restart ==> (r is Item || r is Terminate),
            // the final state is output once; the round counter and the state restart for the next (outer) iteration
            (!old(self).flush_and_restart && r is Item) ==> final(self).flush_and_restart && final(self).iteration_index == 0
                && final(self).state == Some(final(self).initial_state),                                                                // #obl:leader.restart_after_final_state
            // the round counter really counts: one call runs k >= 1 rounds (one feedback per sender and round) and never more
            // than the rounds that remain before the bound
            (!old(self).flush_and_restart && r is Item) ==> exists|k: nat| #[trigger] Self::ran(old(self), final(self), k),   // #obl:leader.runs_at_most_the_remaining_rounds
'''
def build(x):
    pieces = [S.CLONE_IS_EQ, S.RUST_PANIC, PRELUDE, x.enum(FO, 'StreamElement')]
    c = x.struct(FN, 'Coord'); c.text = '#[derive(Clone, Copy)]\n' + c.text
    ir = x.enum(FI, 'IterationResult'); ir.text = '#[derive(Clone)]\n' + ir.text
    fc = x.method(FI, 'IterationResult', 'from_condition'); fc.name_result('r')
    fc.add_spec("        ensures should_continue ==> r is Continue, !should_continue ==> r is Finished, // #obl:iteration_result.from_condition")
    pieces += [c, x.enum(FN, 'NetworkData'), x.struct(FN, 'NetworkMessage')]
    ns = x.method(FN, 'NetworkMessage', 'new_single'); ns.name_result('r')
    ns.add_spec("        ensures r.sender == sender, msg_data(r) == seq![data], // #obl:message.new_single")
    pieces += ["impl<T> NetworkMessage<T> {", ns, "}", ir, "impl IterationResult {", fc, "}"]
    st = x.struct(F, 'IterationLeader')
    st.text = '#[verifier::reject_recursive_types(StateUpdate)]\n#[verifier::reject_recursive_types(State)]\n#[verifier::reject_recursive_types(Global)]\n#[verifier::reject_recursive_types(LoopCond)]\n' + st.text
    st.sub('V-SUBST', r'Arc<AtomicUsize>', 'FeedbackId', detail='Arc<AtomicUsize> -> opaque value', must=True)
    st.sub('V-ATTR', r'^\s*#\[derivative\([^\n]*\)\]\s*\n', '', detail='field-level derivative attributes dropped')
    pieces += [st, SPEC_IMPL]
    pu = x.method(F, 'IterationLeader', 'process_updates'); pu.name_result('r')
    pu.sub('V-ASSERT', r'update => unreachable!\((?:[^()]|\((?:[^()]|\([^()]*\))*\))*\),', 'update => { rust_panic(); }', detail='unreachable!() arm -> rust_panic() (requires false)', flags=re.S, must=True)
    pu.bind('rx', r'let (\w+) = self\.state_update_receiver\.as_mut\(\)\.unwrap\(\);')
    pu.sub('V-SUBST', r'let \w+ = self\.state_update_receiver\.as_mut\(\)\.unwrap\(\);\s*\n', '', detail='alias `rx` inlined (a &mut alias held across the loop hides the receiver from loop invariants)', must=True)
    pu.sub('V-SUBST', r'\b%s\.next\(\)' % re.escape(pu.names['rx']), 'self.state_update_receiver.as_mut().unwrap().next()', detail='alias `rx` inlined', must=True)
    pu.add_spec(PU_SPEC)
    pu.text = '#[verifier::exec_allows_no_decreases_clause]\n' + pu.text
    pu.insert_before(re.compile(r'while missing_state_updates > 0'), 'let ghost h00 = self.state_update_receiver->0.hist();\n        let ghost s00 = self.state->0;\n        proof { assert(h00.skip(h00.len() as int) =~= Seq::<StreamElement<DeltaUpdate>>::empty()); }\n        ')
    pu.add_loop_spec(1, r'''
            invariant
                self.ready(), self.same_setup(old(self)), missing_state_updates <= self.num_receivers,
                self.iteration_index == old(self).iteration_index, self.flush_and_restart == old(self).flush_and_restart, self.feedback_senders == old(self).feedback_senders,
                self.state_update_receiver->0.hist().len() >= h00.len(), h00 == old(self).state_update_receiver->0.hist(),
                deltas(self.state_update_receiver->0.hist().skip(h00.len() as int)).len() + missing_state_updates == self.num_receivers,
                self.state->0 == Self::fold_all(s00, deltas(self.state_update_receiver->0.hist().skip(h00.len() as int))), s00 == old(self).state->0,
''')
    pu.insert_before(re.compile(r'match self\.state_update_receiver\.as_mut\(\)\.unwrap\(\)\.next\(\) \{'), 'let ghost h0 = self.state_update_receiver->0.hist();\n            ')
    pu.sub('V-SPEC', r'match self\.state_update_receiver\.as_mut\(\)\.unwrap\(\)\.next\(\) \{', 'let __e = self.state_update_receiver.as_mut().unwrap().next();\n            proof { let k = h00.len() as int; assert(self.state_update_receiver->0.hist().skip(k) =~= h0.skip(k).push(__e)); lemma_deltas_push(h0.skip(k), __e); if __e is Item { Self::lemma_fold_push(s00, deltas(h0.skip(k)), __e->Item_0); } }\n            match __e {', detail='scrutinee bound to a ghost-visible name `__e`', must=True)
    fr = x.method(F, 'IterationLeader', 'final_result'); fr.name_result('r')
    fr.add_spec(FR_SPEC)
    nx = x.method(F, 'IterationLeader', 'next', trait='Operator'); nx.name_result('r')
    nx.sub('V-LOG', r'get_profiler\(\)\.iteration_boundary\([^;]*\);', '', detail='profiler call dropped')
    nx.sub('V-ITER', r'for sender in &self\.feedback_senders \{', 'let mut __i: usize = 0; while __i < self.feedback_senders.len() { let sender = &mut self.feedback_senders[__i]; __i += 1;', detail='`for s in &v {` -> index loop borrowing the handle mutably (R-CHAN)', must=True)
    nx.sub('V-SUBST', r'state_feedback\.clone\(\)', 'clone_feedback(&state_feedback)', detail='tuple .clone() -> contracted stub (equal value)', must=True)
    nx.add_spec(NEXT_SPEC)
    nx.text = '#[verifier::exec_allows_no_decreases_clause]\n' + nx.text
    nx.insert_at_body_start('\n        let ghost mut rounds: nat = 0;')
    nx.insert_before(re.compile(r'let result(?:\s*:\s*[^=;]+)? = self\.final_result\(\);'), 'proof { rounds = rounds + 1; }\n            ')
    nx.insert_before(re.compile(r'return StreamElement::Item\(state\);'), 'proof { assert(Self::ran(old(self), self, rounds)); }   // #obl:leader.runs_at_most_the_remaining_rounds.at_return\n                ')
    nx.insert_after_stmt('let state_feedback = (', '''
            // the verdict broadcast to the body replicas is Continue iff the loop goes on, with the state they must use in the next round
            assert((state_feedback.0 is Continue) == (result is None) && state_feedback.1 == self.state->0);   // #obl:leader.feedback_is_verdict_and_current_state''')
    nx.add_loop_spec(1, r'''
            invariant self.ready(), self.same_setup(old(self)), !self.flush_and_restart, !old(self).flush_and_restart,
                self.iteration_index <= self.max_iterations, self.max_iterations < usize::MAX,
                self.iteration_index == old(self).iteration_index + rounds,                                                   // #obl:leader.round_counter_counts_rounds
                rounds == 0 || old(self).iteration_index + rounds < old(self).max_iterations,
                self.feedback_senders@.len() == old(self).feedback_senders@.len(),
                forall|j: int| 0 <= j < self.feedback_senders@.len() ==> #[trigger] self.feedback_senders@[j].log().len() == old(self).feedback_senders@[j].log().len() + rounds,
''')
    nx.insert_before(re.compile(r'let mut __i: usize = 0; while __i < self\.feedback_senders\.len\(\)'), 'let ghost logs0 = Seq::new(self.feedback_senders@.len(), |j: int| self.feedback_senders@[j].log());\n            let ghost me = *self;\n            ')
    nx.add_loop_spec(2, r'''
                invariant __i <= self.feedback_senders@.len(), self.feedback_senders@.len() == logs0.len(),
                    self.state == me.state, self.same_setup(&me), self.iteration_index == me.iteration_index, self.flush_and_restart == me.flush_and_restart,
                    self.state_update_receiver == me.state_update_receiver, self.state is Some,
                    // every feedback sender gets the round's verdict and state exactly once
                    forall|j: int| 0 <= j < __i ==> (#[trigger] self.feedback_senders@[j]).log().len() == logs0[j].len() + 1
                        && self.feedback_senders@[j].log().drop_last() == logs0[j]
                        && msg_data(self.feedback_senders@[j].log().last()) == seq![StreamElement::Item(state_feedback)]
                        && self.feedback_senders@[j].log().last().sender == self.coord,                                    // #obl:leader.feedback_to_every_sender_once_per_round
                    forall|j: int| __i <= j < logs0.len() ==> (#[trigger] self.feedback_senders@[j]).log() == logs0[j],
                decreases self.feedback_senders@.len() - __i,
''')
    hdr = "impl<DeltaUpdate: ExchangeData, State: ExchangeData, Global, LoopCond> IterationLeader<DeltaUpdate, State, Global, LoopCond>\nwhere\n    Global: Fn(&mut State, DeltaUpdate) + Send + Clone,\n    LoopCond: Fn(&mut State) -> bool + Send + Clone,\n{"
    pieces += [hdr, pu, fr, nx, "}"]
    return pieces
