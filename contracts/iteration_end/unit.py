"""C10 (per-replica delta) — IterationEnd::next (src/operator/iteration/iteration_end.rs): per iteration every body replica sends
exactly the deltas it produced to the leader, or ONE default delta if it saw no element, then forwards the end marker."""
import os, re, sys
sys.path.insert(0, os.path.dirname(os.path.dirname(__file__)))
import std_specs as S

PROPERTIES = ["C10"]
MIN_VERIFIED = 2
F = 'src/operator/iteration/iteration_end.rs'
FO = 'src/operator/mod.rs'
FN = 'src/network/mod.rs'
ASSUMPTIONS = [
    "R-CHAN: NetworkSender::send appends to the link's FIFO log and succeeds; `.as_ref()` on the sender handle is replaced by `.as_mut()` (interior mutability of the channel modelled as &mut)",
    "prev (the local reduction at the tail of the loop body) returns only Item / FlushBatch / FlushAndRestart / Terminate: the real code is `unreachable!()` for Timestamped and Watermark (a timestamped delta panics - fail-stop, not decided here)",
    "Default::default() of the delta type is the uninterpreted constant delta_default()",
]
PRELUDE = r'''
type BlockId = u64; type HostId = u64; type ReplicaId = u64; type Timestamp = i64;
trait ExchangeData: Clone + Send + 'static {}
trait Operator: Sized {
    type Out: Send;
    spec fn hist(&self) -> Seq<StreamElement<Self::Out>>;
    fn next(&mut self) -> (r: StreamElement<Self::Out>)
        ensures final(self).hist() == old(self).hist().push(r),
                r is Item || r is FlushBatch || r is FlushAndRestart || r is Terminate;     // ASSUMED of the loop body's tail
}
#[derive(Debug)]
#[verifier::external_body]
struct SendError {}
#[verifier::external_body]
#[verifier::reject_recursive_types(T)]
struct NetworkSender<T> { _p: std::marker::PhantomData<T> }
impl<T> NetworkSender<T> {
    uninterp spec fn log(&self) -> Seq<NetworkMessage<T>>;
    #[verifier::external_body]
    fn send(&mut self, message: NetworkMessage<T>) -> (r: Result<(), SendError>)
        ensures r is Ok, final(self).log() == old(self).log().push(message)
    { unimplemented!() }
}
spec fn msg_data<T>(m: NetworkMessage<T>) -> Seq<StreamElement<T>> { match m.data { NetworkData::Batch(v) => v@ } }
uninterp spec fn delta_default<T>() -> T;
#[verifier::external_body]
fn default_delta<T>() -> (r: T) ensures r == delta_default::<T>() { unimplemented!() }
#[verifier::external_body]
fn retype_flush_batch<T>(e: StreamElement<T>) -> (r: StreamElement<()>) requires e is FlushBatch ensures r is FlushBatch { unimplemented!() }
'''
SPEC = r'''
        requires old(self).leader_sender is Some,
        ensures
            final(self).leader_sender is Some, final(self).coord == old(self).coord,
            final(self).prev.hist().len() == old(self).prev.hist().len() + 1,
            ({
                let e = final(self).prev.hist().last(); let l0 = old(self).leader_sender->0.log(); let l1 = final(self).leader_sender->0.log();
                match e {
                    // a delta produced by the local reduction is forwarded to the leader, stamped with this replica's coordinate
                    StreamElement::Item(x) => l1.len() == l0.len() + 1 && l1.drop_last() == l0 && msg_data(l1.last()) == seq![StreamElement::Item(x)]
                        && l1.last().sender == old(self).coord && final(self).has_received_item && r == StreamElement::Item(()),       // #obl:iteration_end.delta_forwarded_to_leader
                    // end of the iteration: a replica that produced no delta sends exactly one default delta
                    StreamElement::FlushAndRestart => !final(self).has_received_item && r is FlushAndRestart
                        && (if old(self).has_received_item { l1 == l0 }
                            else { l1.len() == l0.len() + 1 && l1.drop_last() == l0 && msg_data(l1.last()) == seq![StreamElement::Item(delta_default::<DeltaUpdate>())] }),   // #obl:iteration_end.one_default_delta_when_no_element_was_seen
                    StreamElement::Terminate => r is Terminate && l1.len() == l0.len() + 1 && l1.drop_last() == l0
                        && msg_data(l1.last()) == seq![StreamElement::<DeltaUpdate>::Terminate],                                         // #obl:iteration_end.terminate_forwarded_to_leader
                    _ => r is FlushBatch && l1 == l0 && final(self).has_received_item == old(self).has_received_item,                   // #obl:iteration_end.flush_batch_passes
                }
            }),
'''
def build(x):
    pieces = [S.RUST_PANIC, PRELUDE, x.enum(FO, 'StreamElement')]
    c = x.struct(FN, 'Coord'); c.text = '#[derive(Clone, Copy)]\n' + c.text
    pieces += [c, x.enum(FN, 'NetworkData'), x.struct(FN, 'NetworkMessage')]
    ns = x.method(FN, 'NetworkMessage', 'new_single'); ns.name_result('r')
    ns.add_spec("        ensures r.sender == sender, msg_data(r) == seq![data], // #obl:message.new_single")
    pieces += ["impl<T> NetworkMessage<T> {", ns, "}"]
    st = x.struct(F, 'IterationEnd')
    st.text = '#[verifier::reject_recursive_types(DeltaUpdate)]\n#[verifier::reject_recursive_types(OperatorChain)]\n' + st.text
    pieces.append(st)
    nx = x.method(F, 'IterationEnd', 'next', trait='Operator')
    nx.sub('V-SUBST', r'self\.leader_sender\s*\.as_ref\(\)', 'self.leader_sender.as_mut()', detail='R-CHAN: sender handle borrowed mutably (model of send takes &mut self)', must=True)
    nx.sub('V-SUBST', r'let update = Default::default\(\);', 'let update = default_delta();', detail='Default::default() -> contracted stub returning delta_default()', must=True)
    nx.sub('V-SUBST', r'elem\.map\(\|_\| unreachable!\(\)\)', 'retype_flush_batch(elem)', detail='StreamElement::map with a never-called closure on FlushBatch -> contracted stub', must=True)
    nx.sub('V-ASSERT', r'_ => unreachable!\(\),', '_ => { rust_panic(); StreamElement::Terminate }', detail='unreachable!() arm -> rust_panic() (requires false)', must=True)
    nx.name_result('r')
    nx.add_spec(SPEC)
    pieces += ["impl<DeltaUpdate: ExchangeData, OperatorChain> IterationEnd<DeltaUpdate, OperatorChain>\nwhere\n    DeltaUpdate: Default,\n    OperatorChain: Operator<Out = DeltaUpdate>,\n{", nx, "}"]
    return pieces
