"""C09 / C03 — RoutingEnd::next (src/operator/route.rs): first matching route wins, no other route gets the element,
unmatched elements are dropped, control elements reach every sender."""
import os, re, sys
sys.path.insert(0, os.path.dirname(os.path.dirname(__file__)))
import std_specs as S
import shared as SH

PROPERTIES = ["C09", "C03", "C18"]
MIN_VERIFIED = 4
FR = 'src/operator/route.rs'
FE = 'src/operator/end.rs'
FO = 'src/operator/mod.rs'
FN = 'src/network/mod.rs'
ASSUMPTIONS = [
    "callee contracts used, not bodies: Batcher::enqueue/flush/end (unit batcher), NextStrategy::index (unit next_strategy), prev.next() returns any element; the route predicates (FilterFn) are opaque pure functions",
    "RoutingEnd.inv (every endpoint's sender indexes non-empty, in range, pairwise distinct, covering all senders) is the postcondition of RoutingEnd::setup_endpoints, discharged on its real body by unit setup_endpoints (the structural clauses); the strategy is OnlyOne (index 0) as built by RouterBuilder (assumed)",
    "V-ITER: loop headers desugared to index/while loops (listed under coverage.rewrites), bodies verbatim",
]
PRELUDE = r'''
type BlockId = u64; type HostId = u64; type ReplicaId = u64; type Timestamp = i64;
trait Operator: Sized {
    type Out: Send;
    spec fn hist(&self) -> Seq<StreamElement<Self::Out>>;
    fn next(&mut self) -> (r: StreamElement<Self::Out>)
        ensures final(self).hist() == old(self).hist().push(r);
}
trait KeyerFn<K, In> {}
trait ExchangeData: Clone + Send + 'static {}
#[derive(Clone, Copy)]
enum BatchMode { Single }
broadcast use trusted_axioms::axiom_data_clone;
// an opaque user predicate
#[verifier::external_body]
#[verifier::reject_recursive_types(Out)]
struct FilterFn<Out> { _p: std::marker::PhantomData<Out> }
impl<Out> FilterFn<Out> {
    uninterp spec fn matches(&self, item: Out) -> bool;
    #[verifier::external_body]
    fn is_match(&self, item: &Out) -> (r: bool) ensures r == self.matches(*item) { unimplemented!() }
}
spec fn se_take<T>(e: StreamElement<T>) -> StreamElement<()> {
    match e {
        StreamElement::Item(_) => StreamElement::Item(()),
        StreamElement::Timestamped(_, _) => StreamElement::Item(()),
        StreamElement::Watermark(w) => StreamElement::Watermark(w),
        StreamElement::Terminate => StreamElement::Terminate,
        StreamElement::FlushAndRestart => StreamElement::FlushAndRestart,
        StreamElement::FlushBatch => StreamElement::FlushBatch,
    }
}
spec fn se_data<T>(e: StreamElement<T>) -> Option<T> {
    match e { StreamElement::Item(x) => Some(x), StreamElement::Timestamped(x, _) => Some(x), _ => None }
}
'''
SPEC_IMPL = r'''
impl<Out: ExchangeData, OperatorChain, IndexFn> RoutingEnd<Out, OperatorChain, IndexFn>
where
    IndexFn: KeyerFn<u64, Out>,
    OperatorChain: Operator<Out = Out>,
{
    spec fn n_eps(&self) -> int { self.endpoints@.len() as int }
    spec fn group(&self, g: int) -> Seq<usize> { self.endpoints@[g].block_senders.indexes@ }
    spec fn inv(&self) -> bool {
        &&& self.routes@.len() == 0
        &&& forall|g: int| 0 <= g < self.n_eps() ==> (#[trigger] self.group(g)).len() > 0
        &&& forall|g: int, k: int| 0 <= g < self.n_eps() && 0 <= k < self.group(g).len() ==> (#[trigger] self.group(g)[k]) < self.senders@.len()
        &&& forall|g1: int, k1: int, g2: int, k2: int|
                0 <= g1 < self.n_eps() && 0 <= k1 < self.group(g1).len() && 0 <= g2 < self.n_eps() && 0 <= k2 < self.group(g2).len()
                && #[trigger] self.group(g1)[k1] == #[trigger] self.group(g2)[k2] ==> g1 == g2 && k1 == k2
        &&& forall|i: int| 0 <= i < self.senders@.len() ==> #[trigger] self.grouped(i)
        // RouterBuilder builds a forward (OnlyOne) connection: the routing index is always 0
        &&& forall|m: Out, i: usize| #[trigger] self.next_strategy.may_index(m, i) ==> i == 0
        &&& self.next_strategy.total()
    }
    spec fn grouped(&self, i: int) -> bool {
        exists|g: int, k: int| 0 <= g < self.n_eps() && 0 <= k < self.group(g).len() && #[trigger] self.group(g)[k] == i
    }
    spec fn in_prefix(&self, i: int, g: int, k: int) -> bool {
        exists|g1: int, k1: int| 0 <= g1 < self.n_eps() && 0 <= k1 < self.group(g1).len()
            && (g1 < g || (g1 == g && k1 < k)) && #[trigger] self.group(g1)[k1] == i
    }
    // first route (in add_route order) whose predicate holds, if any
    spec fn first_match(&self, x: Out, upto: int) -> Option<int>
        decreases upto
    {
        if upto <= 0 { None } else {
            match self.first_match(x, upto - 1) { Some(j) => Some(j), None => if self.endpoints@[upto - 1].filter.matches(x) { Some(upto - 1) } else { None } }
        }
    }
    spec fn same_wiring(&self, o: &Self) -> bool {
        &&& self.endpoints == o.endpoints && self.next_strategy == o.next_strategy && self.routes == o.routes
        &&& self.senders@.len() == o.senders@.len()
        &&& forall|i: int| 0 <= i < self.senders@.len() ==> (#[trigger] self.senders@[i]).0 == o.senders@[i].0
    }
    spec fn routed(old_: &Self, i: int, m: StreamElement<Out>) -> Seq<StreamElement<Out>> {
        let a = old_.senders@[i].1.all();
        match m {
            StreamElement::Item(x) | StreamElement::Timestamped(x, _) =>
                match old_.first_match(x, old_.n_eps()) { Some(j) => if old_.group(j)[0] == i { a.push(m) } else { a }, None => a },
            StreamElement::Watermark(_) | StreamElement::FlushAndRestart | StreamElement::Terminate => a.push(m),
            StreamElement::FlushBatch => a,
        }
    }
    proof fn lemma_first_match_stable(&self, x: Out, a: int, b: int)
        requires 0 <= a <= b, self.first_match(x, a) is Some,
        ensures self.first_match(x, b) == self.first_match(x, a),
        decreases b - a
    {
        if a < b { self.lemma_first_match_stable(x, a, b - 1); }
    }
    proof fn lemma_inv_transfer(a: &Self, b: &Self)
        requires a.inv(), a.endpoints == b.endpoints, a.routes == b.routes, a.next_strategy == b.next_strategy, a.senders@.len() == b.senders@.len(),
        ensures b.inv(),
    {
        assert forall|g: int| 0 <= g < b.n_eps() implies (#[trigger] b.group(g)).len() > 0 by { assert(a.group(g).len() > 0); }
        assert forall|g: int, k: int| 0 <= g < b.n_eps() && 0 <= k < b.group(g).len() implies (#[trigger] b.group(g)[k]) < b.senders@.len() by { assert(a.group(g)[k] < a.senders@.len()); }
        assert forall|g1: int, k1: int, g2: int, k2: int|
                0 <= g1 < b.n_eps() && 0 <= k1 < b.group(g1).len() && 0 <= g2 < b.n_eps() && 0 <= k2 < b.group(g2).len()
                && #[trigger] b.group(g1)[k1] == #[trigger] b.group(g2)[k2] implies g1 == g2 && k1 == k2 by { assert(a.group(g1)[k1] == a.group(g2)[k2]); }
        assert forall|i: int| 0 <= i < b.senders@.len() implies #[trigger] b.grouped(i) by {
            assert(a.grouped(i));
            let (g, k) = choose|g: int, k: int| 0 <= g < a.n_eps() && 0 <= k < a.group(g).len() && #[trigger] a.group(g)[k] == i;
            assert(b.group(g)[k] == i);
        }
    }
}
'''
NEXT_SPEC = r'''
        requires old(self).inv(),
        ensures
            final(self).prev.hist() == old(self).prev.hist().push(final(self).prev.hist().last()), final(self).prev.hist().len() > 0,
            r == se_take(final(self).prev.hist().last()),                                                              // #obl:route.returns_take_of_input
            !(final(self).prev.hist().last() is Terminate) ==> final(self).same_wiring(old(self)) && final(self).inv(),   // #obl:route.wiring_frame
            // a data element goes to the first route whose predicate holds and to no other (dropped if none holds);
            // watermarks and end markers reach every sender
            !(final(self).prev.hist().last() is Terminate) ==> forall|i: int| 0 <= i < old(self).senders@.len() ==>
                (#[trigger] final(self).senders@[i]).1.all() == Self::routed(old(self), i, final(self).prev.hist().last()),   // #obl:route.first_matching_route_only
            (final(self).prev.hist().last() is FlushBatch || final(self).prev.hist().last() is FlushAndRestart) ==>
                forall|i: int| 0 <= i < final(self).senders@.len() ==> (#[trigger] final(self).senders@[i]).1.pending() == 0,   // #obl:route.flushes_every_batcher
            final(self).prev.hist().last() is Terminate ==> final(self).senders@.len() == 0,                            // #obl:route.terminate_closes_all
'''
def build(x):
    pieces = [S.CLONE_IS_EQ, S.RUST_PANIC, PRELUDE, SH.BATCHER_STUB, SH.NEXT_STRATEGY_STUB]
    se = x.enum(FO, 'StreamElement'); se.text = '#[derive(Clone)]\n' + se.text
    tk = x.method(FO, 'StreamElement', 'take'); tk.name_result('r'); tk.add_spec("        ensures r == se_take(*self), // #obl:se.take")
    c = x.struct(FN, 'Coord'); c.text = '#[derive(Clone, Copy)]\n' + c.text
    r_ = x.struct(FN, 'ReceiverEndpoint'); r_.text = '#[derive(Clone, Copy)]\n' + r_.text
    ep = x.struct(FR, 'Endpoint'); ep.text = '#[verifier::reject_recursive_types(Out)]\n' + ep.text
    re_ = x.struct(FR, 'RoutingEnd')
    re_.text = '#[verifier::reject_recursive_types(Out)]\n#[verifier::reject_recursive_types(IndexFn)]\n#[verifier::reject_recursive_types(OperatorChain)]\n' + re_.text
    re_.sub('V-ATTR', r'^\s*#\[derivative\([^\n]*\)\]\s*\n', '', detail='field-level derivative attributes dropped')
    pieces += [se, "impl<Out> StreamElement<Out> {", tk, "}", c, r_, x.struct(FE, 'BlockSenders'), ep, re_, SPEC_IMPL]
    nx = x.method(FR, 'RoutingEnd', 'next', trait='Operator')
    nx.desugar_assert()
    nx.sub('V-ITER', r'for e in self\.endpoints\.iter\(\) \{', 'let mut __g: usize = 0; while __g < self.endpoints.len() { let e = &self.endpoints[__g]; __g += 1;', detail='`for e in v.iter() {` -> while loop with index', must=True)
    nx.sub('V-ITER', r'for &sender_idx in e\.block_senders\.indexes\.iter\(\) \{', 'let mut __k: usize = 0; while __k < e.block_senders.indexes.len() { let sender_idx = e.block_senders.indexes[__k]; __k += 1;', detail='`for &x in v.iter() {` -> while loop with index', must=True)
    nx.sub('V-ITER', r'for e in self\.endpoints\.iter_mut\(\) \{', 'let mut __g: usize = 0; while __g < self.endpoints.len() { let e = &self.endpoints[__g]; __g += 1;', detail='`for e in v.iter_mut() {` -> while loop with index and a SHARED borrow (the body does not mutate e; if it did, the generated file would not compile -> undecided)', must=True)
    nx.sub('V-ITER', r'for \(_, batcher\) in self\.senders\.iter_mut\(\) \{', 'let mut __k: usize = 0; while __k < self.senders.len() { let batcher = &mut self.senders[__k].1; __k += 1;', detail='`for (_, b) in v.iter_mut() {` -> while loop', must=True)
    nx.sub('V-ITER', r'for \(_, batcher\) in self\.senders\.drain\(\.\.\) \{', 'while self.senders.len() > 0 { let (_, batcher) = self.senders.remove(0); let ghost __b = batcher; /*@drained_batcher*/', detail='`for (_, b) in v.drain(..) {` -> pop-front loop', must=True)
    nx.bind('sent', r'let mut (\w+)(?:\s*:\s*bool)? = false;')
    nx.bind('index', r'let (\w+)(?:\s*:\s*usize)? = self\.next_strategy\.index\(')
    nx.name_result('r')
    nx.add_spec(NEXT_SPEC)
    nx.insert_after('let message = self.prev.next();', '''
        let ghost prev1 = self.prev;
        let ghost gm = message;''')
    nx.add_loop_spec(1, r'''
                    invariant
                        __g <= self.endpoints@.len(), self.same_wiring(old(self)), self.prev == prev1, old(self).inv(),
                        gm is Watermark || gm is Terminate || gm is FlushAndRestart, message == gm,
                        forall|i: int| 0 <= i < old(self).senders@.len() ==> (#[trigger] self.senders@[i]).1.all() ==
                            (if old(self).in_prefix(i, __g as int, 0) { old(self).senders@[i].1.all().push(gm) } else { old(self).senders@[i].1.all() }),
                    decreases self.endpoints@.len() - __g,
''')
    nx.add_loop_spec(2, r'''
                        invariant
                            1 <= __g <= self.endpoints@.len(), __k <= e.block_senders.indexes@.len(), *e == old(self).endpoints@[__g - 1],
                            self.same_wiring(old(self)), self.prev == prev1, old(self).inv(),
                            gm is Watermark || gm is Terminate || gm is FlushAndRestart, message == gm,
                            forall|i: int| 0 <= i < old(self).senders@.len() ==> (#[trigger] self.senders@[i]).1.all() ==
                                (if old(self).in_prefix(i, __g - 1, __k as int) { old(self).senders@[i].1.all().push(gm) } else { old(self).senders@[i].1.all() }),
                        decreases e.block_senders.indexes@.len() - __k,
''')
    nx.insert_before(re.compile(r'let sender = &mut self\.senders\[sender_idx\];'), '''proof {
                            assert(old(self).group(__g - 1)[__k - 1] == sender_idx);
                            assert(!old(self).in_prefix(sender_idx as int, __g - 1, __k - 1));
                        }
                        ''')
    nx.add_loop_spec(3, r'''
                    invariant_except_break
                        !§sent§, message == gm, old(self).first_match(*item, __g as int) is None,
                        forall|i: int| 0 <= i < old(self).senders@.len() ==> (#[trigger] self.senders@[i]).1.all() == old(self).senders@[i].1.all(),
                    invariant
                        __g <= self.endpoints@.len(), self.same_wiring(old(self)), self.prev == prev1, old(self).inv(), §index§ == 0,
                        se_data(gm) == Some(*item),
                    ensures
                        forall|i: int| 0 <= i < old(self).senders@.len() ==> (#[trigger] self.senders@[i]).1.all() == Self::routed(old(self), i, gm),
                    decreases self.endpoints@.len() - __g,
''')
    nx.insert_before(re.compile(r'let sender_idx = e\.block_senders\.indexes\[%s\];' % re.escape(nx.names['index'])), '''proof {
                            assert(old(self).group(__g - 1).len() > 0);
                            assert(old(self).first_match(*item, __g as int) == Some(__g - 1));
                            old(self).lemma_first_match_stable(*item, __g as int, old(self).n_eps());
                            assert(old(self).group(__g - 1)[0] < old(self).senders@.len());
                        }
                        ''')
    nx.insert_before(re.compile(r'// Flushing messages'), '''let ghost mid = *self;
        proof {
            if !(gm is Terminate) {
                assert forall|i: int| 0 <= i < old(self).senders@.len() implies (#[trigger] mid.senders@[i]).1.all() == Self::routed(old(self), i, gm) by {
                    if gm is Watermark || gm is FlushAndRestart {
                        assert(old(self).grouped(i));
                        let (g, k) = choose|g: int, k: int| 0 <= g < old(self).n_eps() && 0 <= k < old(self).group(g).len() && #[trigger] old(self).group(g)[k] == i;
                        assert(old(self).in_prefix(i, old(self).n_eps(), 0));
                    }
                }
            }
        }
        ''')
    nx.add_loop_spec(4, r'''
                    invariant
                        self.same_wiring(&mid), self.prev == prev1, __k <= self.senders@.len(),
                        forall|i: int| 0 <= i < mid.senders@.len() ==> (#[trigger] self.senders@[i]).1.all() == mid.senders@[i].1.all(),
                        forall|i: int| 0 <= i < __k ==> (#[trigger] self.senders@[i]).1.pending() == 0,
                    decreases self.senders@.len() - __k,
''')
    nx.add_loop_spec(5, r'''
                    invariant self.prev == prev1,
                    decreases self.senders@.len(),
''')
    nx.insert_at_loop_end(5, '\n                    assert(Batcher::ended(__b));   // #obl:route.terminate_ends_every_batcher\n                ')
    nx.insert_before('        to_return\n', '''        proof { if !(gm is Terminate) { Self::lemma_inv_transfer(old(self), self); } }
''')
    hdr = "impl<Out: ExchangeData, OperatorChain, IndexFn> RoutingEnd<Out, OperatorChain, IndexFn>\nwhere\n    IndexFn: KeyerFn<u64, Out>,\n    OperatorChain: Operator<Out = Out>,\n{"
    return pieces + [hdr, nx, "}"]
