"""C13 / C06 — EventTimeWindowManager::{alloc_windows, process}: Kani single-call contract harnesses on the real code."""
ENGINE = 'kani'
PROPERTIES = ['C13', 'C06']
FUNCTIONS = ['src/operator/window/descr/event_time.rs: EventTimeWindowManager::alloc_windows', 'src/operator/window/descr/event_time.rs: EventTimeWindowManager::process']
OVERLAY = [('src/operator/window/descr/event_time/verif_event_time.rs', 'verif_event_time.rs')]
MOD_LINES = [('src/operator/window/descr/event_time.rs', '#[cfg(kani)] mod verif_event_time;')]
ASSUMPTIONS = [
    'state-size bound: at most 3 open slots in the arbitrary pre-state, consecutive starts at most 3 slides apart; |timestamps| <= 2^12, 1 <= slide <= size <= 15 (values built from 8/16-bit symbolic integers: CBMC bit-blasts the 64-bit div/mul of alloc_windows) (CBMC unwinding, unwinding assertions ON)',
    'accumulator = Rng (count/min/max of the element timestamps), i.e. the contract of user accumulators is instantiated, not quantified',
    'W_in: elements are not late w.r.t. the last watermark (the code asserts it)',
]
B = 'slots<=3, |t|<=2^12, size<=15'
HARNESSES = [
    {'name': 'event_time_element_contract', 'tier': 'quick', 'timeout': 1200, 'form': 'K-step', 'bounds': B},
    {'name': 'event_time_watermark_contract', 'tier': 'quick', 'timeout': 1200, 'form': 'K-step', 'bounds': B},
    {'name': 'event_time_end_contract', 'tier': 'quick', 'timeout': 1200, 'form': 'K-step', 'bounds': B},
    {'name': 'event_time_early_element', 'tier': 'quick', 'timeout': 1200, 'form': 'K-step', 'bounds': B},
]
KANI_ARGS = []
