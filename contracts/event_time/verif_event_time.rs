//! K-step contract harnesses for EventTimeWindowManager::{alloc_windows, process} (overlay, cfg(kani) only).
//! Accumulator = Rng: records how many elements it got and their min / max (elements are their own timestamps).
use super::*;

#[derive(Clone, Copy, Debug, PartialEq, Eq)]
pub struct Rng {
    n: u8,
    lo: Timestamp,
    hi: Timestamp,
}
impl WindowAccumulator for Rng {
    type In = Timestamp;
    type Out = Rng;
    fn process(&mut self, el: Timestamp) {
        if self.n == 0 {
            self.lo = el;
            self.hi = el;
        } else {
            if el < self.lo { self.lo = el; }
            if el > self.hi { self.hi = el; }
        }
        self.n = self.n.saturating_add(1);
    }
    fn output(self) -> Rng { self }
}
const EMPTY: Rng = Rng { n: 0, lo: 0, hi: 0 };
const MAXS: usize = 3; // bound on the number of open slots in the arbitrary pre-state
const T: Timestamp = 1 << 12; // |timestamps| bound (values are built from 16-bit symbolic integers to keep CBMC's 64-bit div/mul tractable)
fn small() -> Timestamp { kani::any::<i16>() as Timestamp }

#[derive(Clone, Copy)]
struct SlotView { start: Timestamp, end: Timestamp, active: bool, acc: Rng }

/// arbitrary manager state satisfying the representation invariant
fn any_manager() -> (EventTimeWindowManager<Rng>, [SlotView; MAXS], usize) {
    let size: Timestamp = (kani::any::<u8>() % 16) as Timestamp;
    let slide: Timestamp = (kani::any::<u8>() % 16) as Timestamp;
    kani::assume(1 <= slide && slide <= size);
    let n: usize = kani::any();
    kani::assume(n <= MAXS);
    let lw: Option<Timestamp> = if kani::any() { Some(small()) } else { None };
    if let Some(w) = lw { kani::assume(-T <= w && w <= T); }
    let mut ws = VecDeque::new();
    let mut view = [SlotView { start: 0, end: 0, active: false, acc: EMPTY }; MAXS];
    let mut start: Timestamp = small();
    kani::assume(-T <= start && start <= T);
    let mut i = 0;
    while i < MAXS {
        if i < n {
            if i > 0 {
                let k: Timestamp = (kani::any::<u8>() % 3) as Timestamp + 1;
                start += k * slide; // consecutive starts differ by a positive multiple of slide
            }
            let active: bool = kani::any();
            let acc: Rng = if active {
                let r = Rng { n: kani::any(), lo: small(), hi: small() };
                kani::assume(r.n >= 1 && r.n < 200 && start <= r.lo && r.lo <= r.hi && r.hi < start + size);
                r
            } else { EMPTY };
            // slots closed by the watermark have been drained: an open slot is not fully below the watermark
            if let Some(w) = lw { kani::assume(!(start + size < w)); }
            view[i] = SlotView { start, end: start + size, active, acc };
            ws.push_back(Slot { acc, start, end: start + size, active });
        }
        i += 1;
    }
    (EventTimeWindowManager { init: EMPTY, size, slide, last_watermark: lw, ws }, view, n)
}

fn check_shape(m: &EventTimeWindowManager<Rng>) {
    let mut i = 0;
    while i < m.ws.len() {
        let s = &m.ws[i];
        kani::assert(s.end == s.start + m.size, "obl:event_time.slot_length_is_size");
        kani::assert(s.active == (s.acc.n > 0), "obl:event_time.active_iff_nonempty");
        if s.acc.n > 0 {
            kani::assert(s.start <= s.acc.lo && s.acc.hi < s.end, "obl:event_time.contents_inside_interval");
        }
        if i > 0 {
            let p = &m.ws[i - 1];
            kani::assert(s.start > p.start && (s.start - p.start) % m.slide == 0, "obl:event_time.starts_spaced_by_slide");
        }
        i += 1;
    }
}

/// Timestamped element that is not late: it lands in exactly the slots whose interval contains it
#[kani::proof]
#[kani::unwind(9)]
fn event_time_element_contract() {
    let (mut m, view, n) = any_manager();
    let ts: Timestamp = small();
    kani::assume(-T <= ts && ts <= T);
    if let Some(w) = m.last_watermark { kani::assume(ts > w); } // W_in: not late
    // arrival not before the first open slot (the other case is obligation `event_time_early_element`)
    if n > 0 { kani::assume(ts >= view[0].start); kani::assume(ts <= view[n - 1].start + 2 * m.slide); }
    let out = m.process(StreamElement::Timestamped(ts, ts));
    kani::assert(out.is_empty(), "obl:event_time.element_emits_nothing");
    check_shape(&m);
    kani::assert(m.ws.len() >= n, "obl:event_time.element_keeps_open_slots");
    let mut hits = 0;
    let mut i = 0;
    while i < m.ws.len() {
        let s = &m.ws[i];
        let inside = s.start <= ts && ts < s.end;
        let before: Rng = if i < n { view[i].acc } else { EMPTY };
        if i < n {
            kani::assert(s.start == view[i].start, "obl:event_time.element_keeps_open_slots");
        }
        if inside {
            hits += 1;
            let mut want = before;
            want.process(ts);
            kani::assert(s.acc == want && s.active, "obl:event_time.element_added_to_every_covering_slot");
        } else {
            kani::assert(s.acc == before, "obl:event_time.element_added_to_no_other_slot");
        }
        i += 1;
    }
    kani::assert(hits >= 1, "obl:event_time.element_in_at_least_one_window");
    if m.slide == m.size {
        kani::assert(hits == 1, "obl:event_time.tumbling_exactly_one_window");
    }
    kani::assert((hits as i64 - 1) * m.slide < m.size, "obl:event_time.sliding_at_most_ceil_size_over_slide");
    kani::cover!(hits == 2, "cov:element_in_two_windows");
    kani::cover!(m.ws.len() > n, "cov:new_slot_allocated");
}

/// C13 / F7: an element that is not late but arrives before the first open slot must still land in a window
#[kani::proof]
#[kani::unwind(9)]
fn event_time_early_element() {
    let (mut m, view, n) = any_manager();
    kani::assume(n >= 1);
    let ts: Timestamp = small();
    kani::assume(-T <= ts && ts < view[0].start);
    if let Some(w) = m.last_watermark { kani::assume(ts > w); } // not late
    let _ = m.process(StreamElement::Timestamped(ts, ts));
    let mut hits = 0;
    let mut i = 0;
    while i < m.ws.len() {
        if m.ws[i].start <= ts && ts < m.ws[i].end && m.ws[i].acc.n > 0 { hits += 1; }
        i += 1;
    }
    kani::assert(hits >= 1, "obl:event_time.early_element_not_dropped");
    kani::cover!(true, "cov:early_reached");
}

/// Watermark: fires exactly the slots it passes, in order, stamped with their end; keeps the rest;
/// and (C06) leaves no slot behind that could later produce a result at or below the watermark
#[kani::proof]
#[kani::unwind(9)]
fn event_time_watermark_contract() {
    let (mut m, view, n) = any_manager();
    let w: Timestamp = small();
    kani::assume(-T <= w && w <= T);
    if let Some(l) = m.last_watermark { kani::assume(w > l); }
    let out = m.process(StreamElement::Watermark(w));
    check_shape(&m);
    kani::assert(m.last_watermark == Some(w), "obl:event_time.watermark_recorded");
    // expected: fired = active slots with end <= w (a watermark reaching the window end), kept = slots with end > w
    let mut fired = 0;
    let mut kept = 0;
    let mut i = 0;
    while i < n {
        let v = view[i];
        if v.end < w {
            // no later than the first watermark beyond the end
            if v.active {
                kani::assert(fired < out.len() && out[fired] == WindowResult::Timestamped(v.acc, v.end), "obl:event_time.fires_passed_windows_in_order");
                fired += 1;
            }
        } else if v.end == w {
            // may fire (watermark reaches the end) - if it does, same form; if it does not, it must not stay behind (checked below)
            if fired < out.len() && v.active && out[fired] == WindowResult::Timestamped(v.acc, v.end) {
                fired += 1;
            } else if kept < m.ws.len() && m.ws[kept].start == v.start {
                kept += 1;
            }
        } else {
            // not earlier than a watermark reaching its end
            kani::assert(kept < m.ws.len() && m.ws[kept].start == v.start && m.ws[kept].acc == v.acc, "obl:event_time.keeps_unpassed_windows");
            kept += 1;
        }
        i += 1;
    }
    kani::assert(fired == out.len(), "obl:event_time.fires_nothing_else");
    kani::assert(kept == m.ws.len(), "obl:event_time.keeps_nothing_else");
    // C06: every result that can still be produced carries a timestamp > w
    let mut j = 0;
    while j < m.ws.len() {
        kani::assert(!(m.ws[j].active && m.ws[j].end <= w), "obl:event_time.no_future_result_at_or_below_watermark");
        j += 1;
    }
    kani::cover!(out.len() == 2, "cov:two_windows_fired");
    kani::cover!(m.ws.len() >= 1 && out.len() >= 1, "cov:fired_and_kept");
}

/// FlushAndRestart / Terminate: every active window fires, nothing is carried over
#[kani::proof]
#[kani::unwind(9)]
fn event_time_end_contract() {
    let (mut m, view, n) = any_manager();
    let term: bool = kani::any();
    let out = m.process(if term { StreamElement::Terminate } else { StreamElement::FlushAndRestart });
    kani::assert(m.ws.is_empty(), "obl:event_time.end_carries_nothing_over");
    let mut fired = 0;
    let mut i = 0;
    while i < n {
        if view[i].active {
            kani::assert(fired < out.len() && out[fired] == WindowResult::Timestamped(view[i].acc, view[i].end), "obl:event_time.end_fires_every_active_window");
            fired += 1;
        }
        i += 1;
    }
    kani::assert(fired == out.len(), "obl:event_time.end_fires_nothing_else");
    kani::cover!(out.len() == 3, "cov:three_fired_at_end");
}
