"""C08 / C05 (NARROWED: the per-iteration protocol of the sort-merge join, not the merge itself) —
JoinLocalSortMerge::{discard_right, next} (src/operator/join/local_sort_merge.rs).
discard_right: removes exactly the last (largest) right element and emits it once padded with None iff the join is outer on the
right and the element's key is not the key of the last left element processed.  next: elements of a side are stored on that side
with the key the side's keyer computes; each side is sorted when its end marker arrives; tuples are produced only once BOTH sides
have ended; the oldest buffered tuple is served first; at FlushAndRestart both sides and the buffer are empty and the operator is
back in its constructor state (nothing - in particular not `last_left_key` - is carried over into the next iteration)."""
import os, re, sys
sys.path.insert(0, os.path.dirname(os.path.dirname(__file__)))
import std_specs as S
from engine.rsx import sha as rsx_sha
ADVANCE_SHA = '4eaca8289c75d324'

PROPERTIES = ["C08", "C05"]
MIN_VERIFIED = 4
F = 'src/operator/join/local_sort_merge.rs'
FJ = 'src/operator/join/mod.rs'
FO = 'src/operator/mod.rs'
FBIN = 'src/operator/start/binary.rs'
ASSUMPTIONS = [
    "JoinLocalSortMerge::advance (the merge loop: iter().rev().take_while() chains over generic Ord keys) is NOT verified: it is used through an ASSUMED contract (frame: only left / right / buffer / last_left_key change; it returns with an empty buffer only when both sides are exhausted). That the merge emits exactly the relational join is NOT decided here",
    "Key equality (`==` on &Key) is spec equality (vstd obeys_eq_spec + eq_spec == spec equality: assumed for the user's key type)",
    "`sort_unstable_by(|(k1, _), (k2, _)| k1.cmp(k2))` -> contracted stub sort_by_key: the result is a permutation of the input (multiset equality); sortedness is only needed by the unverified merge",
    "R-PROTO-BIN (environment): the two-input start delivers no timestamped elements / watermarks (the operator panics on them by design) and FlushAndRestart only after both side end markers (the asserts at FlushAndRestart on left_ended / right_ended are obligations under this protocol)",
    "the keyers are total functions (KeyerFn model trait)",
    "termination of next() is not verified",
]
PRELUDE = r'''
use std::collections::VecDeque;
use vstd::std_specs::cmp::{PartialEqSpec};
type Timestamp = i64;
type OuterJoinTuple<Out1, Out2> = (Option<Out1>, Option<Out2>);
trait Data: Clone + Send + 'static {}
trait ExchangeData: Data {}
trait KeyerFn<Key, Out>: Sized {
    spec fn key_of(&self, x: Out) -> Key;
    fn call_keyer(&self, x: &Out) -> (r: Key) ensures r == self.key_of(*x);
}
trait Operator: Sized {
    type Out;
    spec fn hist(&self) -> Seq<StreamElement<Self::Out>>;
    // R-PROTO-BIN: no timestamped elements; per iteration both end markers precede FlushAndRestart
    spec fn both_ended(h: Seq<StreamElement<Self::Out>>) -> bool;
    fn next(&mut self) -> (r: StreamElement<Self::Out>)
        ensures final(self).hist() == old(self).hist().push(r), !(r is Timestamped) && !(r is Watermark);
}
// ASSUMED: `==` on keys is spec equality
#[verifier::external_body]
proof fn axiom_key_eq<K: core::cmp::PartialEq>()
    ensures K::obeys_eq_spec(), forall|a: K, b: K| #[trigger] a.eq_spec(&b) == (a == b)
{}
// R-PROTO-BIN: a protocol fact the real code checks with assert! (panic = fail-stop) and this unit ASSUMES
#[verifier::external_body]
fn assume_protocol(c: bool) ensures c { unimplemented!() }
// a permutation-preserving sort (stub of slice::sort_unstable_by with the key comparator)
#[verifier::external_body]
fn sort_by_key<K, V>(v: &mut Vec<(K, V)>)
    ensures final(v)@.to_multiset() == old(v)@.to_multiset(), final(v)@.len() == old(v)@.len()
{ unimplemented!() }
'''
SPEC_IMPL = r'''
impl<Key: Data + Ord, Out1: ExchangeData, Out2: ExchangeData, Keyer1: KeyerFn<Key, Out1>, Keyer2: KeyerFn<Key, Out2>,
     OperatorChain: Operator<Out = BinaryElement<Out1, Out2>>> JoinLocalSortMerge<Key, Out1, Out2, Keyer1, Keyer2, OperatorChain> {
    // nothing is produced (and nothing is consumed by the merge) before both sides have ended
    spec fn inv(&self) -> bool {
        &&& (!(self.left_ended && self.right_ended) ==> self.buffer@.len() == 0 && self.last_left_key is None)
    }
    // the constructor state (apart from prev / keyers / variant)
    spec fn fresh(&self) -> bool {
        !self.left_ended && !self.right_ended && self.left@.len() == 0 && self.right@.len() == 0 && self.buffer@.len() == 0 && self.last_left_key is None
    }
    // ASSUMED contract of the unverified merge loop
    #[verifier::external_body]
    fn advance(&mut self)
        requires old(self).left_ended && old(self).right_ended,
        ensures
            final(self).left_ended == old(self).left_ended, final(self).right_ended == old(self).right_ended,
            final(self).variant == old(self).variant, final(self).prev == old(self).prev,
            final(self).keyer1 == old(self).keyer1, final(self).keyer2 == old(self).keyer2,
            final(self).buffer@.len() == 0 ==> final(self).left@.len() == 0 && final(self).right@.len() == 0,
    { unimplemented!() }
}
'''
DISCARD_SPEC = r'''
        requires old(self).right@.len() > 0,
        ensures
            final(self).right@ == old(self).right@.drop_last(),                                              // #obl:sort_merge.discard_removes_exactly_the_last_right_element
            ({
                let (rk, rv) = old(self).right@.last();
                let matched = old(self).last_left_key == Some(rk);
                if !matched && old(self).variant is Outer { final(self).buffer@ == old(self).buffer@.push((rk, (None, Some(rv)))) }
                else { final(self).buffer@ == old(self).buffer@ }
            }),                                                                                              // #obl:sort_merge.unmatched_right_element_padded_once_iff_outer
            final(self).left@ == old(self).left@, final(self).last_left_key == old(self).last_left_key,
            final(self).left_ended == old(self).left_ended, final(self).right_ended == old(self).right_ended,
            final(self).variant == old(self).variant, final(self).prev == old(self).prev,
'''
NEXT_SPEC = r'''
        requires old(self).inv(),
        ensures
            final(self).inv(),
            final(self).variant == old(self).variant, final(self).keyer1 == old(self).keyer1, final(self).keyer2 == old(self).keyer2,
            r is FlushAndRestart ==> final(self).fresh(),                                                    // #obl:sort_merge.nothing_carried_over_into_the_next_iteration
            r is Item ==> final(self).left_ended && final(self).right_ended,                                 // #obl:sort_merge.tuples_only_after_both_sides_ended
            !(r is Timestamped) && !(r is Watermark),
'''
NEXT_LOOP = r'''
            invariant
                self.inv(), self.variant == old(self).variant, self.keyer1 == old(self).keyer1, self.keyer2 == old(self).keyer2,
'''


def build(x):
    pieces = [PRELUDE, S.RUST_PANIC, S.VECDEQUE_IS_EMPTY, x.enum(FO, 'StreamElement'), x.enum(FBIN, 'BinaryElement')]
    jv = x.enum(FJ, 'JoinVariant'); jv.text = '#[derive(Clone, Copy)]\n' + jv.text
    lo = x.method(FJ, 'JoinVariant', 'left_outer'); lo.name_result('r'); lo.add_spec('        ensures r == (self is Left || self is Outer),   // #obl:variant.left_outer\n')
    ro = x.method(FJ, 'JoinVariant', 'right_outer'); ro.name_result('r'); ro.add_spec('        ensures r == (self is Outer),   // #obl:variant.right_outer\n')
    pieces += [jv, "impl JoinVariant {", lo, ro, "}"]
    st = x.struct(F, 'JoinLocalSortMerge')
    st.text = ''.join(f'#[verifier::reject_recursive_types({t})]\n' for t in ('Key', 'Out1', 'Out2', 'Keyer1', 'Keyer2', 'OperatorChain')) + st.text
    pieces += [st, SPEC_IMPL]
    HDR = ("impl<Key: Data + Ord, Out1: ExchangeData, Out2: ExchangeData, Keyer1: KeyerFn<Key, Out1>, Keyer2: KeyerFn<Key, Out2>, "
           "OperatorChain: Operator<Out = BinaryElement<Out1, Out2>>> JoinLocalSortMerge<Key, Out1, Out2, Keyer1, Keyer2, OperatorChain> {")
    dr = x.method(F, 'JoinLocalSortMerge', 'discard_right')
    dr.add_spec(DISCARD_SPEC)
    dr.insert_at_body_start('\n        proof { axiom_key_eq::<Key>(); }')
    dr.sub('V-PAT', r'matches!\(&self\.last_left_key, Some\((\w+)\) if \1 == &(\w+)\)', r'(match &self.last_left_key { Some(\1) => \1 == &\2, None => false })',
           detail='`matches!(&o, Some(k) if k == &r)` -> `match &o { Some(k) => k == &r, None => false }` (definition of matches! with a guard; Verus loses the state across a call in a match guard)', must=True)
    nx = x.method(F, 'JoinLocalSortMerge', 'next', trait='Operator')
    nx.sub('V-SUBST', r'assert!\(\s*self\.(left|right)_ended,(?:[^()]|\((?:[^()]|\([^()]*\))*\))*\);', r'{ let __c: bool = self.\1_ended; assume_protocol(__c); }',
           detail='assert!(self.X_ended, "msg", args) -> R-PROTO-BIN: the environment delivers FlushAndRestart only after both side end markers (ASSUMED; the real code panics otherwise - fail-stop)', flags=re.S, must=True)
    nx.desugar_assert()
    nx.sub('V-SUBST', r'panic!\("Cannot join timestamp streams"\)', 'rust_panic()', detail='panic!(msg) -> rust_panic() (requires false): the absence of the panic is an obligation', must=True)
    nx.sub('V-SUBST', r'self\.(left|right)\.sort_unstable_by\(\|\(k1, _\), \(k2, _\)\| k1\.cmp\(k2\)\);', r'sort_by_key(&mut self.\1);',
           detail='`v.sort_unstable_by(|(k1, _), (k2, _)| k1.cmp(k2))` -> contracted stub sort_by_key(&mut v) (permutation)', must=True)
    nx.sub('V-SUBST', r'\(self\.keyer([12])\)\(&(\w+)\)', r'self.keyer\1.call_keyer(&\2)', detail='`(self.keyerN)(&x)` -> call on the KeyerFn model trait', must=True)
    nx.name_result('r')
    nx.add_spec(NEXT_SPEC)
    nx.text = '#[verifier::exec_allows_no_decreases_clause]\n' + nx.text
    nx.add_loop_spec(1, NEXT_LOOP)
    # the ASSUMED contract of `advance` was written for the body with this hash: if the body changes, a failure of next()
    # may be due to the stale assumption rather than to the code -> undecided, never an alarm
    adv = x.method(F, 'JoinLocalSortMerge', 'advance')
    if rsx_sha(adv.orig) != ADVANCE_SHA:
        nx._lost('assumed contract of advance(): its body changed (sha ' + rsx_sha(adv.orig) + ' != ' + ADVANCE_SHA + ')')
    x.fragments.remove(adv) if adv in getattr(x, 'fragments', []) else None
    pieces += [HDR, dr, nx, "}"]
    return pieces
