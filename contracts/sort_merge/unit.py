"""C08 / C05 (NARROWED: soundness of the merge and the per-iteration protocol; completeness of the merge is not decided) —
JoinLocalSortMerge::{discard_right, advance, next} (src/operator/join/local_sort_merge.rs).
discard_right: removes exactly the last (largest) right element and emits it once padded with None iff the join is outer on the
right and the element's key is not the key of the last left element processed.  advance (the merge loop, now VERIFIED on its real
body): it only consumes the two sorted sides from the top and only appends tuples; every tuple it appends is built from elements
of the two sides carrying the tuple's key - a matched pair joins a left and a right element with EQUAL keys - or is an element
padded with None, which happens only for the outer variants; it stops with an empty buffer only when both sides are exhausted.
next: elements of a side are stored on that side with the key the side's keyer computes; each side is sorted when its end marker
arrives; tuples are produced only once BOTH sides have ended; the oldest buffered tuple is served first; at FlushAndRestart both
sides and the buffer are empty and the operator is back in its constructor state (nothing - in particular not `last_left_key` -
is carried over into the next iteration)."""
import os, re, sys
sys.path.insert(0, os.path.dirname(os.path.dirname(__file__)))
import std_specs as S

PROPERTIES = ["C08", "C05"]
MIN_VERIFIED = 6
F = 'src/operator/join/local_sort_merge.rs'
FJ = 'src/operator/join/mod.rs'
FO = 'src/operator/mod.rs'
FBIN = 'src/operator/start/binary.rs'
ASSUMPTIONS = [
    "COMPLETENESS of the merge is NOT decided: that every pair of equal keys is emitted and every unmatched element of an outer side is padded exactly once relies on the sortedness of the two sides and on the descending scan; the contract of `advance` pins soundness (no tuple that is not a same-key pair / a padded element of an outer variant built from this iteration's elements), consumption from the top only, and the exit condition. A mutant that silently pops a right element inside the merge loop is NOT rejected",
    "V-ITER / V-PAT templates for `advance` (predicates and the mapped expression verbatim): `X.iter().rev().take_while(|(a, _)| P).count()` -> loop counting from the last element while P holds; `for _ in 0..n { S }` -> while loop; `matches!(X.last(), Some((a, _)) if P)` -> match on the last element; `X.iter().rev().take_while(|(a, _)| P).map(|(_, b)| { E })` + `Q.extend(..)` -> loop from the last element while P holds, pushing E",
    "Clone of a key / value yields an equal value (axiom_data_clone)",
    "Key equality (`==` on &Key) is spec equality (vstd obeys_eq_spec + eq_spec == spec equality: assumed for the user's key type)",
    "`sort_unstable_by(|(k1, _), (k2, _)| k1.cmp(k2))` -> contracted stub sort_by_key: the result is a permutation of the input (multiset equality); sortedness is only needed for the completeness of the merge (not decided)",
    "R-PROTO-BIN (environment): the two-input start delivers no timestamped elements / watermarks (the operator panics on them by design) and FlushAndRestart only after both side end markers (the asserts at FlushAndRestart on left_ended / right_ended are obligations under this protocol)",
    "the keyers are total functions (KeyerFn model trait)",
    "termination of next() is not verified",
]
PRELUDE = r'''
use std::collections::VecDeque;
use vstd::std_specs::cmp::{PartialEqSpec};
type Timestamp = i64;
type OuterJoinTuple<Out1, Out2> = (Option<Out1>, Option<Out2>);
trait Data: Clone + Send + 'static {}
trait ExchangeData: Data {}
trait KeyerFn<Key, Out>: Sized {
    spec fn key_of(&self, x: Out) -> Key;
    fn call_keyer(&self, x: &Out) -> (r: Key) ensures r == self.key_of(*x);
}
trait Operator: Sized {
    type Out;
    spec fn hist(&self) -> Seq<StreamElement<Self::Out>>;
    // R-PROTO-BIN: no timestamped elements; per iteration both end markers precede FlushAndRestart
    spec fn both_ended(h: Seq<StreamElement<Self::Out>>) -> bool;
    fn next(&mut self) -> (r: StreamElement<Self::Out>)
        ensures final(self).hist() == old(self).hist().push(r), !(r is Timestamped) && !(r is Watermark);
}
// ASSUMED: `==` on keys is spec equality
#[verifier::external_body]
proof fn axiom_key_eq<K: core::cmp::PartialEq>()
    ensures K::obeys_eq_spec(), forall|a: K, b: K| #[trigger] a.eq_spec(&b) == (a == b)
{}
// R-PROTO-BIN: a protocol fact the real code checks with assert! (panic = fail-stop) and this unit ASSUMES
#[verifier::external_body]
fn assume_protocol(c: bool) ensures c { unimplemented!() }
// a permutation-preserving sort (stub of slice::sort_unstable_by with the key comparator)
#[verifier::external_body]
fn sort_by_key<K, V>(v: &mut Vec<(K, V)>)
    ensures final(v)@.to_multiset() == old(v)@.to_multiset(), final(v)@.len() == old(v)@.len()
{ unimplemented!() }
'''
SPEC_IMPL = r'''
impl<Key: Data + Ord, Out1: ExchangeData, Out2: ExchangeData, Keyer1: KeyerFn<Key, Out1>, Keyer2: KeyerFn<Key, Out2>,
     OperatorChain: Operator<Out = BinaryElement<Out1, Out2>>> JoinLocalSortMerge<Key, Out1, Out2, Keyer1, Keyer2, OperatorChain> {
    // nothing is produced (and nothing is consumed by the merge) before both sides have ended
    spec fn inv(&self) -> bool {
        &&& (!(self.left_ended && self.right_ended) ==> self.buffer@.len() == 0 && self.last_left_key is None)
    }
    // every tuple from index `from` on is a matched pair or a padded element of an outer variant
    spec fn tuples_ok(buf: Seq<(Key, OuterJoinTuple<Out1, Out2>)>, from: int, v: JoinVariant, l0: Seq<(Key, Out1)>, r0: Seq<(Key, Out2)>) -> bool {
        forall|t: int| from <= t < buf.len() ==>
            ((#[trigger] buf[t]).1.0 is Some || buf[t].1.1 is Some)
            && (buf[t].1.0 is None ==> v is Outer)
            && (buf[t].1.1 is None ==> (v is Left || v is Outer))
            && Self::from_inputs(buf[t], l0, r0)
    }
    // the tuple is built from elements of the two sorted sides, and both carry the tuple's key
    spec fn from_inputs(t: (Key, OuterJoinTuple<Out1, Out2>), l0: Seq<(Key, Out1)>, r0: Seq<(Key, Out2)>) -> bool {
        &&& (t.1.0 matches Some(l) ==> exists|i: int| 0 <= i < l0.len() && #[trigger] l0[i] == (t.0, l))
        &&& (t.1.1 matches Some(r) ==> exists|j: int| 0 <= j < r0.len() && #[trigger] r0[j] == (t.0, r))
    }
    // the constructor state (apart from prev / keyers / variant)
    spec fn fresh(&self) -> bool {
        !self.left_ended && !self.right_ended && self.left@.len() == 0 && self.right@.len() == 0 && self.buffer@.len() == 0 && self.last_left_key is None
    }
}
'''
ADVANCE_SPEC = r'''
        requires old(self).left_ended && old(self).right_ended,
        ensures
            final(self).left_ended == old(self).left_ended, final(self).right_ended == old(self).right_ended,
            final(self).variant == old(self).variant, final(self).prev == old(self).prev,
            final(self).keyer1 == old(self).keyer1, final(self).keyer2 == old(self).keyer2,
            // the merge only consumes: what is left of a side is a prefix of what it was; tuples are only appended
            final(self).left@.len() <= old(self).left@.len() && final(self).left@ == old(self).left@.take(final(self).left@.len() as int),      // #obl:sort_merge.merge_only_consumes_the_left_side_from_the_top
            final(self).right@.len() <= old(self).right@.len() && final(self).right@ == old(self).right@.take(final(self).right@.len() as int),  // #obl:sort_merge.merge_only_consumes_the_right_side_from_the_top
            final(self).buffer@.len() >= old(self).buffer@.len() && final(self).buffer@.take(old(self).buffer@.len() as int) == old(self).buffer@, // #obl:sort_merge.merge_only_appends_tuples
            // it stops with an empty buffer only when both sides are exhausted (so nothing is left behind at FlushAndRestart)
            final(self).buffer@.len() == 0 ==> final(self).left@.len() == 0 && final(self).right@.len() == 0,                                   // #obl:sort_merge.merge_runs_until_a_tuple_is_ready_or_both_sides_are_exhausted
            // every tuple it appends is a matched pair with both sides present, or a padded left / right element
            forall|t: int| old(self).buffer@.len() <= t < final(self).buffer@.len() ==>
                ((#[trigger] final(self).buffer@[t]).1.0 is Some || final(self).buffer@[t].1.1 is Some)
                && (final(self).buffer@[t].1.0 is None ==> old(self).variant is Outer)
                && (final(self).buffer@[t].1.1 is None ==> (old(self).variant is Left || old(self).variant is Outer)),                      // #obl:sort_merge.padded_tuples_only_for_the_outer_variants
            // ... and is built from elements of the two sides that carry the tuple's key: a matched pair joins EQUAL keys
            forall|t: int| old(self).buffer@.len() <= t < final(self).buffer@.len() ==> Self::from_inputs(#[trigger] final(self).buffer@[t], old(self).left@, old(self).right@),   // #obl:sort_merge.every_tuple_joins_elements_of_the_two_sides_with_the_same_key
'''
DISCARD_SPEC = r'''
        requires old(self).right@.len() > 0,
        ensures
            final(self).right@ == old(self).right@.drop_last(),                                              // #obl:sort_merge.discard_removes_exactly_the_last_right_element
            ({
                let (rk, rv) = old(self).right@.last();
                let matched = old(self).last_left_key == Some(rk);
                if !matched && old(self).variant is Outer { final(self).buffer@ == old(self).buffer@.push((rk, (None, Some(rv)))) }
                else { final(self).buffer@ == old(self).buffer@ }
            }),                                                                                              // #obl:sort_merge.unmatched_right_element_padded_once_iff_outer
            final(self).left@ == old(self).left@, final(self).last_left_key == old(self).last_left_key,
            final(self).left_ended == old(self).left_ended, final(self).right_ended == old(self).right_ended,
            final(self).variant == old(self).variant, final(self).prev == old(self).prev,
            final(self).keyer1 == old(self).keyer1, final(self).keyer2 == old(self).keyer2,
'''
NEXT_SPEC = r'''
        requires old(self).inv(),
        ensures
            final(self).inv(),
            final(self).variant == old(self).variant, final(self).keyer1 == old(self).keyer1, final(self).keyer2 == old(self).keyer2,
            r is FlushAndRestart ==> final(self).fresh(),                                                    // #obl:sort_merge.nothing_carried_over_into_the_next_iteration
            r is Item ==> final(self).left_ended && final(self).right_ended,                                 // #obl:sort_merge.tuples_only_after_both_sides_ended
            !(r is Timestamped) && !(r is Watermark),
'''
NEXT_LOOP = r'''
            invariant
                self.inv(), self.variant == old(self).variant, self.keyer1 == old(self).keyer1, self.keyer2 == old(self).keyer2,
'''


def build(x):
    pieces = [S.CLONE_IS_EQ, PRELUDE, 'broadcast use trusted_axioms::axiom_data_clone;\n', S.RUST_PANIC, S.VECDEQUE_IS_EMPTY, x.enum(FO, 'StreamElement'), x.enum(FBIN, 'BinaryElement')]
    jv = x.enum(FJ, 'JoinVariant'); jv.text = '#[derive(Clone, Copy)]\n' + jv.text
    lo = x.method(FJ, 'JoinVariant', 'left_outer'); lo.name_result('r'); lo.add_spec('        ensures r == (self is Left || self is Outer),   // #obl:variant.left_outer\n')
    ro = x.method(FJ, 'JoinVariant', 'right_outer'); ro.name_result('r'); ro.add_spec('        ensures r == (self is Outer),   // #obl:variant.right_outer\n')
    pieces += [jv, "impl JoinVariant {", lo, ro, "}"]
    st = x.struct(F, 'JoinLocalSortMerge')
    st.text = ''.join(f'#[verifier::reject_recursive_types({t})]\n' for t in ('Key', 'Out1', 'Out2', 'Keyer1', 'Keyer2', 'OperatorChain')) + st.text
    pieces += [st, SPEC_IMPL]
    HDR = ("impl<Key: Data + Ord, Out1: ExchangeData, Out2: ExchangeData, Keyer1: KeyerFn<Key, Out1>, Keyer2: KeyerFn<Key, Out2>, "
           "OperatorChain: Operator<Out = BinaryElement<Out1, Out2>>> JoinLocalSortMerge<Key, Out1, Out2, Keyer1, Keyer2, OperatorChain> {")
    dr = x.method(F, 'JoinLocalSortMerge', 'discard_right')
    dr.add_spec(DISCARD_SPEC)
    dr.insert_at_body_start('\n        proof { axiom_key_eq::<Key>(); }')
    dr.sub('V-PAT', r'matches!\(&self\.last_left_key, Some\((\w+)\) if \1 == &(\w+)\)', r'(match &self.last_left_key { Some(\1) => \1 == &\2, None => false })',
           detail='`matches!(&o, Some(k) if k == &r)` -> `match &o { Some(k) => k == &r, None => false }` (definition of matches! with a guard; Verus loses the state across a call in a match guard)', must=True)
    nx = x.method(F, 'JoinLocalSortMerge', 'next', trait='Operator')
    nx.sub('V-SUBST', r'assert!\(\s*self\.(left|right)_ended,(?:[^()]|\((?:[^()]|\([^()]*\))*\))*\);', r'{ let __c: bool = self.\1_ended; assume_protocol(__c); }',
           detail='assert!(self.X_ended, "msg", args) -> R-PROTO-BIN: the environment delivers FlushAndRestart only after both side end markers (ASSUMED; the real code panics otherwise - fail-stop)', flags=re.S, must=True)
    nx.desugar_assert()
    nx.sub('V-SUBST', r'panic!\("Cannot join timestamp streams"\)', 'rust_panic()', detail='panic!(msg) -> rust_panic() (requires false): the absence of the panic is an obligation', must=True)
    nx.sub('V-SUBST', r'self\.(left|right)\.sort_unstable_by\(\|\(k1, _\), \(k2, _\)\| k1\.cmp\(k2\)\);', r'sort_by_key(&mut self.\1);',
           detail='`v.sort_unstable_by(|(k1, _), (k2, _)| k1.cmp(k2))` -> contracted stub sort_by_key(&mut v) (permutation)', must=True)
    nx.sub('V-SUBST', r'\(self\.keyer([12])\)\(&(\w+)\)', r'self.keyer\1.call_keyer(&\2)', detail='`(self.keyerN)(&x)` -> call on the KeyerFn model trait', must=True)
    nx.name_result('r')
    nx.add_spec(NEXT_SPEC)
    nx.text = '#[verifier::exec_allows_no_decreases_clause]\n' + nx.text
    nx.add_loop_spec(1, NEXT_LOOP)
    adv = x.method(F, 'JoinLocalSortMerge', 'advance')
    adv.add_spec(ADVANCE_SPEC)
    adv.text = '#[verifier::exec_allows_no_decreases_clause]\n' + adv.text
    FRAME = ("self.variant == old(self).variant, self.left_ended == old(self).left_ended, self.right_ended == old(self).right_ended, self.prev == old(self).prev, "
             "self.keyer1 == old(self).keyer1, self.keyer2 == old(self).keyer2")
    BUF = "self.buffer@.len() >= B0.len() && self.buffer@.take(B0.len() as int) == B0, Self::tuples_ok(self.buffer@, B0.len() as int, old(self).variant, L0, R0)"
    nows = lambda t: re.sub(r'\s+', '', t)
    # T1: `let n = X.iter().rev().take_while(|(a, _)| P).count();` -> count loop from the top (P verbatim)
    adv.sub('V-ITER', r'let (?P<n>\w+)(?:\s*:\s*[^=;]+?)? = (?P<x>self\s*\.\s*\w+)\s*\.iter\(\)\s*\.rev\(\)\s*\.take_while\(\|\((?P<a>\w+), _\)\| (?P<p>[^)]*?)\)\s*\.count\(\);',
            lambda m: (f"let mut {m.group('n')}: usize = 0;\n                loop\n                    invariant {m.group('n')} <= {nows(m.group('x'))}@.len(),\n"
                       f"                {{ if {m.group('n')} >= {nows(m.group('x'))}.len() {{ break; }} let {m.group('a')} = &{nows(m.group('x'))}[{nows(m.group('x'))}.len() - 1 - {m.group('n')}].0; if !({m.group('p')}) {{ break; }} {m.group('n')} += 1; }};"),
            detail='`let n = X.iter().rev().take_while(|(a, _)| P).count();` -> loop counting from the last element while P holds (P verbatim)', flags=re.S, must=True)
    # T2: `for _ in 0..n { S }` -> while loop
    adv.sub('V-ITER', r'for _ in 0\.\.(?P<n>\w+) \{\s*(?P<s>[^{}]*?)\s*\}',
            lambda m: (f"{{ let mut __j: usize = 0; let ghost __r1 = self.right@;\n                while __j < {m.group('n')}\n"
                       f"                    invariant __j <= {m.group('n')}, {m.group('n')} <= __r1.len(), self.right@ == __r1.take(__r1.len() - __j), __r1.len() <= R0.len() && __r1 == R0.take(__r1.len() as int), self.left@ == __l_in, self.last_left_key == __k_in, {FRAME},\n                        {BUF},\n"
                       f"                {{ let ghost __rl = self.right@.len() - 1; proof {{ assert(self.right@[__rl] == R0[__rl]); }} {m.group('s')} __j += 1; proof {{ assert(self.right@ =~= __r1.take(__r1.len() - __j)); assert(self.buffer@.take(B0.len() as int) =~= B0); }} }}\n"
                       f"                proof {{ assert(self.right@ =~= R0.take(self.right@.len() as int)); }} }};"),
            detail='`for _ in 0..n { S }` -> while loop (S verbatim)', flags=re.S, must=True)
    # T3: `matches!(X.last(), Some((a, _)) if P)` -> match on the last element (P verbatim)
    adv.sub('V-PAT', r'matches!\((?P<x>[\w\.]+)\.last\(\), Some\(\((?P<a>\w+), _\)\) if (?P<p>[^)]*?)\)',
            lambda m: f"(match {m.group('x')}.last() {{ Some(__p) => {{ let {m.group('a')} = &__p.0; {m.group('p')} }} None => false }})",
            detail='`matches!(X.last(), Some((a, _)) if P)` -> `match X.last() { Some(p) => { let a = &p.0; P } None => false }`', must=True)
    # T4: `let m = X.iter().rev().take_while(|(a, _)| P).map(|(_, b)| { E }); Q.extend(m);` -> loop pushing E from the top while P holds
    adv.sub('V-ITER', r'let (?P<m>\w+)(?:\s*:\s*[^=;]+?)? = (?P<x>self\s*\.\s*\w+)\s*\.iter\(\)\s*\.rev\(\)\s*\.take_while\(\|\((?P<a>\w+), _\)\| (?P<p>[^)]*?)\)\s*\.map\(\|\(_, (?P<b>\w+)\)\| \{(?P<e>.*?)\}\);\s*(?://[^\n]*\n\s*)*(?P<q>self\.\w+)\.extend\((?P=m)\);',
            lambda m: (f"{{ let mut __t: usize = 0; let ghost __r2 = self.right@;\n                    loop\n"
                       f"                        invariant __t <= self.right@.len(), self.right@ == __r2, __r2.len() <= R0.len() && __r2 == R0.take(__r2.len() as int), 0 <= __li < L0.len() && L0[__li] == (lkey, lvalue), Key::obeys_eq_spec(), forall|a: Key, b: Key| #[trigger] a.eq_spec(&b) == (a == b), self.left@ == __l_in, self.last_left_key == __k_in, {FRAME},\n                            {BUF},\n"
                       f"                    {{ if __t >= {nows(m.group('x'))}.len() {{ break; }} let __p = &{nows(m.group('x'))}[{nows(m.group('x'))}.len() - 1 - __t]; let {m.group('a')} = &__p.0; if !({m.group('p')}) {{ break; }} let {m.group('b')} = &__p.1;\n"
                       f"                        let __x = {{{m.group('e')}}}; let ghost __rj = {nows(m.group('x'))}@.len() - 1 - __t; {m.group('q')}.push_back(__x); __t += 1; proof {{ assert(self.buffer@.take(B0.len() as int) =~= B0); assert(R0[__rj] == __r2[__rj]); assert(L0[__li] == (__x.0, __x.1.0->0));   // #obl:sort_merge.a_matched_pair_carries_the_current_left_element\n assert(R0[__rj] == (__x.0, __x.1.1->0));   // #obl:sort_merge.a_matched_pair_joins_equal_keys\n assert(Self::from_inputs(__x, L0, R0)); }} }} }};"),
            detail='`let m = X.iter().rev().take_while(|(a, _)| P).map(|(_, b)| { E }); Q.extend(m);` -> loop from the last element while P holds, pushing E (P, E verbatim)', flags=re.S, must=True)
    adv.insert_at_body_start("\n        let ghost L0 = self.left@; let ghost R0 = self.right@; let ghost B0 = self.buffer@;\n        proof { assert(L0.take(L0.len() as int) =~= L0); assert(R0.take(R0.len() as int) =~= R0); assert(B0.take(B0.len() as int) =~= B0); }")
    adv.insert_after(re.compile(r'if let Some\(\(\w+, \w+\)\) = self\.left\.pop\(\) \{'), "\n                let ghost __l_in = self.left@; let ghost __k_in = self.last_left_key; let ghost __li = self.left@.len() as int;\n                proof { axiom_key_eq::<Key>(); assert(__l_in =~= L0.take(__l_in.len() as int)); assert(L0[__li] == (lkey, lvalue)); }")
    OUTER = f"""
            invariant
                {FRAME},
                self.left@.len() <= L0.len() && self.left@ == L0.take(self.left@.len() as int),
                self.right@.len() <= R0.len() && self.right@ == R0.take(self.right@.len() as int),
                {BUF},
"""
    LAST = f"""
                    invariant
                        {FRAME}, self.left@ == L0.take(self.left@.len() as int) && self.left@.len() <= L0.len(),
                        self.right@.len() <= R0.len() && self.right@ == R0.take(self.right@.len() as int),
                        {BUF},
"""
    adv.add_loop_spec(5, LAST)
    adv.add_loop_spec(1, OUTER)
    adv.sub('V-SPEC', r'(while !self\.right\.is_empty\(\)[^{]*\{)\s*self\.discard_right\(\);', r'\1 let ghost __rl = self.right@.len() - 1; proof { assert(self.right@[__rl] == R0[__rl]); } self.discard_right(); proof { assert(self.right@ =~= R0.take(self.right@.len() as int)); assert(self.buffer@.take(B0.len() as int) =~= B0); }', detail='proof hints in the final discard loop', flags=re.S)
    pieces += [HDR, dr, adv, nx, "}"]
    return pieces
