"""C09 — Stream::merge (src/operator/merge.rs): the unwrapping closure handed to filter_map after the two-input start.  An element of
either side is kept, with its payload unchanged; the two side end markers (LeftEnd / RightEnd) are dropped.  Together with unit
binary_select (every element read from either link is delivered once, wrapped in the variant of its side) and unit chain_ops
(FilterMap::next keeps exactly the elements the closure maps to Some, with their payload and timestamp) this gives: the output of
merge is the multiset union of its two inputs."""
import os, re, sys
sys.path.insert(0, os.path.dirname(os.path.dirname(__file__)))
import std_specs as S
from engine.rsx import ScanError

PROPERTIES = ["C09"]
MIN_VERIFIED = 1
F = 'src/operator/merge.rs'
FBIN = 'src/operator/start/binary.rs'
ASSUMPTIONS = [
    "builder wiring around the closure (binary_connection with Start::multiple and two OnlyOne strategies, filter_map) is read, not verified",
]
PRELUDE = r'''
trait Data: Clone + Send + 'static {}
'''


def build(x):
    be = x.enum(FBIN, 'BinaryElement')
    mg = x.method(F, 'Stream', 'merge')
    s = mg._src()
    m = next((m for m in re.finditer(r'\.filter_map\(\|(\w+)\|\s*', mg.text) if s.mask[m.start()]), None)
    if not m:
        raise ScanError('merge: the filter_map closure was not found')
    i = m.end()
    # the closure body is the expression up to the closing parenthesis of filter_map( ... )
    depth = 0
    j = i
    while j < len(mg.text):
        ch = mg.text[j]
        if s.mask[j]:
            if ch in '([{':
                depth += 1
            elif ch in ')]}':
                if depth == 0:
                    break
                depth -= 1
        j += 1
    body = mg.text[i:j].rstrip()
    e = m.group(1)
    mg.text = (f"fn merge_unwrap<T: Data>({e}: BinaryElement<T, T>) -> (r: Option<T>)\n"
               f"    ensures\n"
               f"        ({e} matches BinaryElement::Left(x) ==> r == Some(x)),                         // #obl:merge.left_element_kept_unchanged\n"
               f"        ({e} matches BinaryElement::Right(x) ==> r == Some(x)),                        // #obl:merge.right_element_kept_unchanged\n"
               f"        ({e} is LeftEnd || {e} is RightEnd) ==> r is None,                             // #obl:merge.only_the_side_end_markers_are_dropped\n"
               f"{{\n    {body}\n}}\n")
    mg.note('V-BLOCK', 1, 'the closure handed to filter_map by Stream::merge extracted byte for byte and wrapped in a function of its parameter')
    return [PRELUDE, be, mg]
