"""C03 / C09 — RoutingEnd::setup_endpoints (src/operator/route.rs): the postcondition that RoutingEnd::next assumes as
`RoutingEnd.inv` (unit route_next).  Endpoint g is built from route g (same order, same block id, same predicate - so "the first
matching route" of next() is the first route the user added); its senders are exactly the senders of that downstream block, in
increasing index order; the endpoints partition the sender indexes (the real code asserts that no downstream block is left
without a route); the route list is consumed."""
import os, re, sys
sys.path.insert(0, os.path.dirname(os.path.dirname(__file__)))
import std_specs as S
from engine.rsx import ScanError

PROPERTIES = ["C03", "C09"]
MIN_VERIFIED = 1
F = 'src/operator/route.rs'
FE = 'src/operator/end.rs'
FN = 'src/network/mod.rs'
ASSUMPTIONS = [
    "V-ITER: `V.iter().enumerate().fold(HashMap::new(), |mut map, (i, s)| { B; map })` -> index loop running B (verbatim) on a map-view model of HashMap; `for (b, f) in self.routes.drain(..) { S }` -> pop-front loop (S verbatim)",
    "std HashMap<BlockId, Vec<usize>> by its map view (KMap): `.entry(k).or_default()` -> entry_or_default(k), remove(&k), is_empty()",
    "`.expect(msg)` on None and a failed assert! panic and do not return (fail-stop): `scheduler connection missing`, `block_map.is_empty()` are facts AFTER the call, not obligations",
    "sort_unstable_by_key(|s| s.0) -> contracted stub: a permutation (same length)",
    "the routes handed to the constructor name pairwise distinct downstream blocks (RouterBuilder gives every route its own new block): precondition",
    "FilterFn and Batcher are opaque here; the strategy clauses of RoutingEnd.inv (OnlyOne => index 0) are established by RouterBuilder, not here",
]
PRELUDE = r"""
type BlockId = u64; type HostId = u64; type ReplicaId = u64; type Timestamp = i64;
trait ExchangeData: Clone + Send + 'static {}
trait KeyerFn<Key, Out>: Sized {}
trait Operator: Sized { type Out; }
#[verifier::external_body]
#[verifier::reject_recursive_types(Out)]
struct Batcher<Out> { _p: core::marker::PhantomData<Out> }
#[verifier::external_body]
#[verifier::reject_recursive_types(Out)]
struct FilterFn<Out> { _p: core::marker::PhantomData<Out> }
#[derive(Clone, Copy)]
struct BatchMode {}
#[verifier::external_body]
fn panic_no_return() ensures false { unimplemented!() }
#[verifier::external_body]
fn panic_no_return_val<T>() -> T ensures false { unimplemented!() }
#[verifier::external_body]
fn sort_senders_by_endpoint<Out>(v: &mut Vec<(ReceiverEndpoint, Batcher<Out>)>)
    ensures final(v)@.len() == old(v)@.len(), final(v)@.to_multiset() == old(v)@.to_multiset()
{ unimplemented!() }
#[verifier::external_body]
struct KMap { _p: core::marker::PhantomData<u64> }
impl KMap {
    uninterp spec fn view(&self) -> Map<BlockId, Seq<usize>>;
    #[verifier::external_body]
    fn new() -> (r: KMap) ensures r@ =~= Map::<BlockId, Seq<usize>>::empty() { unimplemented!() }
    #[verifier::external_body]
    fn entry_or_default(&mut self, k: BlockId) -> (r: &mut Vec<usize>)
        ensures r@ == (if old(self)@.contains_key(k) { old(self)@[k] } else { Seq::<usize>::empty() }),
                final(self)@ == old(self)@.insert(k, final(r)@),
    { unimplemented!() }
    #[verifier::external_body]
    fn remove(&mut self, k: &BlockId) -> (r: Option<Vec<usize>>)
        ensures final(self)@ == old(self)@.remove(*k),
                old(self)@.contains_key(*k) ==> r is Some && r->0@ == old(self)@[*k],
                !old(self)@.contains_key(*k) ==> r is None,
    { unimplemented!() }
    #[verifier::external_body]
    fn is_empty(&self) -> (r: bool) ensures r == (self@.dom() =~= Set::<BlockId>::empty()) { unimplemented!() }
}
"""
SPEC_IMPL = r"""
impl<Out: ExchangeData, OperatorChain, IndexFn> RoutingEnd<Out, OperatorChain, IndexFn>
where
    IndexFn: KeyerFn<u64, Out>,
    OperatorChain: Operator<Out = Out>,
{
    spec fn n_eps(&self) -> int { self.endpoints@.len() as int }
    spec fn group(&self, g: int) -> Seq<usize> { self.endpoints@[g].block_senders.indexes@ }
    // the structural part of RoutingEnd.inv of unit route_next (same clauses)
    spec fn inv_structure(&self) -> bool {
        &&& self.routes@.len() == 0
        &&& forall|g: int| 0 <= g < self.n_eps() ==> (#[trigger] self.group(g)).len() > 0
        &&& forall|g: int, k: int| 0 <= g < self.n_eps() && 0 <= k < self.group(g).len() ==> (#[trigger] self.group(g)[k]) < self.senders@.len()
        &&& forall|g1: int, k1: int, g2: int, k2: int|
                0 <= g1 < self.n_eps() && 0 <= k1 < self.group(g1).len() && 0 <= g2 < self.n_eps() && 0 <= k2 < self.group(g2).len()
                && #[trigger] self.group(g1)[k1] == #[trigger] self.group(g2)[k2] ==> g1 == g2 && k1 == k2
        &&& forall|i: int| 0 <= i < self.senders@.len() ==> #[trigger] self.grouped(i)
    }
    spec fn grouped(&self, i: int) -> bool {
        exists|g: int, k: int| 0 <= g < self.n_eps() && 0 <= k < self.group(g).len() && #[trigger] self.group(g)[k] == i
    }
    spec fn block_of(&self, i: int) -> BlockId { Self::blk(self.senders@, i) }
    spec fn blk(s: Seq<(ReceiverEndpoint, Batcher<Out>)>, i: int) -> BlockId { s[i].0.coord.block_id }
    spec fn map_ok(s: Seq<(ReceiverEndpoint, Batcher<Out>)>, m: Map<BlockId, Seq<usize>>, n: int) -> bool {
        &&& forall|b: BlockId| m.contains_key(b) ==> (#[trigger] m[b]).len() > 0
        &&& forall|b: BlockId, k: int| m.contains_key(b) && 0 <= k < m[b].len() ==> (#[trigger] m[b][k]) < n && Self::blk(s, m[b][k] as int) == b
        &&& forall|b: BlockId, k1: int, k2: int| m.contains_key(b) && 0 <= k1 < k2 < m[b].len() ==> #[trigger] m[b][k1] < #[trigger] m[b][k2]
        &&& forall|i: int| 0 <= i < n ==> m.contains_key(#[trigger] Self::blk(s, i)) && exists|k: int| 0 <= k < m[Self::blk(s, i)].len() && #[trigger] m[Self::blk(s, i)][k] == i
    }
}
"""
SETUP_SPEC = r"""
        requires
            old(self).endpoints@.len() == 0,
            forall|i: int, j: int| 0 <= i < j < old(self).routes@.len() ==> (#[trigger] old(self).routes@[i]).0 != (#[trigger] old(self).routes@[j]).0,
        ensures
            final(self).inv_structure(),                                                                          // #obl:setup_endpoints.endpoints_partition_the_senders
            final(self).senders@.len() == old(self).senders@.len(),
            // endpoint g is route g: same order (so the first matching route of next() is the first route added), same block, same predicate
            final(self).endpoints@.len() == old(self).routes@.len(),
            forall|g: int| 0 <= g < final(self).endpoints@.len() ==> (#[trigger] final(self).endpoints@[g]).block_id == old(self).routes@[g].0
                && final(self).endpoints@[g].filter == old(self).routes@[g].1,                                    // #obl:setup_endpoints.endpoints_in_route_order_with_their_predicates
            // its senders are senders of exactly that downstream block, in increasing index (= sorted endpoint) order
            forall|g: int, k: int| 0 <= g < final(self).n_eps() && 0 <= k < final(self).group(g).len() ==>
                final(self).block_of(#[trigger] final(self).group(g)[k] as int) == final(self).endpoints@[g].block_id,   // #obl:setup_endpoints.an_endpoint_holds_the_senders_of_its_block
            forall|g: int, k1: int, k2: int| 0 <= g < final(self).n_eps() && 0 <= k1 < k2 < final(self).group(g).len() ==>
                #[trigger] final(self).group(g)[k1] < #[trigger] final(self).group(g)[k2],                        // #obl:setup_endpoints.senders_in_sorted_endpoint_order
"""
FOLD_LOOP = """let mut {bm} = {{ let mut {mp} = KMap::new(); let mut {i}: usize = 0;
                while {i} < self.senders.len()
                    invariant {i} <= self.senders@.len(), Self::map_ok(self.senders@, {mp}@, {i} as int),   // #obl:setup_endpoints.fold_collects_each_sender_under_its_block
                    decreases self.senders@.len() - {i},
                {{
                    let {sv} = &self.senders[{i}]; let ghost __m0 = {mp}@;
                    {body}
                    proof {{ let b = {sv}.0.coord.block_id; let old_s = if __m0.contains_key(b) {{ __m0[b] }} else {{ Seq::<usize>::empty() }};
                        assert({mp}@ == __m0.insert(b, old_s.push({i})));   // #obl:setup_endpoints.sender_recorded_under_its_downstream_block_only
                        assert forall|i2: int| 0 <= i2 < {i} + 1 implies {mp}@.contains_key(#[trigger] Self::blk(self.senders@, i2)) && exists|k: int| 0 <= k < {mp}@[Self::blk(self.senders@, i2)].len() && #[trigger] {mp}@[Self::blk(self.senders@, i2)][k] == i2 by {{
                            if i2 == {i} {{ assert({mp}@[b][old_s.len() as int] == {i}); }}
                            else {{ let k = choose|k: int| 0 <= k < __m0[Self::blk(self.senders@, i2)].len() && #[trigger] __m0[Self::blk(self.senders@, i2)][k] == i2; assert({mp}@[Self::blk(self.senders@, i2)][k] == i2); }}
                        }}
                    }}
                    {i} += 1;
                }}
                {mp} }};
        let ghost __mf = {bm}@; let ghost __r0 = self.routes@; let ghost __n = self.senders@.len() as int; let ghost __s0 = self.senders@;"""
DRAIN_LOOP = r"""while self.routes.len() > 0
            invariant
                self.senders@ == __s0, __s0.len() == __n,
                self.routes@ =~= __r0.skip(self.endpoints@.len() as int), self.endpoints@.len() <= __r0.len(),
                forall|i: int, j: int| 0 <= i < j < __r0.len() ==> (#[trigger] __r0[i]).0 != (#[trigger] __r0[j]).0,
                Self::map_ok(__s0, __mf, __n),
                // the map still holds exactly the blocks not consumed yet, unchanged
                forall|b: BlockId| #[trigger] §block_map§@.contains_key(b) <==> (__mf.contains_key(b) && !(exists|g: int| 0 <= g < self.endpoints@.len() && (#[trigger] __r0[g]).0 == b)),
                forall|b: BlockId| #[trigger] §block_map§@.contains_key(b) ==> §block_map§@[b] == __mf[b],
                forall|g: int| 0 <= g < self.endpoints@.len() ==> (#[trigger] self.endpoints@[g]).block_id == __r0[g].0 && self.endpoints@[g].filter == __r0[g].1
                    && __mf.contains_key(__r0[g].0) && self.endpoints@[g].block_senders.indexes@ == __mf[__r0[g].0],   // #obl:setup_endpoints.endpoint_g_is_route_g_with_the_senders_of_its_block
            decreases self.routes@.len(),
        { let ghost __g = self.endpoints@.len() as int; proof { assert(__r0.skip(__g)[0] == __r0[__g]); assert(__r0.skip(__g).skip(1) =~= __r0.skip(__g + 1)); }
            let (\1, \2) = self.routes.remove(0);"""
FINAL_PROOF = r"""        proof {
            let n = __n;
            assert(§block_map§@.dom() =~= Set::<BlockId>::empty());
            assert forall|g: int| 0 <= g < self.n_eps() implies (#[trigger] self.group(g)).len() > 0 by { assert(self.endpoints@[g].block_senders.indexes@ == __mf[__r0[g].0]); }
            assert forall|g: int, k: int| 0 <= g < self.n_eps() && 0 <= k < self.group(g).len() implies (#[trigger] self.group(g)[k]) < self.senders@.len() && self.block_of(self.group(g)[k] as int) == self.endpoints@[g].block_id by {
                assert(self.endpoints@[g].block_senders.indexes@ == __mf[__r0[g].0]); assert(__mf[__r0[g].0][k] < n); }
            assert forall|g1: int, k1: int, g2: int, k2: int| 0 <= g1 < self.n_eps() && 0 <= k1 < self.group(g1).len() && 0 <= g2 < self.n_eps() && 0 <= k2 < self.group(g2).len()
                && #[trigger] self.group(g1)[k1] == #[trigger] self.group(g2)[k2] implies g1 == g2 && k1 == k2 by {
                let b1 = __r0[g1].0; let b2 = __r0[g2].0;
                assert(self.endpoints@[g1].block_senders.indexes@ == __mf[b1]); assert(self.endpoints@[g2].block_senders.indexes@ == __mf[b2]);
                assert(self.block_of(__mf[b1][k1] as int) == b1); assert(self.block_of(__mf[b2][k2] as int) == b2);
                if g1 != g2 { if g1 < g2 { assert(__r0[g1].0 != __r0[g2].0); } else { assert(__r0[g2].0 != __r0[g1].0); } }
                else if k1 != k2 { if k1 < k2 { assert(__mf[b1][k1] < __mf[b1][k2]); } else { assert(__mf[b1][k2] < __mf[b1][k1]); } }
            }
            assert forall|i: int| 0 <= i < self.senders@.len() implies #[trigger] self.grouped(i) by {
                let b = self.block_of(i);
                assert(__mf.contains_key(b)); assert(!§block_map§@.contains_key(b));
                let g = choose|g: int| 0 <= g < self.endpoints@.len() && (#[trigger] __r0[g]).0 == b;
                let k = choose|k: int| 0 <= k < __mf[b].len() && #[trigger] __mf[b][k] == i;
                assert(self.endpoints@[g].block_senders.indexes@ == __mf[b]); assert(self.group(g)[k] == i);
            }
            assert forall|g: int, k1: int, k2: int| 0 <= g < self.n_eps() && 0 <= k1 < k2 < self.group(g).len() implies #[trigger] self.group(g)[k1] < #[trigger] self.group(g)[k2] by {
                assert(self.endpoints@[g].block_senders.indexes@ == __mf[__r0[g].0]); }
        }
    """


def build(x):
    c = x.struct(FN, 'Coord'); c.text = '#[derive(Clone, Copy)]\n' + c.text
    re_ = x.struct(FN, 'ReceiverEndpoint'); re_.text = '#[derive(Clone, Copy)]\n' + re_.text
    bs = x.struct(FE, 'BlockSenders')
    ep = x.struct(F, 'Endpoint'); ep.text = '#[verifier::reject_recursive_types(Out)]\n' + ep.text
    st = x.struct(F, 'RoutingEnd')
    st.sub('V-SUBST', r'NextStrategy<Out, IndexFn>', 'NextStrategy<IndexFn>', detail='NextStrategy modelled by its variants', must=True)
    st.sub('V-ATTR', r'^\s*#\[derivative\([^\n]*\)\]\s*\n', '', detail='field-level derivative attributes dropped')
    st.text = '#[verifier::reject_recursive_types(Out)]\n#[verifier::reject_recursive_types(OperatorChain)]\n#[verifier::reject_recursive_types(IndexFn)]\n' + st.text
    pieces = [PRELUDE, c, re_, 'enum NextStrategy<IndexFn> { OnlyOne, Random, GroupBy(IndexFn), All }\n', bs, ep, st, SPEC_IMPL]
    ss = x.method(F, 'RoutingEnd', 'setup_endpoints')
    ss.add_spec(SETUP_SPEC)
    ss.sub('V-SUBST', r'self\.senders\.sort_unstable_by_key\(\|(\w+)\| \1\.0\);', 'sort_senders_by_endpoint(&mut self.senders);', detail='sort_unstable_by_key(|s| s.0) -> contracted stub (permutation)', must=True)
    rx = re.compile(r'let mut (?P<bm>\w+): HashMap<BlockId, Vec<usize>> =\s*self\s*\.senders\s*\.iter\(\)\s*\.enumerate\(\)\s*\.fold\(HashMap::new\(\), \|mut (?P<m>\w+), \((?P<i>\w+), (?P<s>\w+)\)\| \{(?P<body>.*?)\n\s*(?P=m)\s*\}\);', re.S)
    m = rx.search(ss.text)
    if not m:
        raise ScanError('setup_endpoints: the enumerate/fold chain was not found')
    bm, mp, i, sv, body = m.group('bm'), m.group('m'), m.group('i'), m.group('s'), m.group('body').strip()
    body = re.sub(r'\b' + mp + r'\.entry\(([^()]*(?:\([^()]*\))?[^()]*)\)\.or_default\(\)', mp + r'.entry_or_default(\1)', body)
    ss.text = ss.text[:m.start()] + FOLD_LOOP.format(bm=bm, mp=mp, i=i, sv=sv, body=body) + ss.text[m.end():]
    ss.note('V-ITER', 1, '`V.iter().enumerate().fold(HashMap::new(), |mut map, (i, s)| { B; map })` -> index loop running B (verbatim, `.entry(k).or_default()` -> entry_or_default(k)) over a map-view model')
    ss.bind('block_map', r'let mut (\w+) = \{ let mut \w+ = KMap::new\(\)')
    ss.sub('V-ITER', r'for \((\w+), (\w+)\) in self\.routes\.drain\(\.\.\) \{', DRAIN_LOOP, detail='`for (b, f) in self.routes.drain(..) {` -> pop-front loop', must=True)
    ss.sub('V-COMB', r'let (\w+)(?:\s*:\s*[^=;]+?)? = (\w+)\s*\.remove\(&(\w+)\)\s*\.expect\("[^"]*"\);', r'let \1 = match \2.remove(&\3) { Some(v) => v, None => panic_no_return_val() };',
           detail='`.expect(msg)` -> `match .. { Some(v) => v, None => panic }` (definition of expect; a panic does not return)', must=True)
    ss.desugar_assert()
    ss.sub('V-SPEC', r'(\{ let __c: bool = self\.routes\.is_empty\(\))', r'; proof { assert(self.endpoints@.len() == __r0.len()); } \1', detail='statement separator after the loop')
    ss.sub('V-SUBST', r'rust_panic\(\)', 'panic_no_return()', detail='a failed assert! panics and does not return (fail-stop): what it checks is a fact afterwards')
    src = ss.text
    last = src.rstrip().rfind('}')
    ss.text = src[:last] + FINAL_PROOF + src[last:]
    ss.text = ss.fmt(ss.text)
    pieces += ["impl<Out: ExchangeData, OperatorChain, IndexFn> RoutingEnd<Out, OperatorChain, IndexFn>\nwhere\n    IndexFn: KeyerFn<u64, Out>,\n    OperatorChain: Operator<Out = Out>,\n{", ss, "}"]
    return pieces
