"""C07 — the (local, global) closure pairs of the keyed aggregations Stream::group_by_{avg,sum,count} (src/operator/mod.rs):
folding a partition locally and merging the partial results globally gives the same accumulator as folding everything at
once (for an associative +), so the result does not depend on how the elements of a key are spread over the replicas."""
import os, re, sys
sys.path.insert(0, os.path.dirname(os.path.dirname(__file__)))
import std_specs as S
from engine.rsx import ScanError as S_ScanError

PROPERTIES = ["C07"]
MIN_VERIFIED = 15
F = 'src/operator/mod.rs'
ASSUMPTIONS = [
    "V-BLOCK: the bodies of the closures passed to group_by_fold by Stream::group_by_avg / group_by_sum / group_by_count are extracted byte for byte and wrapped in functions whose parameters are the closure's parameters (destructuring patterns kept as a `let`); the builder code around them (group_by_fold itself, the final `.map(..)` of avg/sum) is not under contract",
    "V-SUBST: `*x += e` on the user's value type V -> x.add_assign(e) on a model trait AddAssign with a spec function plus (Verus has no contract for overloaded `+=` on a generic type); plus is ASSUMED associative (the property's own hypothesis); usize `+=` is kept and checked for overflow (counts < 2^64: precondition)",
    "get_value is a total deterministic function (closure contract)",
    "group_by_max_element / group_by_min_element: the value type's `>` / `<` obey vstd's partial_cmp_spec (V::obeys_partial_cmp_spec(): assumed for the user's Ord type); that the order is total / transitive (needed for 'the result is THE maximum') is the user's obligation",
    "group_by_reduce / reduce / reduce_assoc: the user's reduce function is a total mathematical function rs(a, b) (assumed contract of the opaque closure); the captured f / f2 (a clone of f) become parameters of the wrapper functions",
]
PRELUDE = r'''
use vstd::std_specs::cmp::PartialOrdSpec;
trait AddAssign: Sized {
    spec fn plus(self, o: Self) -> Self;
    fn add_assign(&mut self, o: Self) ensures *final(self) == old(self).plus(o);
}
// sum of a non-empty prefix-ordered sequence with the user's +
spec fn total<V: AddAssign>(s: Seq<V>) -> Option<V>
    decreases s.len()
{
    if s.len() == 0 { None } else { match total(s.drop_last()) { None => Some(s.last()), Some(t) => Some(t.plus(s.last())) } }
}
spec fn merge<V: AddAssign>(a: Option<V>, b: Option<V>) -> Option<V> {
    match (a, b) { (None, x) => x, (Some(x), None) => Some(x), (Some(x), Some(y)) => Some(x.plus(y)) }
}
spec fn assoc<V: AddAssign>() -> bool { forall|a: V, b: V, c: V| #[trigger] a.plus(b).plus(c) == a.plus(#[trigger] b.plus(c)) }
// merging the totals of two runs == total of the concatenated run (for an associative +)
proof fn lemma_merge_totals<V: AddAssign>(a: Seq<V>, b: Seq<V>)
    requires assoc::<V>()
    ensures merge(total(a), total(b)) == total(a + b)                               // #obl:aggregators.merging_partials_equals_folding_everything
    decreases b.len()
{
    if b.len() == 0 { assert(a + b =~= a); }
    else {
        lemma_merge_totals(a, b.drop_last());
        assert((a + b).drop_last() =~= a + b.drop_last());
        assert((a + b).last() == b.last());
    }
}
'''


REDUCE_DEFS = r'''
// the user's reduce function as a mathematical function (ASSUMED contract of the opaque closure)
uninterp spec fn rs<I, F>(a: I, b: I) -> I;
#[verifier::prophetic]
spec fn red_ok<I, F: Fn(&mut I, I)>(f: F) -> bool {
    &&& forall|a: &mut I, b: I| f.requires((a, b))
    &&& forall|a: &mut I, b: I| #[trigger] f.ensures((a, b), ()) ==> *final(a) == rs::<I, F>(*a, b)
}
uninterp spec fn rs2<I, F>(a: I, b: I) -> I;
spec fn red2_ok<I, F: Fn(I, I) -> I>(f: F) -> bool {
    &&& forall|a: I, b: I| f.requires((a, b))
    &&& forall|a: I, b: I, r: I| #[trigger] f.ensures((a, b), r) ==> r == rs2::<I, F>(a, b)
}
'''


def closure_body(fr, header_rx):
    """(params match, body text) of the closure whose `|params|` header matches header_rx; the body is its block or, for an
    expression-bodied closure, the expression up to the end of the argument."""
    m = re.search(header_rx, fr.text)
    if m is None:
        raise S_ScanError(f"{fr.what}: closure `{header_rx}` not found")
    s = fr._src()
    i = m.end()
    while fr.text[i] in ' \n\t':
        i += 1
    if fr.text[i] == '{':
        cb = s.match_close(i)
        return m, fr.text[i + 1:cb]
    depth = 0
    j = i
    while j < len(fr.text):
        ch = fr.text[j]
        if s.mask[j]:
            if ch in '([{':
                depth += 1
            elif ch in ')]}':
                if depth == 0:
                    break
                depth -= 1
            elif ch == ',' and depth == 0:
                break
        j += 1
    return m, '    ' + fr.text[i:j]


def wrap(fr, name, sig, spec, pre, body, counts=()):
    t = (f"fn {name}{sig}\n{spec}{{\n{pre}{body}\n}}\n")
    # `*x += e` on the user's value type -> x.add_assign(e); the usize counters (names in `counts`) keep their `+=`
    t = re.sub(r'\*(\w+) \+= ([^;,\n]+?)(?=\s*[;,\n])', lambda m: m.group(0) if m.group(1) in counts else f"{m.group(1)}.add_assign({m.group(2)})", t)
    return t


def build(x):
    pieces = [PRELUDE]
    # ---- group_by_avg
    av = x.method(F, 'Stream', 'group_by_avg')
    m1, b1 = closure_body(av, r'move \|\((\w+), (\w+)\), (\w+)\|')
    m2, b2 = closure_body(av, r'\|\((\w+), (\w+)\), \((\w+), (\w+)\)\|')
    av.text = (wrap(av, 'avg_local', '<T, V: AddAssign, Fv: Fn(&T) -> V>(get_value: Fv, acc: &mut (Option<V>, usize), %s: T)' % m1.group(3),
                    '''    requires old(acc).1 < usize::MAX, forall|t: &T| get_value.requires((t,)),
        forall|t: &T, v1: V, v2: V| #[trigger] get_value.ensures((t,), v1) && #[trigger] get_value.ensures((t,), v2) ==> v1 == v2,
    ensures final(acc).1 == old(acc).1 + 1,
        forall|v: V| #[trigger] get_value.ensures((&%s,), v) ==> final(acc).0 == merge(old(acc).0, Some(v)),     // #obl:avg.local_adds_one_value_and_counts_it
''' % m1.group(3), '    let (%s, %s) = acc;\n' % (m1.group(1), m1.group(2)), b1, counts=(m1.group(2),))
               + wrap(av, 'avg_global', '<V: AddAssign>(acc: &mut (Option<V>, usize), part: (Option<V>, usize))',
                      '''    requires old(acc).1 + part.1 <= usize::MAX,
    ensures final(acc).1 == old(acc).1 + part.1,                                                      // #obl:avg.global_adds_the_partial_counts
        final(acc).0 == merge(old(acc).0, part.0),                                                        // #obl:avg.global_merges_the_partial_sums
''', '    let (%s, %s) = acc;\n    let (%s, %s) = part;\n' % (m2.group(1), m2.group(2), m2.group(3), m2.group(4)), b2, counts=(m2.group(2),)))
    av.note('V-BLOCK', 2, 'closure bodies of group_by_avg extracted and wrapped in functions of the closure parameters')
    pieces.append(av)
    # ---- group_by_sum
    su = x.method(F, 'Stream', 'group_by_sum')
    m3, b3 = closure_body(su, r'move \|(\w+), (\w+)\|')
    m4, b4 = closure_body(su, r'\n\s*\|(\w+), (\w+)\|')
    su.text = (wrap(su, 'sum_local', '<T, V: AddAssign, Fv: Fn(T) -> V>(get_value: Fv, %s: &mut Option<V>, %s: T)' % (m3.group(1), m3.group(2)),
                    '''    requires forall|t: T| get_value.requires((t,)),
        forall|t: T, v1: V, v2: V| #[trigger] get_value.ensures((t,), v1) && #[trigger] get_value.ensures((t,), v2) ==> v1 == v2,
    ensures forall|v: V| #[trigger] get_value.ensures((%s,), v) ==> *final(%s) == merge(*old(%s), Some(v)),     // #obl:sum.local_adds_one_value
''' % (m3.group(2), m3.group(1), m3.group(1)), '', b3)
               + wrap(su, 'sum_global', '<V: AddAssign>(%s: &mut Option<V>, %s: Option<V>)' % (m4.group(1), m4.group(2)),
                      '''    ensures *final(%s) == merge(*old(%s), %s),                                                   // #obl:sum.global_merges_the_partial_sums
''' % (m4.group(1), m4.group(1), m4.group(2)), '', b4))
    su.note('V-BLOCK', 2, 'closure bodies of group_by_sum extracted and wrapped in functions of the closure parameters')
    pieces.append(su)
    # ---- group_by_count
    co = x.method(F, 'Stream', 'group_by_count')
    m5 = re.search(r'move \|(\w+), _\w*\| ([^,\n]+),', co.text)
    m6 = re.search(r'\n\s*\|(\w+), (\w+)\| ([^,\n]+),', co.text)
    if m5 is None or m6 is None:
        raise S_ScanError('group_by_count: closures not found')
    co.text = (f"fn count_local({m5.group(1)}: &mut usize)\n    requires *old({m5.group(1)}) < usize::MAX\n    ensures *final({m5.group(1)}) == *old({m5.group(1)}) + 1,   // #obl:count.local_counts_one\n{{ {m5.group(2)}; }}\n"
               f"fn count_global({m6.group(1)}: &mut usize, {m6.group(2)}: usize)\n    requires *old({m6.group(1)}) + {m6.group(2)} <= usize::MAX\n    ensures *final({m6.group(1)}) == *old({m6.group(1)}) + {m6.group(2)},   // #obl:count.global_adds_the_partial_counts\n{{ {m6.group(3)}; }}\n")
    co.note('V-BLOCK', 2, 'closure bodies of group_by_count extracted and wrapped in functions of the closure parameters')
    pieces.append(co)

    # ---- group_by_reduce: reduce expressed as a fold over Option (local) and a merge of the partial results (global)
    gr = x.method(F, 'Stream', 'group_by_reduce')
    m7, b7 = closure_body(gr, r'move \|(\w+), (\w+)\|')
    i2 = gr.text.index(m7.group(0)) + len(m7.group(0))
    m8 = re.search(r'move \|(\w+), (\w+)\|', gr.text[i2:])
    if m8 is None:
        raise S_ScanError('group_by_reduce: global closure not found')
    tmp_text = gr.text
    gr.text = gr.text[i2:]
    m8, b8 = closure_body(gr, r'move \|(\w+), (\w+)\|')
    gr.text = (REDUCE_DEFS
               + f"fn reduce_local<I, F: Fn(&mut I, I)>(f: F, {m7.group(1)}: &mut Option<I>, {m7.group(2)}: I)\n"
                 f"    requires red_ok::<I, F>(f),\n"
                 f"    ensures *final({m7.group(1)}) == Some(match *old({m7.group(1)}) {{ None => {m7.group(2)}, Some(a) => rs::<I, F>(a, {m7.group(2)}) }}),   // #obl:reduce.local_first_value_starts_then_f_folds\n"
                 f"{{\n    {b7.strip()}\n}}\n"
               + f"fn reduce_global<I, F: Fn(&mut I, I)>(f2: F, {m8.group(1)}: &mut Option<I>, {m8.group(2)}: Option<I>)\n"
                 f"    requires red_ok::<I, F>(f2),\n"
                 f"    ensures *final({m8.group(1)}) == (match (*old({m8.group(1)}), {m8.group(2)}) {{ (None, x) => x, (Some(a), None) => Some(a), (Some(a), Some(b)) => Some(rs::<I, F>(a, b)) }}),   // #obl:reduce.global_merges_the_partial_results\n"
                 f"{{\n    {b8.strip()}\n}}\n")
    gr.note('V-BLOCK', 2, 'closure bodies of group_by_reduce extracted and wrapped in functions of the closure parameters (the captured user function f / f2 becomes a parameter)')
    pieces.append(gr)

    # ---- group_by_max_element / group_by_min_element: the reduce function keeps the element with the greater / smaller value
    for nm, ordering, word in (('group_by_max_element', 'Greater', 'greater'), ('group_by_min_element', 'Less', 'smaller')):
        mf = x.method(F, 'Stream', nm)
        mc, bc = closure_body(mf, r'move \|(\w+), (\w+)\|')
        o, vv = mc.group(1), mc.group(2)
        mf.text = (f"fn {nm}_step<T, V: Ord, Fv: Fn(&T) -> V>(get_value: Fv, {o}: &mut T, {vv}: T)\n"
                   f"    requires V::obeys_partial_cmp_spec(), forall|t: &T| get_value.requires((t,)),\n"
                   f"        forall|t: &T, v1: V, v2: V| #[trigger] get_value.ensures((t,), v1) && #[trigger] get_value.ensures((t,), v2) ==> v1 == v2,\n"
                   f"    ensures forall|a: V, b: V| #[trigger] get_value.ensures((&{vv},), a) && #[trigger] get_value.ensures((&*old({o}),), b) ==>\n"
                   f"        *final({o}) == (if a.partial_cmp_spec(&b) == Some(core::cmp::Ordering::{ordering}) {{ {vv} }} else {{ *old({o}) }}),   // #obl:{nm[9:]}.keeps_the_element_with_the_{word}_value\n"
                   f"{{\n    {bc.strip()}\n}}\n")
        mf.note('V-BLOCK', 1, f'closure body of {nm} extracted and wrapped in a function of the closure parameters (the captured get_value becomes a parameter)')
        pieces.append(mf)

    # ---- reduce / reduce_assoc (global forms, user function Fn(I, I) -> I)
    rd = x.method(F, 'Stream', 'reduce')
    m9, b9 = closure_body(rd, r'move \|(\w+), (\w+)\|')
    rd.text = (f"fn reduce_step<I, F: Fn(I, I) -> I>(f: F, {m9.group(1)}: &mut Option<I>, {m9.group(2)}: I)\n"
               f"    requires red2_ok::<I, F>(f),\n"
               f"    ensures *final({m9.group(1)}) == Some(match *old({m9.group(1)}) {{ None => {m9.group(2)}, Some(a) => rs2::<I, F>(a, {m9.group(2)}) }}),   // #obl:reduce.step_first_value_starts_then_f_folds\n"
               f"{{\n    {b9.strip()}\n}}\n")
    rd.note('V-BLOCK', 1, 'closure body of Stream::reduce extracted and wrapped in a function of the closure parameters')
    pieces.append(rd)
    ra = x.method(F, 'Stream', 'reduce_assoc')
    m10 = re.search(r'move \|(\w+), (\w+)\| (\*\1 = [^\n]*),\n', ra.text)
    m11, b11 = closure_body(ra, r'move \|(\w+), mut (\w+)\|')
    if m10 is None:
        raise S_ScanError('reduce_assoc: local closure not found')
    ra.text = (f"fn reduce_assoc_local<I, F: Fn(I, I) -> I>(f: F, {m10.group(1)}: &mut Option<I>, {m10.group(2)}: I)\n"
               f"    requires red2_ok::<I, F>(f),\n"
               f"    ensures *final({m10.group(1)}) == Some(match *old({m10.group(1)}) {{ None => {m10.group(2)}, Some(a) => rs2::<I, F>(a, {m10.group(2)}) }}),   // #obl:reduce_assoc.local_first_value_starts_then_f_folds\n"
               f"{{\n    {m10.group(3)};\n}}\n"
               + f"fn reduce_assoc_global<I, F: Fn(I, I) -> I>(f2: F, {m11.group(1)}: &mut Option<I>, {m11.group(2)}: Option<I>)\n"
                 f"    requires red2_ok::<I, F>(f2),\n"
                 f"    ensures *final({m11.group(1)}) == (match (*old({m11.group(1)}), {m11.group(2)}) {{ (None, x) => x, (Some(a), None) => Some(a), (Some(a), Some(b)) => Some(rs2::<I, F>(a, b)) }}),   // #obl:reduce_assoc.global_merges_the_partial_results\n"
                 f"{{\n    let mut {m11.group(2)} = {m11.group(2)};\n    {b11.strip()}\n}}\n")
    ra.note('V-BLOCK', 2, 'closure bodies of Stream::reduce_assoc extracted and wrapped in functions of the closure parameters')
    pieces.append(ra)
    return pieces
