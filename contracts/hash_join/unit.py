"""C08 (narrowed: the local hash join) — JoinLocalHash::{add_item, side_ended} and JoinVariant::{left_outer,right_outer}
(src/operator/join/local_hash.rs, src/operator/join/mod.rs).

Per-call contracts over the abstract state of a side (data: key -> elements kept for future matches, keys: keys seen,
ended):
  add_item    an arriving element is paired, in order, with every element the other side has stored under its key; if
              there is none and the other side has already ended (outer variant) it is emitted once padded with None;
              it is remembered for future matches iff the other side has not ended; its key is recorded iff the other
              side is outer.
  side_ended  when a side ends, every element the other side has stored under a key this side has never seen is
              emitted once padded with None (outer variant), the other side's store is emptied, this side is ended.
The all-interleavings statement for the inner pairs (each matching pair exactly once, whatever the arrival order) is the
lemma lemma_inner_history over these two relations."""
import os, re, sys
sys.path.insert(0, os.path.dirname(os.path.dirname(__file__)))
import std_specs as S

PROPERTIES = ["C08"]
MIN_VERIFIED = 16
F = 'src/operator/join/local_hash.rs'
FJ = 'src/operator/join/mod.rs'
ASSUMPTIONS = [
    "std HashMap<Key, Vec<Out>> / HashSet<Key> modelled by their map / set views (KMap, KSet): get, `.entry(k).or_default()` -> entry_or_default(k), drain() -> drain_all() returning the entries in an ARBITRARY order (distinct keys, covering the map), clear, insert, contains, is_empty; Key equality is spec equality (Eq/Hash agree with it)",
    "make_pair / the keyers are total functions (closure contracts); Clone yields an equal value (axiom_data_clone)",
    "V-ITER: `for x in &vec` / `for x in vec` / `for (k, v) in map.drain()` -> index loops over the vector / the drained entries",
    "R-PROTO-BIN (environment of JoinLocalHash::next): the two-input start delivers, per iteration, elements of a side only before that side's end marker, each end marker once, FlushAndRestart/Terminate only after both, no timestamped elements/watermarks (the operator panics on them by design), and fewer than 2^64 elements in total (the per-side counters, used only for logging, do not overflow); the keyers are deterministic total functions",
    "the ship strategy (both sides hashed with the same key hash, ship.rs) and the two-input receiver's LeftEnd/RightEnd markers are outside this unit (the markers: unit binary_select)",
]
PRELUDE = r'''
use std::collections::VecDeque;
trait Data: Clone + Send + 'static {}
trait ExchangeData: Data {}
trait DataKey: Clone + Send + 'static {}
type OuterJoinTuple<Out1, Out2> = (Option<Out1>, Option<Out2>);
type BlockId = u64; type HostId = u64; type ReplicaId = u64; type Timestamp = i64;
trait KeyerFn<Key, Out>: Fn(&Out) -> Key {}
impl<Key, Out, T: Fn(&Out) -> Key> KeyerFn<Key, Out> for T {}
trait Operator: Sized {
    type Out;
    spec fn hist(&self) -> Seq<StreamElement<Self::Out>>;
    // what the environment promises about the sequence this operator delivers (R-PROTO-BIN for the two-input start)
    spec fn proto_ok(h: Seq<StreamElement<Self::Out>>) -> bool;
    fn next(&mut self) -> (r: StreamElement<Self::Out>)
        ensures final(self).hist() == old(self).hist().push(r),
                Self::proto_ok(old(self).hist()) ==> Self::proto_ok(final(self).hist());
}
broadcast use trusted_axioms::axiom_data_clone;

// ---- std HashMap<K, Vec<V>> by its map view
#[verifier::external_body]
#[verifier::reject_recursive_types(K)]
#[verifier::accept_recursive_types(V)]
struct KMap<K, V> { _p: core::marker::PhantomData<(K, V)> }
impl<K, V> KMap<K, V> {
    uninterp spec fn view(&self) -> Map<K, Seq<V>>;
    #[verifier::external_body]
    fn get(&self, k: &K) -> (r: Option<&Vec<V>>)
        ensures (r matches Some(v) ==> self@.contains_key(*k) && v@ == self@[*k]), (r is None ==> !self@.contains_key(*k)),
    { unimplemented!() }
    #[verifier::external_body]
    fn entry_or_default(&mut self, k: K) -> (r: &mut Vec<V>)
        ensures r@ == (if old(self)@.contains_key(k) { old(self)@[k] } else { Seq::<V>::empty() }),
                final(self)@ == old(self)@.insert(k, final(r)@),
    { unimplemented!() }
    // HashMap::drain(): every entry once, in an arbitrary order; the map is left empty
    #[verifier::external_body]
    fn drain_all(&mut self) -> (r: Vec<(K, Vec<V>)>)
        ensures final(self)@ =~= Map::<K, Seq<V>>::empty(),
            forall|i: int, j: int| 0 <= i < j < r@.len() ==> (#[trigger] r@[i]).0 != (#[trigger] r@[j]).0,
            forall|i: int| 0 <= i < r@.len() ==> old(self)@.contains_key((#[trigger] r@[i]).0) && r@[i].1@ == old(self)@[r@[i].0],
            forall|k: K| old(self)@.contains_key(k) ==> exists|i: int| 0 <= i < r@.len() && (#[trigger] r@[i]).0 == k,
    { unimplemented!() }
    #[verifier::external_body]
    fn clear(&mut self) ensures final(self)@ =~= Map::<K, Seq<V>>::empty() { unimplemented!() }
    #[verifier::external_body]
    fn is_empty(&self) -> (r: bool) ensures r == (self@.dom() =~= Set::<K>::empty()) { unimplemented!() }
}
#[verifier::external_body]
#[verifier::reject_recursive_types(K)]
struct KSet<K> { _p: core::marker::PhantomData<K> }
impl<K> KSet<K> {
    uninterp spec fn view(&self) -> Set<K>;
    #[verifier::external_body]
    fn insert(&mut self, k: K) -> (r: bool) ensures final(self)@ == old(self)@.insert(k) { unimplemented!() }
    #[verifier::external_body]
    fn contains(&self, k: &K) -> (r: bool) ensures r == self@.contains(*k) { unimplemented!() }
    #[verifier::external_body]
    fn clear(&mut self) ensures final(self)@ =~= Set::<K>::empty() { unimplemented!() }
    #[verifier::external_body]
    fn is_empty(&self) -> (r: bool) ensures r == (self@ =~= Set::<K>::empty()) { unimplemented!() }
}

spec fn seconds<K, T>(e: Seq<(K, T)>) -> Seq<T> { Seq::new(e.len(), |i: int| e[i].1) }
// elements stored under k (none if the key is absent)
spec fn at<K, V>(m: Map<K, Seq<V>>, k: K) -> Seq<V> { if m.contains_key(k) { m[k] } else { Seq::empty() } }
// the tuples of `e` whose key is k, in order
spec fn proj<K, T>(e: Seq<(K, T)>, k: K) -> Seq<T>
    decreases e.len()
{
    if e.len() == 0 { Seq::empty() } else if e.last().0 == k { proj(e.drop_last(), k).push(e.last().1) } else { proj(e.drop_last(), k) }
}
proof fn lemma_proj_push<K, T>(e: Seq<(K, T)>, x: (K, T), k: K)
    ensures proj(e.push(x), k) == (if x.0 == k { proj(e, k).push(x.1) } else { proj(e, k) })
{
    assert(e.push(x).drop_last() =~= e);
}
proof fn lemma_proj_concat<K, T>(a: Seq<(K, T)>, b: Seq<(K, T)>, k: K)
    ensures proj(a + b, k) =~= proj(a, k) + proj(b, k)
    decreases b.len()
{
    if b.len() == 0 { assert(a + b =~= a); }
    else {
        assert((a + b).drop_last() =~= a + b.drop_last());
        lemma_proj_concat(a, b.drop_last(), k);
    }
}
'''

SIDE_SPEC = r'''
impl<Key: DataKey, Out> SideHashMap<Key, Out> {
    spec fn same_but_data_keys_count(&self, o: &Self) -> bool { self.ended == o.ended }
}
// `out` pairs `item` (on the caller's left) with each element of `others`, in order
spec fn paired<F, A, B, T>(mp: F, item: A, others: Seq<B>, out: Seq<T>) -> bool
    where F: Fn(Option<A>, Option<B>) -> T
{
    out.len() == others.len() && forall|i: int| 0 <= i < out.len() ==> mp.ensures((Some(item), Some(others[i])), #[trigger] out[i])
}
// `out` is each element of `others` padded with None on the caller's left, in order
spec fn padded_right<F, A, B, T>(mp: F, others: Seq<B>, out: Seq<T>) -> bool
    where F: Fn(Option<A>, Option<B>) -> T
{
    out.len() == others.len() && forall|i: int| 0 <= i < out.len() ==> mp.ensures((None::<A>, Some(others[i])), #[trigger] out[i])
}
'''

ADD_ITEM_SPEC = r'''
        requires
            forall|a: Option<OutL>, b: Option<OutR>| make_pair.requires((a, b)),
            old(left).count < usize::MAX,
        ensures
            *final(right) == *old(right),                                                                                     // #obl:add_item.other_side_untouched
            final(left).ended == old(left).ended && final(left).count == old(left).count + 1,
            // ---- what is emitted: the tuples appended to the buffer all carry the element's key ...
            final(buffer)@.len() >= old(buffer)@.len() && final(buffer)@.take(old(buffer)@.len() as int) =~= old(buffer)@,
            forall|i: int| old(buffer)@.len() <= i < final(buffer)@.len() ==> (#[trigger] final(buffer)@[i]).0 == kv.0,
            // ... and are: one pair per element stored on the other side under that key, in order;
            old(right).data@.contains_key(kv.0) ==>
                paired(make_pair, kv.1, old(right).data@[kv.0], seconds(final(buffer)@.skip(old(buffer)@.len() as int))),  // #obl:add_item.pairs_with_every_stored_match_once
            // else the element padded with None, iff the other side has already ended and this side is outer;
            !old(right).data@.contains_key(kv.0) && old(right).ended && left_outer ==>
                final(buffer)@.len() == old(buffer)@.len() + 1 && make_pair.ensures((Some(kv.1), None::<OutR>), final(buffer)@.last().1),   // #obl:add_item.unmatched_after_other_end_padded_once
            // else nothing
            !old(right).data@.contains_key(kv.0) && !(old(right).ended && left_outer) ==> final(buffer)@ =~= old(buffer)@,   // #obl:add_item.nothing_emitted_otherwise
            // ---- what is remembered
            final(left).keys@ == (if right_outer { old(left).keys@.insert(kv.0) } else { old(left).keys@ }),                  // #obl:add_item.key_recorded_for_the_outer_side
            final(left).data@ == (if !old(right).ended { old(left).data@.insert(kv.0, at(old(left).data@, kv.0).push(kv.1)) } else { old(left).data@ }),   // #obl:add_item.stored_for_future_matches_iff_other_side_open
'''

ADD_LOOP = r'''
                invariant
                    __i <= §matching§@.len(), §matching§@ == right0.data@[key], right0.data@.contains_key(key),
                    forall|a: Option<OutL>, b: Option<OutR>| make_pair.requires((a, b)),
                    buffer@.len() == old(buffer)@.len() + __i, buffer@.take(old(buffer)@.len() as int) =~= old(buffer)@,
                    forall|i: int| old(buffer)@.len() <= i < buffer@.len() ==> (#[trigger] buffer@[i]).0 == key,
                    forall|i: int| 0 <= i < __i ==> make_pair.ensures((Some(item), Some(§matching§@[i])), (#[trigger] buffer@[old(buffer)@.len() + i]).1),
                decreases §matching§@.len() - __i,
'''

SIDE_ENDED_DEFS = r"""
// what the first g drained entries contribute under key k: the stored elements of the entry with that key, unless the
// ending side has seen the key
spec fn expected<K, V>(d: Seq<(K, Vec<V>)>, keys: Set<K>, g: int, k: K) -> Seq<V>
    decreases g
{
    if g <= 0 { Seq::empty() } else if d[g - 1].0 == k && !keys.contains(k) { d[g - 1].1@ } else { expected(d, keys, g - 1, k) }
}
// an entry's key is distinct from the keys of the entries before it: nothing expected under it yet
proof fn lemma_expected_fresh<K, V>(d: Seq<(K, Vec<V>)>, keys: Set<K>, g: int, e: int)
    requires 0 <= g <= e < d.len(), forall|i: int, j: int| 0 <= i < j < d.len() ==> (#[trigger] d[i]).0 != (#[trigger] d[j]).0,
    ensures expected(d, keys, g, d[e].0) =~= Seq::<V>::empty(),
    decreases g
{
    if g > 0 { lemma_expected_fresh(d, keys, g - 1, e); assert(d[g - 1].0 != d[e].0); }
}
proof fn lemma_expected_is_map<K, V>(d: Seq<(K, Vec<V>)>, m: Map<K, Seq<V>>, keys: Set<K>, g: int, k: K)
    requires 0 <= g <= d.len(),
        forall|i: int, j: int| 0 <= i < j < d.len() ==> (#[trigger] d[i]).0 != (#[trigger] d[j]).0,
        forall|i: int| 0 <= i < d.len() ==> m.contains_key((#[trigger] d[i]).0) && d[i].1@ == m[d[i].0],
    ensures
        expected(d, keys, g, k) == (if !keys.contains(k) && (exists|i: int| 0 <= i < g && (#[trigger] d[i]).0 == k) { m[k] } else { Seq::<V>::empty() }),
    decreases g
{
    if g > 0 {
        lemma_expected_is_map(d, m, keys, g - 1, k);
        if d[g - 1].0 == k { assert(d[g - 1].1@ == m[k]); }
        else if exists|i: int| 0 <= i < g && (#[trigger] d[i]).0 == k {
            let i = choose|i: int| 0 <= i < g && (#[trigger] d[i]).0 == k;
            assert(i < g - 1);
        }
    }
}
"""
SIDE_ENDED_SPEC = r"""
        requires forall|a: Option<OutL>, b: Option<OutR>| make_pair.requires((a, b)),
        ensures
            final(left).ended && final(left).keys@ =~= Set::<Key>::empty() && final(left).data == old(left).data && final(left).count == old(left).count,   // #obl:side_ended.side_marked_ended
            final(right).data@ =~= Map::<Key, Seq<OutR>>::empty(),                                                             // #obl:side_ended.other_side_store_emptied
            final(right).ended == old(right).ended && final(right).keys == old(right).keys && final(right).count == old(right).count,
            final(buffer)@.len() >= old(buffer)@.len() && final(buffer)@.take(old(buffer)@.len() as int) =~= old(buffer)@,
            !right_outer ==> final(buffer)@ =~= old(buffer)@,                                                                  // #obl:side_ended.inner_side_emits_nothing
            // outer: under every key the ending side has never seen, each element the other side has stored is emitted
            // once padded with None, in order; nothing under any other key
            right_outer ==> forall|k: Key| padded_right(make_pair,
                    if old(right).data@.contains_key(k) && !old(left).keys@.contains(k) { old(right).data@[k] } else { Seq::<OutR>::empty() },
                    #[trigger] proj(final(buffer)@.skip(old(buffer)@.len() as int), k)),                                        // #obl:side_ended.unmatched_of_other_side_padded_once
"""
SE_OUTER = r"""
                invariant
                    forall|a: Option<OutL>, b: Option<OutR>| make_pair.requires((a, b)),
                    __d@.len() <= d0.len(), __d@ =~= d0.skip(d0.len() - __d@.len()),
                    *left == *old(left), right.ended == old(right).ended && right.keys == old(right).keys && right.count == old(right).count,
                    right.data@ =~= Map::<Key, Seq<OutR>>::empty(),
                    n0 == old(buffer)@.len(), buffer@.len() >= n0 && buffer@.take(n0) =~= old(buffer)@,
                    forall|i: int, j: int| 0 <= i < j < d0.len() ==> (#[trigger] d0[i]).0 != (#[trigger] d0[j]).0,
                    forall|k: Key| padded_right(make_pair, expected(d0, left.keys@, d0.len() - __d@.len(), k), #[trigger] proj(buffer@.skip(n0), k)),   // #obl:side_ended.each_drained_entry_padded_once_unless_key_seen
                decreases __d@.len(),
"""
SE_INNER = r"""
                        invariant
                            forall|a: Option<OutL>, b: Option<OutR>| make_pair.requires((a, b)),
                            0 <= j <= v0.len(), __r@ =~= v0.skip(j as int), key == d0[g].0, 0 <= g < d0.len(), g == d0.len() - __d@.len() - 1,
                            *left == *old(left), !left.keys@.contains(key),
                            n0 == old(buffer)@.len(), buffer@.len() >= n0 && buffer@.take(n0) =~= old(buffer)@,
                            padded_right(make_pair, v0.take(j as int), proj(buffer@.skip(n0), key)),
                            forall|k: Key| k != key ==> #[trigger] proj(buffer@.skip(n0), k) == proj(b1.skip(n0), k),
                        decreases __r@.len(),
"""

NEXT_DEFS = r"""
// ---- abstract view of the operator and the relation one input element induces on it
struct SideV<K, V> { data: Map<K, Seq<V>>, keys: Set<K>, ended: bool }
struct JV<K, A, B> { l: SideV<K, A>, r: SideV<K, B>, buf: Seq<(K, (Option<A>, Option<B>))> }
spec fn sv<K: DataKey, V>(s: SideHashMap<K, V>) -> SideV<K, V> { SideV { data: s.data@, keys: s.keys@, ended: s.ended } }

// a left element (k, a) arrives; lo / ro = the join keeps unmatched left / right elements
spec fn arrive_l<K, A, B>(o: JV<K, A, B>, n: JV<K, A, B>, k: K, a: A, lo: bool, ro: bool) -> bool {
    &&& n.r == o.r && n.l.ended == o.l.ended
    &&& n.l.keys == (if ro { o.l.keys.insert(k) } else { o.l.keys })
    &&& n.l.data == (if !o.r.ended { o.l.data.insert(k, at(o.l.data, k).push(a)) } else { o.l.data })
    &&& n.buf =~= o.buf + (if o.r.data.contains_key(k) { Seq::new(o.r.data[k].len(), |i: int| (k, (Some(a), Some(o.r.data[k][i])))) }
                           else if o.r.ended && lo { seq![(k, (Some(a), None::<B>))] } else { Seq::empty() })
}
spec fn arrive_r<K, A, B>(o: JV<K, A, B>, n: JV<K, A, B>, k: K, b: B, lo: bool, ro: bool) -> bool {
    &&& n.l == o.l && n.r.ended == o.r.ended
    &&& n.r.keys == (if lo { o.r.keys.insert(k) } else { o.r.keys })
    &&& n.r.data == (if !o.l.ended { o.r.data.insert(k, at(o.r.data, k).push(b)) } else { o.r.data })
    &&& n.buf =~= o.buf + (if o.l.data.contains_key(k) { Seq::new(o.l.data[k].len(), |i: int| (k, (Some(o.l.data[k][i]), Some(b)))) }
                           else if o.l.ended && ro { seq![(k, (None::<A>, Some(b)))] } else { Seq::empty() })
}
// the left side ends: the unmatched right elements are emitted (outer join only), the right store is dropped
spec fn end_l<K, A, B>(o: JV<K, A, B>, n: JV<K, A, B>, ro: bool) -> bool {
    &&& n.l.ended && n.l.keys =~= Set::<K>::empty() && n.l.data == o.l.data
    &&& n.r.data =~= Map::<K, Seq<B>>::empty() && n.r.keys == o.r.keys && n.r.ended == o.r.ended
    &&& n.buf.len() >= o.buf.len() && n.buf.take(o.buf.len() as int) =~= o.buf
    &&& (!ro ==> n.buf =~= o.buf)
    &&& (ro ==> forall|k: K| #[trigger] proj(n.buf.skip(o.buf.len() as int), k)
            =~= (if o.r.data.contains_key(k) && !o.l.keys.contains(k) { Seq::new(o.r.data[k].len(), |i: int| (None::<A>, Some(o.r.data[k][i]))) } else { Seq::empty() }))
}
spec fn end_r<K, A, B>(o: JV<K, A, B>, n: JV<K, A, B>, lo: bool) -> bool {
    &&& n.r.ended && n.r.keys =~= Set::<K>::empty() && n.r.data == o.r.data
    &&& n.l.data =~= Map::<K, Seq<A>>::empty() && n.l.keys == o.l.keys && n.l.ended == o.l.ended
    &&& n.buf.len() >= o.buf.len() && n.buf.take(o.buf.len() as int) =~= o.buf
    &&& (!lo ==> n.buf =~= o.buf)
    &&& (lo ==> forall|k: K| #[trigger] proj(n.buf.skip(o.buf.len() as int), k)
            =~= (if o.l.data.contains_key(k) && !o.r.keys.contains(k) { Seq::new(o.l.data[k].len(), |i: int| (Some(o.l.data[k][i]), None::<B>)) } else { Seq::empty() }))
}
// the keyers are pure functions: key_of is THE key of an element
spec fn key_of<A, K, F: Fn(&A) -> K>(f: F, a: A) -> K { choose|k: K| f.ensures((&a,), k) }
spec fn deterministic<A, K, F: Fn(&A) -> K>(f: F) -> bool { forall|a: &A, k1: K, k2: K| #[trigger] f.ensures((a,), k1) && #[trigger] f.ensures((a,), k2) ==> k1 == k2 }
// one element pulled from the two-input start
spec fn jl_step<K, A: Data, B: Data, F1: Fn(&A) -> K, F2: Fn(&B) -> K>(k1: F1, k2: F2, lo: bool, ro: bool, o: JV<K, A, B>, e: StreamElement<BinaryElement<A, B>>, n: JV<K, A, B>) -> bool {
    match e {
        StreamElement::Item(BinaryElement::Left(a)) => arrive_l(o, n, key_of(k1, a), a, lo, ro),
        StreamElement::Item(BinaryElement::Right(b)) => arrive_r(o, n, key_of(k2, b), b, lo, ro),
        StreamElement::Item(BinaryElement::LeftEnd) => end_l(o, n, ro),
        StreamElement::Item(BinaryElement::RightEnd) => end_r(o, n, lo),
        _ => n == o,
    }
}
spec fn reach<K, A: Data, B: Data, F1: Fn(&A) -> K, F2: Fn(&B) -> K>(k1: F1, k2: F2, lo: bool, ro: bool, s0: JV<K, A, B>, evs: Seq<StreamElement<BinaryElement<A, B>>>, s1: JV<K, A, B>) -> bool
    decreases evs.len()
{
    if evs.len() == 0 { s0 == s1 } else {
        exists|m: JV<K, A, B>| reach(k1, k2, lo, ro, s0, evs.drop_last(), m) && #[trigger] jl_step(k1, k2, lo, ro, m, evs.last(), s1)
    }
}
// R-PROTO-BIN: what the two-input start delivers within one iteration: elements of a side only before its end marker,
// each end marker once, FlushAndRestart / Terminate only after both, no timestamps
spec fn pstate<A: Data, B: Data>(h: Seq<StreamElement<BinaryElement<A, B>>>) -> Option<(bool, bool)>
    decreases h.len()
{
    if h.len() == 0 { Some((false, false)) } else {
        match pstate(h.drop_last()) {
            None => None,
            Some((le, re)) => match h.last() {
                StreamElement::Item(BinaryElement::Left(_)) => if le { None } else { Some((le, re)) },
                StreamElement::Item(BinaryElement::Right(_)) => if re { None } else { Some((le, re)) },
                StreamElement::Item(BinaryElement::LeftEnd) => if le { None } else { Some((true, re)) },
                StreamElement::Item(BinaryElement::RightEnd) => if re { None } else { Some((le, true)) },
                StreamElement::FlushAndRestart => if le && re { Some((false, false)) } else { None },
                StreamElement::Terminate => if !le && !re { Some((le, re)) } else { None },
                StreamElement::FlushBatch => Some((le, re)),
                _ => None,
            },
        }
    }
}
"""
NEXT_IMPL_SPEC = r"""
    spec fn jv(&self) -> JV<Key, Out1, Out2> { JV { l: sv(self.left), r: sv(self.right), buf: self.buffer@ } }
    spec fn wf(&self) -> bool {
        &&& pstate(self.prev.hist()) is Some
        &&& self.left.ended == (pstate(self.prev.hist())->0).0 && self.right.ended == (pstate(self.prev.hist())->0).1
        // what the asserts at FlushAndRestart rely on
        &&& (self.left.ended ==> self.left.keys@ =~= Set::<Key>::empty() && self.right.data@ =~= Map::<Key, Seq<Out2>>::empty())
        &&& (self.right.ended ==> self.right.keys@ =~= Set::<Key>::empty() && self.left.data@ =~= Map::<Key, Seq<Out1>>::empty())
        // the element counters (only logged) are bounded by the number of elements pulled
        &&& self.left.count <= self.prev.hist().len() && self.right.count <= self.prev.hist().len()
    }
"""
NEXT_SPEC = r"""
        requires
            old(self).wf(),
            forall|a: &Out1| old(self).keyer1.requires((a,)), forall|b: &Out2| old(self).keyer2.requires((b,)),
            deterministic(old(self).keyer1), deterministic(old(self).keyer2),
            // R-PROTO-BIN (environment): the two-input start keeps to the marker protocol
            OperatorChain::proto_ok(old(self).prev.hist()),
            forall|h: Seq<StreamElement<BinaryElement<Out1, Out2>>>| #[trigger] OperatorChain::proto_ok(h) ==> pstate(h) is Some && h.len() < usize::MAX,
        ensures
            final(self).wf(), OperatorChain::proto_ok(final(self).prev.hist()),                                                    // #obl:next.inv_preserved
            final(self).keyer1 == old(self).keyer1 && final(self).keyer2 == old(self).keyer2 && final(self).variant == old(self).variant,
            final(self).prev.hist().len() >= old(self).prev.hist().len()
                && final(self).prev.hist().take(old(self).prev.hist().len() as int) =~= old(self).prev.hist(),
            // every element pulled in this call acted on the abstract state as jl_step prescribes, with the flags of the
            // join variant; then either the oldest buffered tuple is returned, or a control element is forwarded
            exists|mid: JV<Key, Out1, Out2>| #[trigger] reach(final(self).keyer1, final(self).keyer2, final(self).variant.s_left_outer(), final(self).variant.s_right_outer(),
                    old(self).jv(), final(self).prev.hist().skip(old(self).prev.hist().len() as int), mid)
                && (match r {
                    StreamElement::Item(t) => mid.buf.len() > 0 && t == mid.buf[0] && final(self).jv() == (JV { buf: mid.buf.skip(1), ..mid }),
                    StreamElement::FlushAndRestart => mid.buf.len() == 0 && mid.l.ended && mid.r.ended
                        && final(self).jv() == (JV { l: SideV { ended: false, ..mid.l }, r: SideV { ended: false, ..mid.r }, buf: mid.buf }),
                    _ => final(self).jv() == mid,
                }),                                                                                                                 // #obl:next.every_pulled_element_dispatched_with_the_variant_flags
"""

NEXT_LOOP = r"""
            invariant
                self.wf(), OperatorChain::proto_ok(self.prev.hist()),
                forall|h: Seq<StreamElement<BinaryElement<Out1, Out2>>>| #[trigger] OperatorChain::proto_ok(h) ==> pstate(h) is Some && h.len() < usize::MAX,
                forall|a: &Out1| self.keyer1.requires((a,)), forall|b: &Out2| self.keyer2.requires((b,)),
                deterministic(self.keyer1), deterministic(self.keyer2),
                self.keyer1 == old(self).keyer1 && self.keyer2 == old(self).keyer2 && self.variant == old(self).variant,
                self.prev.hist().len() >= old(self).prev.hist().len() && self.prev.hist().take(old(self).prev.hist().len() as int) =~= old(self).prev.hist(),
                reach(self.keyer1, self.keyer2, self.variant.s_left_outer(), self.variant.s_right_outer(), old(self).jv(),
                      self.prev.hist().skip(old(self).prev.hist().len() as int), self.jv()),
"""

NEXT_STEP_HINT = r"""
            proof {
                let k = old(self).prev.hist().len() as int;
                let pulled = self.prev.hist().skip(k);
                assert(pulled =~= h0.skip(k).push(ge));
                assert(pulled.drop_last() =~= h0.skip(k));
                let lo = self.variant.s_left_outer(); let ro = self.variant.s_right_outer();
                let n = self.jv(); let nb = n.buf.skip(j0.buf.len() as int);
                match ge {
                    StreamElement::Item(BinaryElement::Left(a)) => {
                        let key = key_of(self.keyer1, a);
                        assert(self.keyer1.ensures((&a,), key));
                        assert(n.buf =~= j0.buf + nb);
                        if j0.r.data.contains_key(key) {
                            assert(nb.len() == j0.r.data[key].len());
                            assert forall|i: int| 0 <= i < nb.len() implies #[trigger] nb[i] == (key, (Some(a), Some(j0.r.data[key][i]))) by {
                                assert(seconds(nb)[i] == nb[i].1);
                                assert(nb[i] == n.buf[j0.buf.len() + i]);
                            }
                            assert(nb =~= Seq::new(j0.r.data[key].len(), |i: int| (key, (Some(a), Some(j0.r.data[key][i])))));
                        }
                        assert(arrive_l(j0, n, key, a, lo, ro));   // #obl:next.left_element_handled_as_the_variant_prescribes
                    }
                    StreamElement::Item(BinaryElement::Right(b)) => {
                        let key = key_of(self.keyer2, b);
                        assert(self.keyer2.ensures((&b,), key));
                        assert(n.buf =~= j0.buf + nb);
                        if j0.l.data.contains_key(key) {
                            assert(nb.len() == j0.l.data[key].len());
                            assert forall|i: int| 0 <= i < nb.len() implies #[trigger] nb[i] == (key, (Some(j0.l.data[key][i]), Some(b))) by {
                                assert(seconds(nb)[i] == nb[i].1);
                                assert(nb[i] == n.buf[j0.buf.len() + i]);
                            }
                            assert(nb =~= Seq::new(j0.l.data[key].len(), |i: int| (key, (Some(j0.l.data[key][i]), Some(b)))));
                        }
                        assert(arrive_r(j0, n, key, b, lo, ro));   // #obl:next.right_element_handled_as_the_variant_prescribes
                    }
                    StreamElement::Item(BinaryElement::LeftEnd) => {
                        if ro {
                            assert forall|kk: Key| #[trigger] proj(nb, kk)
                                =~= (if j0.r.data.contains_key(kk) && !j0.l.keys.contains(kk) { Seq::new(j0.r.data[kk].len(), |i: int| (None::<Out1>, Some(j0.r.data[kk][i]))) } else { Seq::empty() }) by { }
                        }
                        assert(end_l(j0, n, ro));   // #obl:next.left_end_handled_as_the_variant_prescribes
                    }
                    StreamElement::Item(BinaryElement::RightEnd) => {
                        if lo {
                            assert forall|kk: Key| #[trigger] proj(nb, kk)
                                =~= (if j0.l.data.contains_key(kk) && !j0.r.keys.contains(kk) { Seq::new(j0.l.data[kk].len(), |i: int| (Some(j0.l.data[kk][i]), None::<Out2>)) } else { Seq::empty() }) by { }
                        }
                        assert(end_r(j0, n, lo));   // #obl:next.right_end_handled_as_the_variant_prescribes
                    }
                    _ => {}
                }
                assert(jl_step(self.keyer1, self.keyer2, lo, ro, j0, ge, n));
                assert(pulled.drop_last() == h0.skip(k)); assert(pulled.last() == ge);
                assert(reach(self.keyer1, self.keyer2, lo, ro, old(self).jv(), pulled.drop_last(), j0));
                assert(reach(self.keyer1, self.keyer2, lo, ro, old(self).jv(), pulled, n));
                assert(self.wf());
            }
"""
NEXT_PULLED_HINT = r"""
            proof {
                assert(self.prev.hist() == h0.push(ge));
                assert(h0.push(ge).drop_last() =~= h0);
                assert(pstate(self.prev.hist()) is Some);
            }"""
NEXT_RETURN_HINT = r"""proof {
                        let k = old(self).prev.hist().len() as int;
                        let pulled = self.prev.hist().skip(k);
                        assert(pulled =~= h0.skip(k).push(ge));
                        assert(pulled.drop_last() =~= h0.skip(k));
                        assert(jl_step(self.keyer1, self.keyer2, self.variant.s_left_outer(), self.variant.s_right_outer(), j0, ge, j0));
                        assert(pulled.drop_last() == h0.skip(k)); assert(pulled.last() == ge);
                        assert(reach(self.keyer1, self.keyer2, self.variant.s_left_outer(), self.variant.s_right_outer(), old(self).jv(), pulled.drop_last(), j0));
                        assert(reach(self.keyer1, self.keyer2, self.variant.s_left_outer(), self.variant.s_right_outer(), old(self).jv(), pulled, j0));
                    }
                    """


HISTORY = r'''
use vstd::multiset::*;
enum Ev<K, A, B> { L(K, A), R(K, B), LEnd, REnd }
struct JS<K, A, B> { ld: Map<K, Seq<A>>, rd: Map<K, Seq<B>>, lended: bool, rended: bool }

// pairs of a with every element of rs / of every element of ls with b
spec fn row<A, B>(a: A, rs: Seq<B>) -> Multiset<(A, B)> decreases rs.len() {
    if rs.len() == 0 { Multiset::empty() } else { row(a, rs.drop_last()).insert((a, rs.last())) }
}
spec fn col<A, B>(ls: Seq<A>, b: B) -> Multiset<(A, B)> decreases ls.len() {
    if ls.len() == 0 { Multiset::empty() } else { col(ls.drop_last(), b).insert((ls.last(), b)) }
}
// the relational join of two sequences with equal keys: every (a, b) once
spec fn cross<A, B>(ls: Seq<A>, rs: Seq<B>) -> Multiset<(A, B)> decreases ls.len() {
    if ls.len() == 0 { Multiset::empty() } else { cross(ls.drop_last(), rs).add(row(ls.last(), rs)) }
}
proof fn lemma_cross_push_left<A, B>(ls: Seq<A>, a: A, rs: Seq<B>)
    ensures cross(ls.push(a), rs) =~= cross(ls, rs).add(row(a, rs))
{ assert(ls.push(a).drop_last() =~= ls); }
proof fn lemma_row_push<A, B>(a: A, rs: Seq<B>, b: B)
    ensures row(a, rs.push(b)) =~= row(a, rs).insert((a, b))
{ assert(rs.push(b).drop_last() =~= rs); }
proof fn lemma_cross_push_right<A, B>(ls: Seq<A>, rs: Seq<B>, b: B)
    ensures cross(ls, rs.push(b)) =~= cross(ls, rs).add(col(ls, b))
    decreases ls.len()
{
    if ls.len() > 0 {
        lemma_cross_push_right(ls.drop_last(), rs, b);
        lemma_row_push(ls.last(), rs, b);
    }
}
proof fn lemma_cross_empty_right<A, B>(ls: Seq<A>)
    ensures cross(ls, Seq::<B>::empty()) =~= Multiset::<(A, B)>::empty()
    decreases ls.len()
{ if ls.len() > 0 { lemma_cross_empty_right::<A, B>(ls.drop_last()); } }

// ---- the abstract machine of the symmetric hash join (fields that matter for the matched pairs)
spec fn js0<K, A, B>() -> JS<K, A, B> { JS { ld: Map::empty(), rd: Map::empty(), lended: false, rended: false } }
spec fn js_step<K, A, B>(s: JS<K, A, B>, e: Ev<K, A, B>) -> JS<K, A, B> {
    match e {
        Ev::L(k, a) => JS { ld: if !s.rended { s.ld.insert(k, at(s.ld, k).push(a)) } else { s.ld }, ..s },
        Ev::R(k, b) => JS { rd: if !s.lended { s.rd.insert(k, at(s.rd, k).push(b)) } else { s.rd }, ..s },
        Ev::LEnd => JS { rd: Map::empty(), lended: true, ..s },
        Ev::REnd => JS { ld: Map::empty(), rended: true, ..s },
    }
}
// matched pairs emitted under key k when e arrives in state s
spec fn js_out<K, A, B>(s: JS<K, A, B>, e: Ev<K, A, B>, k: K) -> Multiset<(A, B)> {
    match e {
        Ev::L(k2, a) => if k2 == k { row(a, at(s.rd, k)) } else { Multiset::empty() },
        Ev::R(k2, b) => if k2 == k { col(at(s.ld, k), b) } else { Multiset::empty() },
        _ => Multiset::empty(),
    }
}
spec fn state<K, A, B>(evs: Seq<Ev<K, A, B>>) -> JS<K, A, B> decreases evs.len() {
    if evs.len() == 0 { js0() } else { js_step(state(evs.drop_last()), evs.last()) }
}
spec fn pairs<K, A, B>(evs: Seq<Ev<K, A, B>>, k: K) -> Multiset<(A, B)> decreases evs.len() {
    if evs.len() == 0 { Multiset::empty() } else { pairs(evs.drop_last(), k).add(js_out(state(evs.drop_last()), evs.last(), k)) }
}
spec fn lefts<K, A, B>(evs: Seq<Ev<K, A, B>>, k: K) -> Seq<A> decreases evs.len() {
    if evs.len() == 0 { Seq::empty() } else {
        let p = lefts(evs.drop_last(), k);
        match evs.last() { Ev::L(k2, a) => if k2 == k { p.push(a) } else { p }, _ => p }
    }
}
spec fn rights<K, A, B>(evs: Seq<Ev<K, A, B>>, k: K) -> Seq<B> decreases evs.len() {
    if evs.len() == 0 { Seq::empty() } else {
        let p = rights(evs.drop_last(), k);
        match evs.last() { Ev::R(k2, b) => if k2 == k { p.push(b) } else { p }, _ => p }
    }
}
// a side delivers nothing after its end marker, and ends once (what the two-input receiver guarantees per iteration)
spec fn valid<K, A, B>(evs: Seq<Ev<K, A, B>>) -> bool decreases evs.len() {
    if evs.len() == 0 { true } else {
        let s = state(evs.drop_last());
        valid(evs.drop_last()) && match evs.last() { Ev::L(_, _) => !s.lended, Ev::R(_, _) => !s.rended, Ev::LEnd => !s.lended, Ev::REnd => !s.rended }
    }
}
// THE history statement: whatever the interleaving of the two sides and of their end markers, the matched pairs
// emitted under every key are exactly the relational join of what arrived (each pair once)
proof fn lemma_inner_history<K, A, B>(evs: Seq<Ev<K, A, B>>, k: K)
    requires valid(evs)
    ensures
        pairs(evs, k) =~= cross(lefts(evs, k), rights(evs, k)),                                                          // #obl:history.matched_pairs_are_exactly_the_relational_join
        !state(evs).rended ==> at(state(evs).ld, k) == lefts(evs, k),
        state(evs).rended ==> at(state(evs).ld, k) =~= Seq::<A>::empty(),
        !state(evs).lended ==> at(state(evs).rd, k) == rights(evs, k),
        state(evs).lended ==> at(state(evs).rd, k) =~= Seq::<B>::empty(),
    decreases evs.len()
{
    if evs.len() > 0 {
        let p = evs.drop_last();
        lemma_inner_history(p, k);
        let s = state(p);
        match evs.last() {
            Ev::L(k2, a) => { if k2 == k { lemma_cross_push_left(lefts(p, k), a, rights(p, k)); } }
            Ev::R(k2, b) => { if k2 == k { lemma_cross_push_right(lefts(p, k), rights(p, k), b); } }
            Ev::LEnd => {}
            Ev::REnd => {}
        }
    } else {
        lemma_cross_empty_right::<A, B>(Seq::<A>::empty());
    }
}

// ---- link between the contracts of add_item and the abstract machine: the tuples add_item appends when the element
// has stored matches (contract clause add_item.pairs_with_every_stored_match_once, with the pair constructors that
// JoinLocalHash::next passes: |x, y| (x, y) for a left element, |x, y| (y, x) for a right one) are, as a multiset of
// matched pairs, exactly js_out
spec fn matched<A, B>(t: Seq<(Option<A>, Option<B>)>) -> Multiset<(A, B)> decreases t.len() {
    if t.len() == 0 { Multiset::empty() } else {
        let p = matched(t.drop_last());
        match t.last() { (Some(a), Some(b)) => p.insert((a, b)), _ => p }
    }
}
proof fn lemma_left_arrival_refines<A, B>(a: A, stored: Seq<B>, app: Seq<(Option<A>, Option<B>)>)
    requires app.len() == stored.len(), forall|i: int| 0 <= i < app.len() ==> #[trigger] app[i] == (Some(a), Some(stored[i])),
    ensures matched(app) =~= row(a, stored),                                                                              // #obl:history.left_arrival_emits_js_out
    decreases app.len()
{
    if app.len() > 0 {
        lemma_left_arrival_refines(a, stored.drop_last(), app.drop_last());
        assert(app.last() == (Some(a), Some(stored.last())));
    }
}
proof fn lemma_right_arrival_refines<A, B>(b: B, stored: Seq<A>, app: Seq<(Option<A>, Option<B>)>)
    requires app.len() == stored.len(), forall|i: int| 0 <= i < app.len() ==> #[trigger] app[i] == (Some(stored[i]), Some(b)),
    ensures matched(app) =~= col(stored, b),                                                                              // #obl:history.right_arrival_emits_js_out
    decreases app.len()
{
    if app.len() > 0 {
        lemma_right_arrival_refines(b, stored.drop_last(), app.drop_last());
        assert(app.last() == (Some(stored.last()), Some(b)));
    }
}
'''


def build(x):
    pieces = [S.CLONE_IS_EQ, S.RUST_PANIC, S.VECDEQUE_IS_EMPTY, PRELUDE]
    jv = x.enum(FJ, 'JoinVariant')
    lo = x.method(FJ, 'JoinVariant', 'left_outer'); lo.name_result('r'); lo.add_spec("        ensures r == self.s_left_outer(), // #obl:variant.left_outer")
    ro = x.method(FJ, 'JoinVariant', 'right_outer'); ro.name_result('r'); ro.add_spec("        ensures r == self.s_right_outer(), // #obl:variant.right_outer")
    pieces += [jv, "impl JoinVariant {\n    spec fn s_left_outer(&self) -> bool { self is Left || self is Outer }\n    spec fn s_right_outer(&self) -> bool { self is Outer }", lo, ro, "}"]
    sh = x.struct(F, 'SideHashMap')
    sh.sub('V-SUBST', r'data: HashMap<Key, Vec<Out>, crate::block::GroupHasherBuilder>,', 'data: KMap<Key, Out>,', detail='HashMap -> map-view model KMap', must=True)
    sh.sub('V-SUBST', r'keys: HashSet<Key>,', 'keys: KSet<Key>,', detail='HashSet -> set-view model KSet', must=True)
    sh.text = '#[verifier::reject_recursive_types(Key)]\n' + sh.text
    pieces += [sh, SIDE_SPEC]
    ai = x.method(F, 'JoinLocalHash', 'add_item')
    ai.sub('V-SUBST', r'\(key, item\): \(Key, OutL\),', 'kv: (Key, OutL),', detail='tuple pattern in the parameter list -> named parameter + `let (key, item) = kv;`', must=True)
    ai.insert_at_body_start('\n        let (key, item) = kv;\n        let ghost right0 = *right;')
    ai.bind('matching', r'if let Some\((\w+)\) = right\.data\.get\(&key\)')
    ai.sub('V-ITER', r'for (\w+) in (%s) \{' % re.escape(ai.names['matching']), r'let mut __i: usize = 0; while __i < \2.len() { let \1 = &\2[__i]; __i += 1;', detail='`for x in &vec {` -> while loop with index', must=True)
    ai.sub('V-SUBST', r'left\.data\.entry\(key\)\.or_default\(\)\.push\(item\);', 'left.data.entry_or_default(key).push(item);', detail='`.entry(k).or_default()` -> entry_or_default(k)', must=True)
    ai.add_spec(ADD_ITEM_SPEC)
    ai.add_loop_spec(1, ADD_LOOP)
    ai.insert_after_loop(1, r'''
            proof {
                let n0 = old(buffer)@.len() as int; let app = buffer@.skip(n0);
                assert forall|i: int| 0 <= i < app.len() implies make_pair.ensures((Some(item), Some(§matching§@[i])), #[trigger] seconds(app)[i]) by {
                    assert(app[i] == buffer@[n0 + i]);
                }
            }''')
    se = x.method(F, 'JoinLocalHash', 'side_ended')
    se.sub('V-ITER', r'for \(key, (mut )?right\) in right\.data\.drain\(\) \{', r'let mut __d = right.data.drain_all(); /*@drained*/ while __d.len() > 0 { let (key, \1right) = __d.remove(0); /*@entry*/',
           detail='`for (k, v) in map.drain() {` -> drain_all() (entries in arbitrary order) + pop-front loop', must=True)
    se.sub('V-ITER', r'for rhs in right \{', 'let mut __r = right; /*@values*/ while __r.len() > 0 { let rhs = __r.remove(0); /*@value*/',
           detail='`for x in vec {` (by value) -> pop-front loop')
    has_inner = len(se.loops()) >= 2   # hints of the inner loop only exist if the loop does
    se.add_spec(SIDE_ENDED_SPEC)
    se.insert_at_body_start('\n        let ghost n0 = buffer@.len() as int;')
    se.insert_after('/*@drained*/', ' let ghost d0 = __d@; let ghost m0 = old(right).data@; proof { assert(buffer@.skip(n0) =~= Seq::<(Key, OuterJoinTuple<Out1, Out2>)>::empty()); }')
    se.add_loop_spec(1, SE_OUTER)
    se.insert_after('/*@entry*/', ' let ghost b1 = buffer@; let ghost g = d0.len() - __d@.len() - 1; proof { assert(d0.skip(g)[0] == d0[g]); assert(d0.skip(g).skip(1) =~= d0.skip(g + 1)); }')
    if has_inner: se.insert_after('/*@values*/', ' let ghost v0 = __r@; let ghost mut j: nat = 0; proof { lemma_expected_fresh(d0, left.keys@, g, g); assert(proj(b1.skip(n0), key).len() == 0); assert(v0.take(0) =~= Seq::<OutR>::empty()); }')
    if has_inner: se.add_loop_spec(2, SE_INNER)
    if has_inner: se.insert_after('/*@value*/', ' let ghost bb = buffer@; proof { assert(v0.skip(j as int)[0] == v0[j as int]); assert(v0.skip(j as int).skip(1) =~= v0.skip(j as int + 1)); }')
    if has_inner: se.insert_after_stmt('buffer.push_back((key.clone(), make_pair(None, Some(rhs))))', r"""
                        proof {
                            let x = buffer@.last();
                            assert(buffer@.skip(n0) =~= bb.skip(n0).push(x));
                            lemma_proj_push(bb.skip(n0), x, key);
                            assert forall|k: Key| k != key implies #[trigger] proj(buffer@.skip(n0), k) == proj(b1.skip(n0), k) by { lemma_proj_push(bb.skip(n0), x, k); }
                            assert(v0.take(j as int + 1) =~= v0.take(j as int).push(v0[j as int]));
                            j = j + 1;
                        }""")
    if has_inner: se.insert_after_loop(2, r"""
                    proof {
                        assert(v0.take(j as int) =~= v0);
                        assert forall|k: Key| padded_right(make_pair, expected(d0, left.keys@, g + 1, k), #[trigger] proj(buffer@.skip(n0), k)) by {
                            if k != key { assert(padded_right(make_pair, expected(d0, left.keys@, g, k), proj(b1.skip(n0), k))); }
                        }
                    }""")
    se.insert_after_loop(1, r"""
            proof {
                assert forall|k: Key| padded_right(make_pair,
                        if m0.contains_key(k) && !old(left).keys@.contains(k) { m0[k] } else { Seq::<OutR>::empty() },
                        #[trigger] proj(buffer@.skip(n0), k)) by {
                    lemma_expected_is_map(d0, m0, old(left).keys@, d0.len() as int, k);
                    assert(padded_right(make_pair, expected(d0, left.keys@, d0.len() as int, k), proj(buffer@.skip(n0), k)));
                    if m0.contains_key(k) { let i = choose|i: int| 0 <= i < d0.len() && (#[trigger] d0[i]).0 == k; }
                }
            }""")
    FO = 'src/operator/mod.rs'; FN = 'src/network/mod.rs'; FBIN = 'src/operator/start/binary.rs'
    sel = x.enum(FO, 'StreamElement')
    be = x.enum(FBIN, 'BinaryElement')
    co = x.struct(FN, 'Coord'); co.text = '#[derive(Clone, Copy)]\n' + co.text
    js = x.struct(F, 'JoinLocalHash')
    js.text = '#[verifier::reject_recursive_types(Out1)]\n#[verifier::reject_recursive_types(Out2)]\n#[verifier::reject_recursive_types(Key)]\n#[verifier::reject_recursive_types(Keyer1)]\n#[verifier::reject_recursive_types(Keyer2)]\n#[verifier::reject_recursive_types(OperatorChain)]\n' + js.text
    HDR = ("impl<Key: DataKey, Out1: ExchangeData, Out2: ExchangeData, Keyer1: KeyerFn<Key, Out1>, Keyer2: KeyerFn<Key, Out2>, "
           "OperatorChain: Operator<Out = BinaryElement<Out1, Out2>>> JoinLocalHash<Key, Out1, Out2, Keyer1, Keyer2, OperatorChain> {")
    nx = x.method(F, 'JoinLocalHash', 'next', trait='Operator')
    nx.desugar_assert()
    nx.sub('V-SUBST', r'panic!\("Cannot yet join timestamped streams"\)', 'rust_panic()', detail='panic!(msg) -> rust_panic() (requires false): the absence of the panic is an obligation')
    nx.sub('V-SPEC', r'match self\.prev\.next\(\) \{', 'let ghost h0 = self.prev.hist(); let ghost j0 = self.jv();\n            let __e = self.prev.next();\n            let ghost ge = __e;\n            match __e {', detail='scrutinee bound to a ghost-visible name `__e`', must=True)
    nx.sub('V-CLOSURE', r'\|(\w+), (\w+)\| \(\1, \2\)', r'|\1: Option<Out1>, \2: Option<Out2>| -> (o: OuterJoinTuple<Out1, Out2>) ensures o == (\1, \2) { (\1, \2) }',
           detail='pair-constructor closure |x, y| (x, y): parameter types, named result and ensures added, body verbatim', must=True)
    nx.sub('V-CLOSURE', r'\|(\w+), (\w+)\| \(\2, \1\)', r'|\1: Option<Out2>, \2: Option<Out1>| -> (o: OuterJoinTuple<Out1, Out2>) ensures o == (\2, \1) { (\2, \1) }',
           detail='pair-constructor closure |x, y| (y, x): parameter types, named result and ensures added, body verbatim', must=True)
    nx.name_result('r')
    nx.add_spec(NEXT_SPEC)
    nx.text = '#[verifier::exec_allows_no_decreases_clause]\n' + nx.text
    nx.insert_at_body_start('\n        proof { assert(self.prev.hist().skip(self.prev.hist().len() as int) =~= Seq::<StreamElement<BinaryElement<Out1, Out2>>>::empty()); }')
    nx.add_loop_spec(1, NEXT_LOOP)
    nx.insert_at_loop_end(1, NEXT_STEP_HINT)
    nx.insert_after('let ghost ge = __e;', NEXT_PULLED_HINT)
    nx.insert_before('return StreamElement::FlushAndRestart;', NEXT_RETURN_HINT)
    nx.insert_before('return StreamElement::Terminate', '{ ' + NEXT_RETURN_HINT)
    nx.sub('V-SPEC', r'(return StreamElement::Terminate),', r'\1 },', detail='match arm `=> return X,` braced so that a proof block can precede the return')
    nx.insert_before('return StreamElement::FlushBatch', '{ ' + NEXT_RETURN_HINT)
    nx.sub('V-SPEC', r'(return StreamElement::FlushBatch),', r'\1 },', detail='match arm `=> return X,` braced so that a proof block can precede the return')
    nx.insert_before(re.compile(r'let item(?:\s*:\s*[^=;]+)? = self\.buffer\.pop_front\(\)\.unwrap\(\);'), 'let ghost midj = self.jv();\n        ')
    nx.insert_after(re.compile(r'let item(?:\s*:\s*[^=;]+)? = self\.buffer\.pop_front\(\)\.unwrap\(\);'), '''
        proof {
            assert(self.buffer@ =~= midj.buf.skip(1));
            assert(self.jv() == (JV { buf: midj.buf.skip(1), ..midj }));
            assert(reach(self.keyer1, self.keyer2, self.variant.s_left_outer(), self.variant.s_right_outer(), old(self).jv(), self.prev.hist().skip(old(self).prev.hist().len() as int), midj));
        }''')
    pieces += [sel, be, co, js, SIDE_ENDED_DEFS, NEXT_DEFS, HDR, NEXT_IMPL_SPEC, ai, se, nx, "}", HISTORY]
    return pieces
