"""C08 (narrowed: the local hash join) — JoinLocalHash::{add_item, side_ended} and JoinVariant::{left_outer,right_outer}
(src/operator/join/local_hash.rs, src/operator/join/mod.rs).

Per-call contracts over the abstract state of a side (data: key -> elements kept for future matches, keys: keys seen,
ended):
  add_item    an arriving element is paired, in order, with every element the other side has stored under its key; if
              there is none and the other side has already ended (outer variant) it is emitted once padded with None;
              it is remembered for future matches iff the other side has not ended; its key is recorded iff the other
              side is outer.
  side_ended  when a side ends, every element the other side has stored under a key this side has never seen is
              emitted once padded with None (outer variant), the other side's store is emptied, this side is ended.
The all-interleavings statement for the inner pairs (each matching pair exactly once, whatever the arrival order) is the
lemma lemma_inner_history over these two relations."""
import os, re, sys
sys.path.insert(0, os.path.dirname(os.path.dirname(__file__)))
import std_specs as S

PROPERTIES = ["C08"]
MIN_VERIFIED = 16
F = 'src/operator/join/local_hash.rs'
FJ = 'src/operator/join/mod.rs'
ASSUMPTIONS = [
    "std HashMap<Key, Vec<Out>> / HashSet<Key> modelled by their map / set views (KMap, KSet): get, `.entry(k).or_default()` -> entry_or_default(k), drain() -> drain_all() returning the entries in an ARBITRARY order (distinct keys, covering the map), clear, insert, contains, is_empty; Key equality is spec equality (Eq/Hash agree with it)",
    "make_pair / the keyers are total functions (closure contracts); Clone yields an equal value (axiom_data_clone)",
    "V-ITER: `for x in &vec` / `for x in vec` / `for (k, v) in map.drain()` -> index loops over the vector / the drained entries",
    "the ship strategy (both sides hashed with the same key hash, ship.rs) and the two-input receiver's LeftEnd/RightEnd markers are outside this unit (the markers: unit binary_select)",
]
PRELUDE = r'''
use std::collections::VecDeque;
trait Data: Clone + Send + 'static {}
trait ExchangeData: Data {}
trait DataKey: Clone + Send + 'static {}
type OuterJoinTuple<Out1, Out2> = (Option<Out1>, Option<Out2>);
broadcast use trusted_axioms::axiom_data_clone;

// ---- std HashMap<K, Vec<V>> by its map view
#[verifier::external_body]
#[verifier::reject_recursive_types(K)]
#[verifier::accept_recursive_types(V)]
struct KMap<K, V> { _p: core::marker::PhantomData<(K, V)> }
impl<K, V> KMap<K, V> {
    uninterp spec fn view(&self) -> Map<K, Seq<V>>;
    #[verifier::external_body]
    fn get(&self, k: &K) -> (r: Option<&Vec<V>>)
        ensures (r matches Some(v) ==> self@.contains_key(*k) && v@ == self@[*k]), (r is None ==> !self@.contains_key(*k)),
    { unimplemented!() }
    #[verifier::external_body]
    fn entry_or_default(&mut self, k: K) -> (r: &mut Vec<V>)
        ensures r@ == (if old(self)@.contains_key(k) { old(self)@[k] } else { Seq::<V>::empty() }),
                final(self)@ == old(self)@.insert(k, final(r)@),
    { unimplemented!() }
    // HashMap::drain(): every entry once, in an arbitrary order; the map is left empty
    #[verifier::external_body]
    fn drain_all(&mut self) -> (r: Vec<(K, Vec<V>)>)
        ensures final(self)@ =~= Map::<K, Seq<V>>::empty(),
            forall|i: int, j: int| 0 <= i < j < r@.len() ==> (#[trigger] r@[i]).0 != (#[trigger] r@[j]).0,
            forall|i: int| 0 <= i < r@.len() ==> old(self)@.contains_key((#[trigger] r@[i]).0) && r@[i].1@ == old(self)@[r@[i].0],
            forall|k: K| old(self)@.contains_key(k) ==> exists|i: int| 0 <= i < r@.len() && (#[trigger] r@[i]).0 == k,
    { unimplemented!() }
    #[verifier::external_body]
    fn clear(&mut self) ensures final(self)@ =~= Map::<K, Seq<V>>::empty() { unimplemented!() }
    #[verifier::external_body]
    fn is_empty(&self) -> (r: bool) ensures r == (self@.dom() =~= Set::<K>::empty()) { unimplemented!() }
}
#[verifier::external_body]
#[verifier::reject_recursive_types(K)]
struct KSet<K> { _p: core::marker::PhantomData<K> }
impl<K> KSet<K> {
    uninterp spec fn view(&self) -> Set<K>;
    #[verifier::external_body]
    fn insert(&mut self, k: K) -> (r: bool) ensures final(self)@ == old(self)@.insert(k) { unimplemented!() }
    #[verifier::external_body]
    fn contains(&self, k: &K) -> (r: bool) ensures r == self@.contains(*k) { unimplemented!() }
    #[verifier::external_body]
    fn clear(&mut self) ensures final(self)@ =~= Set::<K>::empty() { unimplemented!() }
    #[verifier::external_body]
    fn is_empty(&self) -> (r: bool) ensures r == (self@ =~= Set::<K>::empty()) { unimplemented!() }
}

spec fn seconds<K, T>(e: Seq<(K, T)>) -> Seq<T> { Seq::new(e.len(), |i: int| e[i].1) }
// elements stored under k (none if the key is absent)
spec fn at<K, V>(m: Map<K, Seq<V>>, k: K) -> Seq<V> { if m.contains_key(k) { m[k] } else { Seq::empty() } }
// the tuples of `e` whose key is k, in order
spec fn proj<K, T>(e: Seq<(K, T)>, k: K) -> Seq<T>
    decreases e.len()
{
    if e.len() == 0 { Seq::empty() } else if e.last().0 == k { proj(e.drop_last(), k).push(e.last().1) } else { proj(e.drop_last(), k) }
}
proof fn lemma_proj_push<K, T>(e: Seq<(K, T)>, x: (K, T), k: K)
    ensures proj(e.push(x), k) == (if x.0 == k { proj(e, k).push(x.1) } else { proj(e, k) })
{
    assert(e.push(x).drop_last() =~= e);
}
proof fn lemma_proj_concat<K, T>(a: Seq<(K, T)>, b: Seq<(K, T)>, k: K)
    ensures proj(a + b, k) =~= proj(a, k) + proj(b, k)
    decreases b.len()
{
    if b.len() == 0 { assert(a + b =~= a); }
    else {
        assert((a + b).drop_last() =~= a + b.drop_last());
        lemma_proj_concat(a, b.drop_last(), k);
    }
}
'''

SIDE_SPEC = r'''
impl<Key: DataKey, Out> SideHashMap<Key, Out> {
    spec fn same_but_data_keys_count(&self, o: &Self) -> bool { self.ended == o.ended }
}
// `out` pairs `item` (on the caller's left) with each element of `others`, in order
spec fn paired<F, A, B, T>(mp: F, item: A, others: Seq<B>, out: Seq<T>) -> bool
    where F: Fn(Option<A>, Option<B>) -> T
{
    out.len() == others.len() && forall|i: int| 0 <= i < out.len() ==> mp.ensures((Some(item), Some(others[i])), #[trigger] out[i])
}
// `out` is each element of `others` padded with None on the caller's left, in order
spec fn padded_right<F, A, B, T>(mp: F, others: Seq<B>, out: Seq<T>) -> bool
    where F: Fn(Option<A>, Option<B>) -> T
{
    out.len() == others.len() && forall|i: int| 0 <= i < out.len() ==> mp.ensures((None::<A>, Some(others[i])), #[trigger] out[i])
}
'''

ADD_ITEM_SPEC = r'''
        requires
            forall|a: Option<OutL>, b: Option<OutR>| make_pair.requires((a, b)),
            old(left).count < usize::MAX,
        ensures
            *final(right) == *old(right),                                                                                     // #obl:add_item.other_side_untouched
            final(left).ended == old(left).ended && final(left).count == old(left).count + 1,
            // ---- what is emitted: the tuples appended to the buffer all carry the element's key ...
            final(buffer)@.len() >= old(buffer)@.len() && final(buffer)@.take(old(buffer)@.len() as int) =~= old(buffer)@,
            forall|i: int| old(buffer)@.len() <= i < final(buffer)@.len() ==> (#[trigger] final(buffer)@[i]).0 == kv.0,
            // ... and are: one pair per element stored on the other side under that key, in order;
            old(right).data@.contains_key(kv.0) ==>
                paired(make_pair, kv.1, old(right).data@[kv.0], seconds(final(buffer)@.skip(old(buffer)@.len() as int))),  // #obl:add_item.pairs_with_every_stored_match_once
            // else the element padded with None, iff the other side has already ended and this side is outer;
            !old(right).data@.contains_key(kv.0) && old(right).ended && left_outer ==>
                final(buffer)@.len() == old(buffer)@.len() + 1 && make_pair.ensures((Some(kv.1), None::<OutR>), final(buffer)@.last().1),   // #obl:add_item.unmatched_after_other_end_padded_once
            // else nothing
            !old(right).data@.contains_key(kv.0) && !(old(right).ended && left_outer) ==> final(buffer)@ =~= old(buffer)@,   // #obl:add_item.nothing_emitted_otherwise
            // ---- what is remembered
            final(left).keys@ == (if right_outer { old(left).keys@.insert(kv.0) } else { old(left).keys@ }),                  // #obl:add_item.key_recorded_for_the_outer_side
            final(left).data@ == (if !old(right).ended { old(left).data@.insert(kv.0, at(old(left).data@, kv.0).push(kv.1)) } else { old(left).data@ }),   // #obl:add_item.stored_for_future_matches_iff_other_side_open
'''

ADD_LOOP = r'''
                invariant
                    __i <= right@.len(), right@ == right0.data@[key], right0.data@.contains_key(key),
                    forall|a: Option<OutL>, b: Option<OutR>| make_pair.requires((a, b)),
                    buffer@.len() == old(buffer)@.len() + __i, buffer@.take(old(buffer)@.len() as int) =~= old(buffer)@,
                    forall|i: int| old(buffer)@.len() <= i < buffer@.len() ==> (#[trigger] buffer@[i]).0 == key,
                    forall|i: int| 0 <= i < __i ==> make_pair.ensures((Some(item), Some(right@[i])), (#[trigger] buffer@[old(buffer)@.len() + i]).1),
                decreases right@.len() - __i,
'''

SIDE_ENDED_DEFS = r"""
// what the first g drained entries contribute under key k: the stored elements of the entry with that key, unless the
// ending side has seen the key
spec fn expected<K, V>(d: Seq<(K, Vec<V>)>, keys: Set<K>, g: int, k: K) -> Seq<V>
    decreases g
{
    if g <= 0 { Seq::empty() } else if d[g - 1].0 == k && !keys.contains(k) { d[g - 1].1@ } else { expected(d, keys, g - 1, k) }
}
// an entry's key is distinct from the keys of the entries before it: nothing expected under it yet
proof fn lemma_expected_fresh<K, V>(d: Seq<(K, Vec<V>)>, keys: Set<K>, g: int, e: int)
    requires 0 <= g <= e < d.len(), forall|i: int, j: int| 0 <= i < j < d.len() ==> (#[trigger] d[i]).0 != (#[trigger] d[j]).0,
    ensures expected(d, keys, g, d[e].0) =~= Seq::<V>::empty(),
    decreases g
{
    if g > 0 { lemma_expected_fresh(d, keys, g - 1, e); assert(d[g - 1].0 != d[e].0); }
}
proof fn lemma_expected_is_map<K, V>(d: Seq<(K, Vec<V>)>, m: Map<K, Seq<V>>, keys: Set<K>, g: int, k: K)
    requires 0 <= g <= d.len(),
        forall|i: int, j: int| 0 <= i < j < d.len() ==> (#[trigger] d[i]).0 != (#[trigger] d[j]).0,
        forall|i: int| 0 <= i < d.len() ==> m.contains_key((#[trigger] d[i]).0) && d[i].1@ == m[d[i].0],
    ensures
        expected(d, keys, g, k) == (if !keys.contains(k) && (exists|i: int| 0 <= i < g && (#[trigger] d[i]).0 == k) { m[k] } else { Seq::<V>::empty() }),
    decreases g
{
    if g > 0 {
        lemma_expected_is_map(d, m, keys, g - 1, k);
        if d[g - 1].0 == k { assert(d[g - 1].1@ == m[k]); }
        else if exists|i: int| 0 <= i < g && (#[trigger] d[i]).0 == k {
            let i = choose|i: int| 0 <= i < g && (#[trigger] d[i]).0 == k;
            assert(i < g - 1);
        }
    }
}
"""
SIDE_ENDED_SPEC = r"""
        requires forall|a: Option<OutL>, b: Option<OutR>| make_pair.requires((a, b)),
        ensures
            final(left).ended && final(left).keys@ =~= Set::<Key>::empty() && final(left).data == old(left).data && final(left).count == old(left).count,   // #obl:side_ended.side_marked_ended
            final(right).data@ =~= Map::<Key, Seq<OutR>>::empty(),                                                             // #obl:side_ended.other_side_store_emptied
            final(right).ended == old(right).ended && final(right).keys == old(right).keys && final(right).count == old(right).count,
            final(buffer)@.len() >= old(buffer)@.len() && final(buffer)@.take(old(buffer)@.len() as int) =~= old(buffer)@,
            !right_outer ==> final(buffer)@ =~= old(buffer)@,                                                                  // #obl:side_ended.inner_side_emits_nothing
            // outer: under every key the ending side has never seen, each element the other side has stored is emitted
            // once padded with None, in order; nothing under any other key
            right_outer ==> forall|k: Key| padded_right(make_pair,
                    if old(right).data@.contains_key(k) && !old(left).keys@.contains(k) { old(right).data@[k] } else { Seq::<OutR>::empty() },
                    #[trigger] proj(final(buffer)@.skip(old(buffer)@.len() as int), k)),                                        // #obl:side_ended.unmatched_of_other_side_padded_once
"""
SE_OUTER = r"""
                invariant
                    forall|a: Option<OutL>, b: Option<OutR>| make_pair.requires((a, b)),
                    __d@.len() <= d0.len(), __d@ =~= d0.skip(d0.len() - __d@.len()),
                    *left == *old(left), right.ended == old(right).ended && right.keys == old(right).keys && right.count == old(right).count,
                    right.data@ =~= Map::<Key, Seq<OutR>>::empty(),
                    n0 == old(buffer)@.len(), buffer@.len() >= n0 && buffer@.take(n0) =~= old(buffer)@,
                    forall|i: int, j: int| 0 <= i < j < d0.len() ==> (#[trigger] d0[i]).0 != (#[trigger] d0[j]).0,
                    forall|k: Key| padded_right(make_pair, expected(d0, left.keys@, d0.len() - __d@.len(), k), #[trigger] proj(buffer@.skip(n0), k)),
                decreases __d@.len(),
"""
SE_INNER = r"""
                        invariant
                            forall|a: Option<OutL>, b: Option<OutR>| make_pair.requires((a, b)),
                            0 <= j <= v0.len(), __r@ =~= v0.skip(j as int), key == d0[g].0, 0 <= g < d0.len(), g == d0.len() - __d@.len() - 1,
                            *left == *old(left), !left.keys@.contains(key),
                            n0 == old(buffer)@.len(), buffer@.len() >= n0 && buffer@.take(n0) =~= old(buffer)@,
                            padded_right(make_pair, v0.take(j as int), proj(buffer@.skip(n0), key)),
                            forall|k: Key| k != key ==> #[trigger] proj(buffer@.skip(n0), k) == proj(b1.skip(n0), k),
                        decreases __r@.len(),
"""

HISTORY = r'''
use vstd::multiset::*;
enum Ev<K, A, B> { L(K, A), R(K, B), LEnd, REnd }
struct JS<K, A, B> { ld: Map<K, Seq<A>>, rd: Map<K, Seq<B>>, lended: bool, rended: bool }

// pairs of a with every element of rs / of every element of ls with b
spec fn row<A, B>(a: A, rs: Seq<B>) -> Multiset<(A, B)> decreases rs.len() {
    if rs.len() == 0 { Multiset::empty() } else { row(a, rs.drop_last()).insert((a, rs.last())) }
}
spec fn col<A, B>(ls: Seq<A>, b: B) -> Multiset<(A, B)> decreases ls.len() {
    if ls.len() == 0 { Multiset::empty() } else { col(ls.drop_last(), b).insert((ls.last(), b)) }
}
// the relational join of two sequences with equal keys: every (a, b) once
spec fn cross<A, B>(ls: Seq<A>, rs: Seq<B>) -> Multiset<(A, B)> decreases ls.len() {
    if ls.len() == 0 { Multiset::empty() } else { cross(ls.drop_last(), rs).add(row(ls.last(), rs)) }
}
proof fn lemma_cross_push_left<A, B>(ls: Seq<A>, a: A, rs: Seq<B>)
    ensures cross(ls.push(a), rs) =~= cross(ls, rs).add(row(a, rs))
{ assert(ls.push(a).drop_last() =~= ls); }
proof fn lemma_row_push<A, B>(a: A, rs: Seq<B>, b: B)
    ensures row(a, rs.push(b)) =~= row(a, rs).insert((a, b))
{ assert(rs.push(b).drop_last() =~= rs); }
proof fn lemma_cross_push_right<A, B>(ls: Seq<A>, rs: Seq<B>, b: B)
    ensures cross(ls, rs.push(b)) =~= cross(ls, rs).add(col(ls, b))
    decreases ls.len()
{
    if ls.len() > 0 {
        lemma_cross_push_right(ls.drop_last(), rs, b);
        lemma_row_push(ls.last(), rs, b);
    }
}
proof fn lemma_cross_empty_right<A, B>(ls: Seq<A>)
    ensures cross(ls, Seq::<B>::empty()) =~= Multiset::<(A, B)>::empty()
    decreases ls.len()
{ if ls.len() > 0 { lemma_cross_empty_right::<A, B>(ls.drop_last()); } }

// ---- the abstract machine of the symmetric hash join (fields that matter for the matched pairs)
spec fn js0<K, A, B>() -> JS<K, A, B> { JS { ld: Map::empty(), rd: Map::empty(), lended: false, rended: false } }
spec fn js_step<K, A, B>(s: JS<K, A, B>, e: Ev<K, A, B>) -> JS<K, A, B> {
    match e {
        Ev::L(k, a) => JS { ld: if !s.rended { s.ld.insert(k, at(s.ld, k).push(a)) } else { s.ld }, ..s },
        Ev::R(k, b) => JS { rd: if !s.lended { s.rd.insert(k, at(s.rd, k).push(b)) } else { s.rd }, ..s },
        Ev::LEnd => JS { rd: Map::empty(), lended: true, ..s },
        Ev::REnd => JS { ld: Map::empty(), rended: true, ..s },
    }
}
// matched pairs emitted under key k when e arrives in state s
spec fn js_out<K, A, B>(s: JS<K, A, B>, e: Ev<K, A, B>, k: K) -> Multiset<(A, B)> {
    match e {
        Ev::L(k2, a) => if k2 == k { row(a, at(s.rd, k)) } else { Multiset::empty() },
        Ev::R(k2, b) => if k2 == k { col(at(s.ld, k), b) } else { Multiset::empty() },
        _ => Multiset::empty(),
    }
}
spec fn state<K, A, B>(evs: Seq<Ev<K, A, B>>) -> JS<K, A, B> decreases evs.len() {
    if evs.len() == 0 { js0() } else { js_step(state(evs.drop_last()), evs.last()) }
}
spec fn pairs<K, A, B>(evs: Seq<Ev<K, A, B>>, k: K) -> Multiset<(A, B)> decreases evs.len() {
    if evs.len() == 0 { Multiset::empty() } else { pairs(evs.drop_last(), k).add(js_out(state(evs.drop_last()), evs.last(), k)) }
}
spec fn lefts<K, A, B>(evs: Seq<Ev<K, A, B>>, k: K) -> Seq<A> decreases evs.len() {
    if evs.len() == 0 { Seq::empty() } else {
        let p = lefts(evs.drop_last(), k);
        match evs.last() { Ev::L(k2, a) => if k2 == k { p.push(a) } else { p }, _ => p }
    }
}
spec fn rights<K, A, B>(evs: Seq<Ev<K, A, B>>, k: K) -> Seq<B> decreases evs.len() {
    if evs.len() == 0 { Seq::empty() } else {
        let p = rights(evs.drop_last(), k);
        match evs.last() { Ev::R(k2, b) => if k2 == k { p.push(b) } else { p }, _ => p }
    }
}
// a side delivers nothing after its end marker, and ends once (what the two-input receiver guarantees per iteration)
spec fn valid<K, A, B>(evs: Seq<Ev<K, A, B>>) -> bool decreases evs.len() {
    if evs.len() == 0 { true } else {
        let s = state(evs.drop_last());
        valid(evs.drop_last()) && match evs.last() { Ev::L(_, _) => !s.lended, Ev::R(_, _) => !s.rended, Ev::LEnd => !s.lended, Ev::REnd => !s.rended }
    }
}
// THE history statement: whatever the interleaving of the two sides and of their end markers, the matched pairs
// emitted under every key are exactly the relational join of what arrived (each pair once)
proof fn lemma_inner_history<K, A, B>(evs: Seq<Ev<K, A, B>>, k: K)
    requires valid(evs)
    ensures
        pairs(evs, k) =~= cross(lefts(evs, k), rights(evs, k)),                                                          // #obl:history.matched_pairs_are_exactly_the_relational_join
        !state(evs).rended ==> at(state(evs).ld, k) == lefts(evs, k),
        state(evs).rended ==> at(state(evs).ld, k) =~= Seq::<A>::empty(),
        !state(evs).lended ==> at(state(evs).rd, k) == rights(evs, k),
        state(evs).lended ==> at(state(evs).rd, k) =~= Seq::<B>::empty(),
    decreases evs.len()
{
    if evs.len() > 0 {
        let p = evs.drop_last();
        lemma_inner_history(p, k);
        let s = state(p);
        match evs.last() {
            Ev::L(k2, a) => { if k2 == k { lemma_cross_push_left(lefts(p, k), a, rights(p, k)); } }
            Ev::R(k2, b) => { if k2 == k { lemma_cross_push_right(lefts(p, k), rights(p, k), b); } }
            Ev::LEnd => {}
            Ev::REnd => {}
        }
    } else {
        lemma_cross_empty_right::<A, B>(Seq::<A>::empty());
    }
}

// ---- link between the contracts of add_item and the abstract machine: the tuples add_item appends when the element
// has stored matches (contract clause add_item.pairs_with_every_stored_match_once, with the pair constructors that
// JoinLocalHash::next passes: |x, y| (x, y) for a left element, |x, y| (y, x) for a right one) are, as a multiset of
// matched pairs, exactly js_out
spec fn matched<A, B>(t: Seq<(Option<A>, Option<B>)>) -> Multiset<(A, B)> decreases t.len() {
    if t.len() == 0 { Multiset::empty() } else {
        let p = matched(t.drop_last());
        match t.last() { (Some(a), Some(b)) => p.insert((a, b)), _ => p }
    }
}
proof fn lemma_left_arrival_refines<A, B>(a: A, stored: Seq<B>, app: Seq<(Option<A>, Option<B>)>)
    requires app.len() == stored.len(), forall|i: int| 0 <= i < app.len() ==> #[trigger] app[i] == (Some(a), Some(stored[i])),
    ensures matched(app) =~= row(a, stored),                                                                              // #obl:history.left_arrival_emits_js_out
    decreases app.len()
{
    if app.len() > 0 {
        lemma_left_arrival_refines(a, stored.drop_last(), app.drop_last());
        assert(app.last() == (Some(a), Some(stored.last())));
    }
}
proof fn lemma_right_arrival_refines<A, B>(b: B, stored: Seq<A>, app: Seq<(Option<A>, Option<B>)>)
    requires app.len() == stored.len(), forall|i: int| 0 <= i < app.len() ==> #[trigger] app[i] == (Some(stored[i]), Some(b)),
    ensures matched(app) =~= col(stored, b),                                                                              // #obl:history.right_arrival_emits_js_out
    decreases app.len()
{
    if app.len() > 0 {
        lemma_right_arrival_refines(b, stored.drop_last(), app.drop_last());
        assert(app.last() == (Some(stored.last()), Some(b)));
    }
}
'''


def build(x):
    pieces = [S.CLONE_IS_EQ, S.RUST_PANIC, PRELUDE]
    jv = x.enum(FJ, 'JoinVariant')
    lo = x.method(FJ, 'JoinVariant', 'left_outer'); lo.name_result('r'); lo.add_spec("        ensures r == (self is Left || self is Outer), // #obl:variant.left_outer")
    ro = x.method(FJ, 'JoinVariant', 'right_outer'); ro.name_result('r'); ro.add_spec("        ensures r == (self is Outer), // #obl:variant.right_outer")
    pieces += [jv, "impl JoinVariant {", lo, ro, "}"]
    sh = x.struct(F, 'SideHashMap')
    sh.sub('V-SUBST', r'data: HashMap<Key, Vec<Out>, crate::block::GroupHasherBuilder>,', 'data: KMap<Key, Out>,', detail='HashMap -> map-view model KMap', must=True)
    sh.sub('V-SUBST', r'keys: HashSet<Key>,', 'keys: KSet<Key>,', detail='HashSet -> set-view model KSet', must=True)
    sh.text = '#[verifier::reject_recursive_types(Key)]\n' + sh.text
    pieces += [sh, SIDE_SPEC]
    ai = x.method(F, 'JoinLocalHash', 'add_item')
    ai.sub('V-SUBST', r'\(key, item\): \(Key, OutL\),', 'kv: (Key, OutL),', detail='tuple pattern in the parameter list -> named parameter + `let (key, item) = kv;`', must=True)
    ai.insert_at_body_start('\n        let (key, item) = kv;\n        let ghost right0 = *right;')
    ai.sub('V-ITER', r'for rhs in right \{', 'let mut __i: usize = 0; while __i < right.len() { let rhs = &right[__i]; __i += 1;', detail='`for x in &vec {` -> while loop with index', must=True)
    ai.sub('V-SUBST', r'left\.data\.entry\(key\)\.or_default\(\)\.push\(item\);', 'left.data.entry_or_default(key).push(item);', detail='`.entry(k).or_default()` -> entry_or_default(k)', must=True)
    ai.add_spec(ADD_ITEM_SPEC)
    ai.add_loop_spec(1, ADD_LOOP)
    ai.insert_after_loop(1, r'''
            proof {
                let n0 = old(buffer)@.len() as int; let app = buffer@.skip(n0);
                assert forall|i: int| 0 <= i < app.len() implies make_pair.ensures((Some(item), Some(right@[i])), #[trigger] seconds(app)[i]) by {
                    assert(app[i] == buffer@[n0 + i]);
                }
            }''')
    se = x.method(F, 'JoinLocalHash', 'side_ended')
    se.sub('V-ITER', r'for \(key, right\) in right\.data\.drain\(\) \{', 'let mut __d = right.data.drain_all(); /*@drained*/ while __d.len() > 0 { let (key, right) = __d.remove(0); /*@entry*/',
           detail='`for (k, v) in map.drain() {` -> drain_all() (entries in arbitrary order) + pop-front loop', must=True)
    se.sub('V-ITER', r'for rhs in right \{', 'let mut __r = right; /*@values*/ while __r.len() > 0 { let rhs = __r.remove(0); /*@value*/',
           detail='`for x in vec {` (by value) -> pop-front loop', must=True)
    se.add_spec(SIDE_ENDED_SPEC)
    se.insert_at_body_start('\n        let ghost n0 = buffer@.len() as int;')
    se.insert_after('/*@drained*/', ' let ghost d0 = __d@; let ghost m0 = old(right).data@; proof { assert(buffer@.skip(n0) =~= Seq::<(Key, OuterJoinTuple<Out1, Out2>)>::empty()); }')
    se.add_loop_spec(1, SE_OUTER)
    se.insert_after('/*@entry*/', ' let ghost b1 = buffer@; let ghost g = d0.len() - __d@.len() - 1; proof { assert(d0.skip(g)[0] == d0[g]); assert(d0.skip(g).skip(1) =~= d0.skip(g + 1)); }')
    se.insert_after('/*@values*/', ' let ghost v0 = __r@; let ghost mut j: nat = 0; proof { lemma_expected_fresh(d0, left.keys@, g, g); assert(proj(b1.skip(n0), key).len() == 0); assert(v0.take(0) =~= Seq::<OutR>::empty()); }')
    se.add_loop_spec(2, SE_INNER)
    se.insert_after('/*@value*/', ' let ghost bb = buffer@; proof { assert(v0.skip(j as int)[0] == v0[j as int]); assert(v0.skip(j as int).skip(1) =~= v0.skip(j as int + 1)); }')
    se.insert_after_stmt('buffer.push_back((key.clone(), make_pair(None, Some(rhs))))', r"""
                        proof {
                            let x = buffer@.last();
                            assert(buffer@.skip(n0) =~= bb.skip(n0).push(x));
                            lemma_proj_push(bb.skip(n0), x, key);
                            assert forall|k: Key| k != key implies #[trigger] proj(buffer@.skip(n0), k) == proj(b1.skip(n0), k) by { lemma_proj_push(bb.skip(n0), x, k); }
                            assert(v0.take(j as int + 1) =~= v0.take(j as int).push(v0[j as int]));
                            j = j + 1;
                        }""")
    se.insert_after_loop(2, r"""
                    proof {
                        assert(v0.take(j as int) =~= v0);
                        assert forall|k: Key| padded_right(make_pair, expected(d0, left.keys@, g + 1, k), #[trigger] proj(buffer@.skip(n0), k)) by {
                            if k != key { assert(padded_right(make_pair, expected(d0, left.keys@, g, k), proj(b1.skip(n0), k))); }
                        }
                    }""")
    se.insert_after_loop(1, r"""
            proof {
                assert forall|k: Key| padded_right(make_pair,
                        if m0.contains_key(k) && !old(left).keys@.contains(k) { m0[k] } else { Seq::<OutR>::empty() },
                        #[trigger] proj(buffer@.skip(n0), k)) by {
                    lemma_expected_is_map(d0, m0, old(left).keys@, d0.len() as int, k);
                    assert(padded_right(make_pair, expected(d0, left.keys@, d0.len() as int, k), proj(buffer@.skip(n0), k)));
                    if m0.contains_key(k) { let i = choose|i: int| 0 <= i < d0.len() && (#[trigger] d0[i]).0 == k; }
                }
            }""")
    pieces += ["struct JoinLocalHash<Key, Out1, Out2> { _p: core::marker::PhantomData<(Key, Out1, Out2)> }",
               SIDE_ENDED_DEFS,
               "impl<Key: DataKey, Out1: ExchangeData, Out2: ExchangeData> JoinLocalHash<Key, Out1, Out2> {", ai, se, "}", HISTORY]
    return pieces
