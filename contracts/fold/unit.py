"""C07 / C05 / C06 — Fold::next (src/operator/fold.rs): a sequential left fold of the iteration's items,
exactly one result iff the iteration is non-empty, timestamp = max, nothing carried over."""
import os, sys
sys.path.insert(0, os.path.dirname(os.path.dirname(__file__)))
import std_specs as S

PROPERTIES = ["C07", "C05", "C06"]
MIN_VERIFIED = 3
F = 'src/operator/fold.rs'
FO = 'src/operator/mod.rs'
ASSUMPTIONS = [
    "user fold closure: total, and its effect on the accumulator is a function fs(acc, item) (assumed contract fold_ok; the closure is opaque)",
    "Clone of the initial accumulator yields an equal value (axiom_data_clone)",
    "prev.next() returns any element (model trait Operator)",
    "termination of next() is not verified (it pulls until the iteration ends)",
]
PRELUDE = r'''
type Timestamp = i64;
trait Operator: Sized {
    type Out: Send;
    spec fn hist(&self) -> Seq<StreamElement<Self::Out>>;
    fn next(&mut self) -> (r: StreamElement<Self::Out>)
        ensures final(self).hist() == old(self).hist().push(r);
}
broadcast use trusted_axioms::axiom_data_clone;
spec fn tmax(a: Timestamp, b: Timestamp) -> Timestamp { if a >= b { a } else { b } }
spec fn omax(a: Option<Timestamp>, b: Timestamp) -> Option<Timestamp> { match a { Some(x) => Some(tmax(x, b)), None => Some(b) } }
spec fn is_end<T>(e: StreamElement<T>) -> bool { e is Terminate || e is FlushAndRestart }
spec fn no_end<T>(s: Seq<StreamElement<T>>) -> bool { forall|i: int| 0 <= i < s.len() ==> !is_end(#[trigger] s[i]) }
'''
SPEC_IMPL = r'''
// abstract per-iteration state of a fold
ghost struct FoldState<O> { acc: Option<O>, ts: Option<Timestamp>, wm: Option<Timestamp> }

impl<O: Send + Clone, F, Op> Fold<O, F, Op>
where
    F: Fn(&mut O, Op::Out) + Send + Clone,
    Op: Operator,
{
    // the user's fold function as a mathematical function (ASSUMED contract of the opaque closure)
    uninterp spec fn fs(a: O, x: Op::Out) -> O;
    #[verifier::prophetic]
    spec fn fold_ok(f: F) -> bool {
        &&& forall|a: &mut O, x: Op::Out| f.requires((a, x))
        &&& forall|a: &mut O, x: Op::Out| #[trigger] f.ensures((a, x), ()) ==> *final(a) == Self::fs(*a, x)
    }
    // sequential semantics: consume the elements of one iteration from left to right
    spec fn step1(init: O, p: FoldState<O>, e: StreamElement<Op::Out>) -> FoldState<O> {
        match e {
            StreamElement::Item(x) => FoldState { acc: Some(Self::fs(match p.acc { Some(a) => a, None => init }, x)), ts: p.ts, wm: p.wm },
            StreamElement::Timestamped(x, t) => FoldState { acc: Some(Self::fs(match p.acc { Some(a) => a, None => init }, x)), ts: omax(p.ts, t), wm: p.wm },
            StreamElement::Watermark(w) => FoldState { acc: p.acc, ts: p.ts, wm: omax(p.wm, w) },
            _ => p,
        }
    }
    spec fn run(init: O, st: FoldState<O>, s: Seq<StreamElement<Op::Out>>) -> FoldState<O>
        decreases s.len()
    {
        if s.len() == 0 { st } else { Self::step1(init, Self::run(init, st, s.drop_last()), s.last()) }
    }
    proof fn lemma_run_push(init: O, st: FoldState<O>, s: Seq<StreamElement<Op::Out>>, e: StreamElement<Op::Out>)
        ensures Self::run(init, st, s.push(e)) == Self::step1(init, Self::run(init, st, s), e),
                no_end(s) && !is_end(e) ==> no_end(s.push(e)),
    {
        assert(s.push(e).drop_last() =~= s);
    }
    proof fn lemma_run_ts(init: O, st: FoldState<O>, s: Seq<StreamElement<Op::Out>>)
        requires st.acc is None ==> st.ts is None,
        ensures Self::run(init, st, s).acc is None ==> Self::run(init, st, s).ts is None,
        decreases s.len()
    {
        if s.len() > 0 { Self::lemma_run_ts(init, st, s.drop_last()); }
    }
    spec fn view(&self) -> FoldState<O> { FoldState { acc: self.accumulator, ts: self.timestamp, wm: self.max_watermark } }
    spec fn inv(&self) -> bool { (self.received_end_iter ==> self.received_end) && (self.accumulator is None ==> self.timestamp is None) }
    spec fn pulled(o: &Self, n: &Self) -> Seq<StreamElement<Op::Out>> { n.prev.hist().skip(o.prev.hist().len() as int) }
    // the state from which the output phase starts
    spec fn drained(o: &Self, n: &Self) -> FoldState<O> {
        if o.received_end { o.view() } else { Self::run(o.init, o.view(), Self::pulled(o, n).drop_last()) }
    }
}
'''
NEXT_SPEC = r'''
        requires old(self).inv(), Self::fold_ok(old(self).fold),
        ensures
            final(self).inv(), final(self).init == old(self).init, final(self).fold == old(self).fold,
            final(self).prev.hist().len() >= old(self).prev.hist().len(),
            // pulling phase: if the iteration was still open, everything up to (and including) its end marker is consumed
            !old(self).received_end ==> {
                let p = Self::pulled(old(self), final(self));
                p.len() > 0 && is_end(p.last()) && no_end(p.drop_last())                                    // #obl:fold.consumes_exactly_one_iteration
            },
            old(self).received_end ==> final(self).prev.hist() == old(self).prev.hist(),
            // output phase: result (the sequential fold, stamped with the max timestamp) first, then the held-back watermark,
            // then the end marker
            ({
                let d = Self::drained(old(self), final(self));
                match d.acc {
                    Some(a) => {
                        &&& r == (match d.ts { Some(t) => StreamElement::Timestamped(a, t), None => StreamElement::Item(a) })   // #obl:fold.result_is_sequential_fold_with_max_timestamp
                        &&& final(self).view() == (FoldState { acc: None, ts: None, wm: d.wm }) && final(self).received_end   // #obl:fold.result_emitted_once
                    },
                    None => match d.wm {
                        Some(w) => {
                            &&& r == StreamElement::<O>::Watermark(w)                                         // #obl:fold.watermark_held_back_until_result_is_out
                            &&& final(self).view() == (FoldState { acc: None, ts: None, wm: None }) && final(self).received_end
                        },
                        None => {
                            // empty iteration (or everything already emitted): only the end marker, and the state is the constructor's
                            &&& (r is FlushAndRestart || r is Terminate)                                      // #obl:fold.no_result_for_empty_iteration
                            &&& final(self).view() == (FoldState { acc: None, ts: None, wm: None })
                            &&& (r is FlushAndRestart ==> !final(self).received_end && !final(self).received_end_iter)   // #obl:fold.nothing_carried_over
                            &&& (r is Terminate ==> final(self).received_end && !final(self).received_end_iter)          // #obl:fold.terminate_is_sticky
                        },
                    },
                }
            }),
'''
def build(x):
    pieces = [S.CLONE_IS_EQ, PRELUDE, x.enum(FO, 'StreamElement')]
    st = x.struct(F, 'Fold')
    st.text = '#[verifier::reject_recursive_types(O)]\n#[verifier::reject_recursive_types(F)]\n#[verifier::reject_recursive_types(Op)]\n' + st.text
    pieces += [st, SPEC_IMPL]
    nx = x.method(F, 'Fold', 'next', trait='Operator')
    nx.name_result('r')
    nx.add_spec(NEXT_SPEC)
    nx.text = '#[verifier::exec_allows_no_decreases_clause]\n' + nx.text
    nx.insert_before('while !self.received_end', 'proof { assert(Self::pulled(old(self), self) =~= Seq::<StreamElement<Op::Out>>::empty()); }\n        ')
    nx.add_loop_spec(1, r'''
            invariant
                self.init == old(self).init, self.fold == old(self).fold, Self::fold_ok(self.fold),
                self.prev.hist().len() >= old(self).prev.hist().len(),
                self.received_end_iter ==> self.received_end, old(self).inv(),
                old(self).received_end ==> self.prev.hist() == old(self).prev.hist() && self.view() == old(self).view()
                    && self.received_end && self.received_end_iter == old(self).received_end_iter,
                (!old(self).received_end && !self.received_end) ==> no_end(Self::pulled(old(self), self))
                    && self.view() == Self::run(self.init, old(self).view(), Self::pulled(old(self), self))
                    && !self.received_end_iter,
                (!old(self).received_end && self.received_end) ==> {
                    let p = Self::pulled(old(self), self);
                    p.len() > 0 && is_end(p.last()) && no_end(p.drop_last())
                    && self.view() == Self::run(self.init, old(self).view(), p.drop_last())
                    && (self.received_end_iter == (p.last() is FlushAndRestart))
                },
''')
    nx.insert_before('// If there is an accumulated value, return it', 'proof { if !old(self).received_end { Self::lemma_run_ts(self.init, old(self).view(), Self::pulled(old(self), self).drop_last()); } }\n        ')
    nx.insert_before('match self.prev.next() {', 'let ghost h0 = self.prev.hist();\n            let ghost v0 = self.view();\n            ')
    nx.sub('V-SPEC', r'match self\.prev\.next\(\) \{', 'let __e = self.prev.next();\n            proof { let k = old(self).prev.hist().len() as int; assert(self.prev.hist().skip(k) =~= h0.skip(k).push(__e)); Self::lemma_run_push(self.init, old(self).view(), h0.skip(k), __e); assert(h0.skip(k).push(__e).drop_last() =~= h0.skip(k)); }\n            match __e {',
           detail='scrutinee bound to a ghost-visible name `__e`', must=True)
    pieces += ["impl<O: Send + Clone, F, Op> Fold<O, F, Op>\nwhere\n    F: Fn(&mut O, Op::Out) + Send + Clone,\n    Op: Operator,\n{", nx, "}"]
    return pieces
