"""C10 (replay) — Replay::{input_next, next, wait_update} (src/operator/iteration/replay.rs): the first operator of the body of
a `replay` loop.  Round 1 forwards the input and records it (data elements and watermarks, then the FlushAndRestart);
every later round re-feeds exactly that recording, in order; the state lock is taken exactly when a round's FlushAndRestart
is emitted; a round starts only after the leader's verdict arrived and was synchronised; when the loop finishes the
recording is dropped so that a re-executed (nested) loop starts afresh."""
import os, re, sys
sys.path.insert(0, os.path.dirname(os.path.dirname(__file__)))
import std_specs as S

PROPERTIES = ["C10"]
MIN_VERIFIED = 5
F = 'src/operator/iteration/replay.rs'
FI = 'src/operator/iteration/mod.rs'
FO = 'src/operator/mod.rs'
FN = 'src/network/mod.rs'
ASSUMPTIONS = [
    "IterationStateHandler is the environment (cross-thread protocol: lock, barrier, UnsafeCell - NOT verified): lock() and wait_sync_state(update) are logged in a ghost event list; wait_sync_state returns the verdict carried by the update; state_receiver() yields the link from the leader (R-CHAN: recv returns the next message)",
    "the leader sends one-element messages (obligation leader.feedback_to_every_sender_once_per_round of unit leader); an element other than Item/FlushBatch/FlushAndRestart on that link is a protocol violation (the code has unreachable!())",
    "prev.next() returns any element (model trait Operator with a ghost history); Clone yields an equal value",
    "termination of Replay::next is not verified (it blocks on the network)",
]
PRELUDE = r'''
use vstd::std_specs::iter::IteratorSpec;
type BlockId = u64; type HostId = u64; type ReplicaId = u64; type Timestamp = i64;
trait Data: Clone + Send + 'static {}
trait ExchangeData: Data {}
broadcast use trusted_axioms::axiom_data_clone;
trait Operator: Sized {
    type Out;
    spec fn hist(&self) -> Seq<StreamElement<Self::Out>>;
    fn next(&mut self) -> (r: StreamElement<Self::Out>)
        ensures final(self).hist() == old(self).hist().push(r);
}
type StateFeedback<State> = (IterationResult, State);
spec fn msg_data<T>(m: NetworkMessage<T>) -> Seq<StreamElement<T>> { match m.data { NetworkData::Batch(v) => v@ } }

// ---- environment: the link from the leader and the per-host state handler
#[derive(Debug)]
struct RecvError {}
#[verifier::external_body]
#[verifier::reject_recursive_types(In)]
struct NetworkReceiver<In> { _p: core::marker::PhantomData<In> }
impl<In> NetworkReceiver<In> {
    #[verifier::external_body]
    // the leader sends one-element messages: the round's verdict and state, or a bare FlushBatch / FlushAndRestart
    fn recv(&self) -> (r: Result<NetworkMessage<In>, RecvError>)
        ensures r is Ok, msg_data(r->Ok_0).len() == 1,
            msg_data(r->Ok_0)[0] is Item || msg_data(r->Ok_0)[0] is FlushBatch || msg_data(r->Ok_0)[0] is FlushAndRestart
    { unimplemented!() }
}
enum Ev<State> { Lock, Sync(StateFeedback<State>) }
#[verifier::external_body]
#[verifier::reject_recursive_types(State)]
struct IterationStateHandler<State> { _p: core::marker::PhantomData<State> }
impl<State> IterationStateHandler<State> {
    // what this replica asked of the shared state machinery, in order
    uninterp spec fn events(&self) -> Seq<Ev<State>>;
    #[verifier::external_body]
    fn lock(&mut self) ensures final(self).events() == old(self).events().push(Ev::Lock) { unimplemented!() }
    #[verifier::external_body]
    fn wait_sync_state(&mut self, state_update: StateFeedback<State>) -> (r: IterationResult)
        ensures final(self).events() == old(self).events().push(Ev::Sync(state_update)), r == state_update.0
    { unimplemented!() }
    #[verifier::external_body]
    fn state_receiver(&self) -> (r: Option<&NetworkReceiver<StateFeedback<State>>>) ensures r is Some { unimplemented!() }
}
spec fn recordable<T>(e: StreamElement<T>) -> bool { e is Item || e is Timestamped || e is Watermark }
'''
SPEC_IMPL = r'''
impl<Out: Data, State: ExchangeData, OperatorChain: Operator<Out = Out>> Replay<Out, State, OperatorChain> {
    spec fn inv(&self) -> bool {
        &&& self.content_index <= self.content@.len()
        // once the input is over the recording ends with its FlushAndRestart, which is the only one in it
        &&& (self.input_finished ==> self.content@.len() > 0 && self.content@.last() is FlushAndRestart)
        &&& (forall|i: int| 0 <= i < self.content@.len() - 1 ==> recordable(#[trigger] self.content@[i]))
        &&& (!self.input_finished ==> forall|i: int| 0 <= i < self.content@.len() ==> recordable(#[trigger] self.content@[i]))
        &&& (!self.input_finished ==> self.content_index == 0 || true)
    }
}
'''
INPUT_NEXT_SPEC = r'''
        requires old(self).inv(),
        ensures
            final(self).inv(), final(self).coord == old(self).coord,
            old(self).input_finished ==> r is None && *final(self) == *old(self),                                              // #obl:input_next.nothing_read_after_the_input_ended
            !old(self).input_finished ==> (r matches Some(e) && final(self).prev.hist() == old(self).prev.hist().push(e) && {
                // data elements and watermarks are forwarded AND recorded, in arrival order
                &&& (recordable(e) ==> final(self).content@ == old(self).content@.push(e) && !final(self).input_finished
                        && final(self).state.events() == old(self).state.events() && final(self).content_index == old(self).content_index)   // #obl:input_next.records_what_it_forwards
                // the end of the input closes the recording, marks the first round as replayed and takes the state lock
                &&& (e is FlushAndRestart ==> final(self).content@ == old(self).content@.push(e) && final(self).input_finished
                        && final(self).content_index == final(self).content@.len()
                        && final(self).state.events() == old(self).state.events().push(Ev::Lock))                              // #obl:input_next.end_of_input_closes_the_recording_and_locks_the_state
                // FlushBatch / Terminate are forwarded, never recorded
                &&& ((e is FlushBatch || e is Terminate) ==> final(self).content@ == old(self).content@ && !final(self).input_finished
                        && final(self).state.events() == old(self).state.events() && final(self).content_index == old(self).content_index)   // #obl:input_next.control_elements_not_recorded
            }),
'''
WAIT_UPDATE_SPEC = r'''
        ensures *final(self) == *old(self),                                                                                   // #obl:wait_update.touches_nothing
'''
NEXT_SPEC = r'''
        requires old(self).inv(),
        ensures
            final(self).inv(),                                                                                               // #obl:next.inv_preserved
            // ---- first round: the input is forwarded (and recorded) element by element
            !old(self).input_finished ==> final(self).prev.hist() == old(self).prev.hist().push(r)
                && (recordable(r) || r is FlushAndRestart ==> final(self).content@ == old(self).content@.push(r)),           // #obl:next.first_round_forwards_the_input
            // ---- later rounds: the recording is re-fed in order, one element per call ...
            old(self).input_finished && old(self).content_index < old(self).content@.len() ==>
                r == old(self).content@[old(self).content_index as int] && final(self).content_index == old(self).content_index + 1
                && final(self).content@ == old(self).content@ && final(self).input_finished && final(self).prev.hist() == old(self).prev.hist()
                // ... and the state lock is taken exactly when the round's FlushAndRestart goes out
                && final(self).state.events() == (if r is FlushAndRestart { old(self).state.events().push(Ev::Lock) } else { old(self).state.events() }),   // #obl:next.replays_the_recording_in_order_and_locks_at_its_end
            // ---- the recording has been replayed completely: the round is over.  The next one starts only after the verdict of
            //      the leader arrived and was synchronised through the state handler; Continue -> the recording is re-fed from its
            //      first element; Finished -> the recording is dropped and fresh input is read (a re-executed, nested loop)
            old(self).input_finished && old(self).content_index >= old(self).content@.len() ==> ({
                let n0 = old(self).state.events().len() as int;
                &&& final(self).state.events().len() > n0 && final(self).state.events().take(n0) =~= old(self).state.events()
                &&& final(self).state.events()[n0] is Sync                                                                     // #obl:next.new_round_only_after_the_state_update
                &&& (final(self).state.events()[n0]->Sync_0.0 is Continue ==>
                        r == old(self).content@[0] && final(self).content_index == 1 && final(self).content@ == old(self).content@
                        && final(self).input_finished && final(self).prev.hist() == old(self).prev.hist())                     // #obl:next.continue_replays_from_the_first_recorded_element
                &&& (final(self).state.events()[n0]->Sync_0.0 is Finished ==>
                        final(self).prev.hist() == old(self).prev.hist().push(r)
                        && final(self).content@ =~= (if recordable(r) || r is FlushAndRestart { seq![r] } else { Seq::empty() }))   // #obl:next.finished_drops_the_recording_and_reads_fresh_input
            }),
'''


def build(x):
    pieces = [S.CLONE_IS_EQ, S.RUST_PANIC, PRELUDE]
    se = x.enum(FO, 'StreamElement'); se.text = '#[derive(Clone)]\n' + se.text
    c = x.struct(FN, 'Coord'); c.text = '#[derive(Clone, Copy)]\n' + c.text
    ir = x.enum(FI, 'IterationResult'); ir.text = '#[derive(Clone)]\n' + ir.text
    pieces += [se, c, x.enum(FN, 'NetworkDataIterator'), x.enum(FN, 'NetworkData'), x.struct(FN, 'NetworkMessage'), ir]
    ni = x.method(FN, 'NetworkMessage', 'num_items'); ni.name_result('r')
    ni.add_spec("        ensures r == msg_data(*self).len(), // #obl:message.num_items")
    ii = x.method(FN, 'NetworkMessage', 'into_iter', trait='IntoIterator')
    ii.replace_exact('V-TRAIT', 'Self::IntoIter', 'NetworkDataIterator<StreamElement<T>>', detail='associated type IntoIter substituted')
    ii.name_result('r')
    ii.add_spec("        ensures (r matches NetworkDataIterator::Batch(i) && i.remaining() == msg_data(self)), // #obl:message.into_iter_yields_the_batch_in_order")
    nx0 = x.method(FN, 'NetworkDataIterator', 'next', trait='Iterator')
    nx0.replace_exact('V-TRAIT', 'Self::Item', 'T', detail='associated type Item substituted')
    nx0.name_result('r')
    nx0.add_spec('''        ensures
            (*old(self) matches NetworkDataIterator::Batch(i0) && *final(self) matches NetworkDataIterator::Batch(i1) &&
                (if i0.remaining().len() == 0 { r is None && i1.remaining() == i0.remaining() }
                 else { r == Some(i0.remaining()[0]) && i1.remaining() == i0.remaining().skip(1) })),   // #obl:data_iterator.next_pops_head''')
    pieces += ["impl<T> NetworkMessage<T> {", ni, ii, "}", "impl<T> NetworkDataIterator<T> {", nx0, "}"]
    st = x.struct(F, 'Replay')
    st.text = '#[verifier::reject_recursive_types(Out)]\n#[verifier::reject_recursive_types(State)]\n#[verifier::reject_recursive_types(OperatorChain)]\n' + st.text
    pieces += [st, SPEC_IMPL]
    inx = x.method(F, 'Replay', 'input_next'); inx.name_result('r'); inx.add_spec(INPUT_NEXT_SPEC)
    wu = x.method(F, 'Replay', 'wait_update'); wu.name_result('r')
    wu.desugar_assert()
    wu.sub('V-ASSERT', r'm => unreachable!\((?:[^()]|\((?:[^()]|\([^()]*\))*\))*\),', 'm => { rust_panic(); }', detail='unreachable!() arm -> rust_panic() (requires false): the leader only sends Item / FlushBatch / FlushAndRestart (assumed)', flags=re.S, must=True)
    wu.add_spec(WAIT_UPDATE_SPEC)
    wu.text = '#[verifier::exec_allows_no_decreases_clause]\n' + wu.text
    nx = x.method(F, 'Replay', 'next', trait='Operator'); nx.name_result('r'); nx.add_spec(NEXT_SPEC)
    nx.text = '#[verifier::exec_allows_no_decreases_clause]\n' + nx.text
    nx.insert_at_body_start('\n        let ghost mut waited: bool = false;')
    nx.add_loop_spec(1, r'''
            invariant
                self.inv(), old(self).inv(),
                !waited ==> *self == *old(self),
                waited ==> ({
                    let n0 = old(self).state.events().len() as int;
                    &&& old(self).input_finished && old(self).content_index >= old(self).content@.len()
                    &&& self.state.events().len() == n0 + 1 && self.state.events().take(n0) =~= old(self).state.events() && self.state.events()[n0] is Sync
                    &&& self.content_index == 0 && self.prev.hist() == old(self).prev.hist()
                    &&& (self.state.events()[n0]->Sync_0.0 is Finished ==> self.content@.len() == 0 && !self.input_finished)
                    &&& (self.state.events()[n0]->Sync_0.0 is Continue ==> self.content@ == old(self).content@ && self.input_finished)
                }),
''')
    nx.insert_at_loop_end(1, '\n            proof { waited = true; }\n        ')
    hdr = "impl<Out: Data, State: ExchangeData, OperatorChain: Operator<Out = Out>> Replay<Out, State, OperatorChain> {"
    pieces += [hdr, inx, wu, nx, "}"]
    return pieces
