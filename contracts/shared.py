"""Contract texts shared between a *stub* (used by callers, modular verification) and the *proof unit*
of the real callee.  Keeping one string guarantees the caller is checked against exactly the contract
that the callee's own unit discharges."""

# ---- Batcher (src/block/batcher.rs) -------------------------------------------------------------
# abstract view: all() = everything ever enqueued, in order (= sent ++ pending); pending() = #not yet sent
BATCHER_ENQUEUE_ENSURES = "final(self).all() == old(self).all().push(message)"
BATCHER_FLUSH_ENSURES = "final(self).all() == old(self).all(), final(self).pending() == 0"

BATCHER_STUB = r'''
// ---- contract stub of crate::block::Batcher (bodies verified in unit `batcher`)
#[verifier::external_body]
#[verifier::reject_recursive_types(Out)]
struct Batcher<Out> { _p: std::marker::PhantomData<Out> }
impl<Out> Batcher<Out> {
    uninterp spec fn all(&self) -> Seq<StreamElement<Out>>;
    uninterp spec fn pending(&self) -> nat;
    #[verifier::external_body]
    fn enqueue(&mut self, message: StreamElement<Out>)
        ensures ''' + BATCHER_ENQUEUE_ENSURES + r'''
    { unimplemented!() }
    #[verifier::external_body]
    fn flush(&mut self)
        ensures ''' + BATCHER_FLUSH_ENSURES + r'''
    { unimplemented!() }
    // witness that a batcher VALUE was handed to end() (which sends everything it still holds: obligation
    // end.everything_sent_in_order of unit `batcher`); nothing else can establish it
    uninterp spec fn ended(b: Self) -> bool;
    #[verifier::external_body]
    fn end(self)
        ensures Self::ended(self)
    { unimplemented!() }
}
'''

# ---- NextStrategy::index (src/block/next_strategy.rs) -------------------------------------------
INDEX_REQUIRES = "self.total()"
INDEX_ENSURES = "self.may_index(*message, r)"

NEXT_STRATEGY_STUB = r'''
// ---- contract stub of crate::block::NextStrategy::index (body verified in unit `next_strategy`)
#[verifier::external_body]
#[verifier::reject_recursive_types(Out)]
#[verifier::reject_recursive_types(IndexFn)]
struct NextStrategy<Out, IndexFn> { _p: std::marker::PhantomData<(Out, IndexFn)> }
impl<Out, IndexFn> NextStrategy<Out, IndexFn> {
    // may_index(m, i): the strategy allows routing index i for message m
    //   OnlyOne | All => i == 0;  GroupBy(keyer) => i == keyer(m) as usize;  Random => any i
    uninterp spec fn may_index(&self, m: Out, i: usize) -> bool;
    // the user's keyer closure is total
    uninterp spec fn total(&self) -> bool;
    #[verifier::external_body]
    fn index(&self, message: &Out) -> (r: usize)
        requires ''' + INDEX_REQUIRES + r''',
        ensures ''' + INDEX_ENSURES + r''',
    { unimplemented!() }
}
'''

# ---- WatermarkFrontier (src/operator/start/watermark_frontier.rs) -------------------------------
# view: entries() : Map<Coord, Option<Timestamp>> (latest watermark per upstream replica), front() : last value reported
FRONTIER_SPEC = r'''
spec fn announce(before: Option<Timestamp>, after: Option<Timestamp>) -> Option<Timestamp> {
    match (before, after) {
        (None, Some(n)) => Some(n),
        (Some(o), Some(n)) => if o != n { Some(n) } else { None },
        _ => None,
    }
}
// v is the frontier of the entries: None while some replica has no watermark yet, else the minimum
spec fn frontier_of(e: Map<Coord, Option<Timestamp>>, v: Option<Timestamp>) -> bool {
    if exists|c: Coord| e.contains_key(c) && #[trigger] e[c] is None { v is None }
    else if e.dom() =~= Set::empty() { v is None }
    else {
        &&& v is Some
        &&& forall|c: Coord| e.contains_key(c) ==> v->0 <= (#[trigger] e[c])->0
        &&& exists|c: Coord| e.contains_key(c) && (#[trigger] e[c])->0 == v->0
    }
}
spec fn raised(old_: Option<Timestamp>, ts: Timestamp) -> Option<Timestamp> {
    match old_ { Some(t) => if t >= ts { Some(t) } else { Some(ts) }, None => Some(ts) }
}
'''
FRONTIER_UPDATE_REQUIRES = "old(self).entries().contains_key(coord), frontier_of(old(self).entries(), old(self).front()),"
FRONTIER_UPDATE_ENSURES = """
            final(self).entries() == old(self).entries().insert(coord, raised(old(self).entries()[coord], ts)),
            final(self).entries().dom() == old(self).entries().dom(),
            old(self).front() is Some ==> final(self).front() is Some && final(self).front()->0 >= old(self).front()->0,
            frontier_of(final(self).entries(), final(self).front()),
            r == announce(old(self).front(), final(self).front()),
            (r is Some && old(self).front() is Some) ==> r->0 > old(self).front()->0,"""
FRONTIER_RESET_ENSURES = """
            final(self).front() is None,
            final(self).entries().dom() == old(self).entries().dom(),
            forall|c: Coord| final(self).entries().contains_key(c) ==> (#[trigger] final(self).entries()[c]) is None,"""


# ---- the inspectors of StreamElement (src/operator/mod.rs), each under its own contract; a unit includes them so that a
# function under contract may call them (a call to a function without contract would make the caller's failures undecided)
def stream_element_inspectors(x, FO='src/operator/mod.rs'):
    tk = x.method(FO, 'StreamElement', 'take'); tk.name_result('r')
    tk.add_spec('''        ensures
            (self is Item || self is Timestamped) ==> r == StreamElement::<()>::Item(()),
            (self matches StreamElement::Watermark(w) ==> r == StreamElement::<()>::Watermark(*w)),
            self is Terminate ==> r is Terminate, self is FlushAndRestart ==> r is FlushAndRestart, self is FlushBatch ==> r is FlushBatch,   // #obl:element.take_keeps_the_kind
''')
    va = x.method(FO, 'StreamElement', 'value'); va.name_result('r')
    va.add_spec('''        ensures
            (self matches StreamElement::Item(v) ==> r == Some(v)),
            (self matches StreamElement::Timestamped(v, _) ==> r == Some(v)),
            !(self is Item || self is Timestamped) ==> r is None,                                            // #obl:element.value_is_the_payload_of_data_elements
''')
    ts = x.method(FO, 'StreamElement', 'timestamp'); ts.name_result('r')
    ts.add_spec('''        ensures
            (self matches StreamElement::Timestamped(_, t) ==> r == Some(t)),
            (self matches StreamElement::Watermark(t) ==> r == Some(t)),
            !(self is Watermark || self is Timestamped) ==> r is None,                                       // #obl:element.timestamp_of_timestamped_and_watermark
''')
    return ["impl<Out> StreamElement<Out> {", tk, va, ts, "}"]
