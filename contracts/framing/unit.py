"""C02 (TCP framing) — remote_send / remote_recv (src/network/sync/remote.rs): every frame is header ++ body, the receiver consumes
exactly one frame and reconstructs (destination endpoint, message); the next frame starts aligned."""
import os, re, sys
sys.path.insert(0, os.path.dirname(os.path.dirname(__file__)))
import std_specs as S

PROPERTIES = ["C02"]
MIN_VERIFIED = 2
F = 'src/network/sync/remote.rs'
FN = 'src/network/mod.rs'
ASSUMPTIONS = [
    "codec model: bincode serialize/deserialize are inverse (dec(enc(x)) == x) and the header encoding has exactly HEADER_SIZE bytes (the repository's own unit test header_size pins the latter); the two Lazy config statics are replaced by accessors of the model codec",
    "model of std::io::{Read, Write}: write_all appends all bytes and succeeds (a failing link panics: fail-stop, C20), messages are < 4 GiB (else try_into panics); read_exact fills the buffer from the stream head or fails; read may return ANY prefix length (short reads)",
    "V-SUBST: `.unwrap_or_else(|e| panic!(..))` -> `.unwrap()` (both panic on Err), `assert_eq!(a, b)` -> V-ASSERT, profiler calls and log statements dropped",
    "the TCP stream itself is a reliable FIFO byte stream (R-CHAN) whose peer is remote_send: remote_recv requires a well-formed frame at the head of the stream (a malformed one makes the real code panic: fail-stop)", "usize is 64 bit",
]
PRELUDE = r'''
global size_of usize == 8;
type BlockId = u64; type HostId = u64; type ReplicaId = u64; type Timestamp = i64;
trait ExchangeData: Clone + Send + 'static {}
#[derive(Debug)]
#[verifier::external_body]
struct IoError {}
#[derive(Debug)]
#[verifier::external_body]
struct CodecError {}
// ---- model of std::io::Write / Read over a reliable byte stream
trait Write: Sized {
    spec fn written(&self) -> Seq<u8>;
    fn write_all(&mut self, buf: &[u8]) -> (r: Result<(), IoError>)
        ensures r is Ok, final(self).written() == old(self).written() + buf@;
}
trait Read: Sized {
    spec fn pending(&self) -> Seq<u8>;
    fn read_exact(&mut self, buf: &mut [u8]) -> (r: Result<(), IoError>)
        ensures
            final(buf)@.len() == old(buf)@.len(),
            old(self).pending().len() >= old(buf)@.len() ==> r is Ok && final(buf)@ == old(self).pending().take(old(buf)@.len() as int)
                && final(self).pending() == old(self).pending().skip(old(buf)@.len() as int),
            old(self).pending().len() < old(buf)@.len() ==> r is Err;
    // a plain read may deliver any number of the requested bytes
    fn read(&mut self, buf: &mut [u8]) -> (r: Result<usize, IoError>)
        ensures
            final(buf)@.len() == old(buf)@.len(),
            r matches Ok(n) ==> n <= old(buf)@.len() && n <= old(self).pending().len()
                && final(buf)@.take(n as int) == old(self).pending().take(n as int)
                && final(buf)@.skip(n as int) == old(buf)@.skip(n as int)
                && final(self).pending() == old(self).pending().skip(n as int);
}
// ---- codec model (bincode)
mod codec_axioms {
    use vstd::prelude::*;
    use super::{MessageHeader, NetworkMessage};
    pub uninterp spec fn enc_hdr(h: MessageHeader) -> Seq<u8>;
    pub uninterp spec fn dec_hdr(b: Seq<u8>) -> Option<MessageHeader>;
    pub uninterp spec fn enc_msg<T>(m: NetworkMessage<T>) -> Seq<u8>;
    pub uninterp spec fn dec_msg<T>(b: Seq<u8>) -> Option<NetworkMessage<T>>;
    #[verifier::external_body]
    pub broadcast proof fn axiom_hdr(h: MessageHeader)
        ensures dec_hdr(#[trigger] enc_hdr(h)) == Some(h), enc_hdr(h).len() == 20 {}
    #[verifier::external_body]
    pub broadcast proof fn axiom_msg<T>(m: NetworkMessage<T>)
        ensures dec_msg::<T>(#[trigger] enc_msg(m)) == Some(m) {}
}
use codec_axioms::{enc_hdr, dec_hdr, enc_msg, dec_msg};
broadcast use codec_axioms::axiom_hdr, codec_axioms::axiom_msg;
#[verifier::external_body]
struct HdrCfg {}
#[verifier::external_body]
struct MsgCfg {}
#[verifier::external_body]
fn hdr_cfg() -> (r: HdrCfg) { unimplemented!() }
#[verifier::external_body]
fn msg_cfg() -> (r: MsgCfg) { unimplemented!() }
impl HdrCfg {
    #[verifier::external_body]
    fn serialize_into(&self, buf: &mut Vec<u8>, h: &MessageHeader) -> (r: Result<(), CodecError>)
        ensures r is Ok, final(buf)@ == old(buf)@ + enc_hdr(*h) { unimplemented!() }
    #[verifier::external_body]
    fn deserialize(&self, bytes: &[u8; HEADER_SIZE]) -> (r: Result<MessageHeader, CodecError>)
        ensures dec_hdr(bytes@) matches Some(h) ==> r == Ok::<MessageHeader, CodecError>(h) { unimplemented!() }
}
impl MsgCfg {
    #[verifier::external_body]
    fn serialized_size<T>(&self, m: &NetworkMessage<T>) -> (r: Result<u64, CodecError>)
        ensures r is Ok, r->Ok_0 == enc_msg(*m).len(), r->Ok_0 <= u32::MAX { unimplemented!() }
    #[verifier::external_body]
    fn serialize_into<T>(&self, buf: &mut Vec<u8>, m: &NetworkMessage<T>) -> (r: Result<(), CodecError>)
        ensures r is Ok, final(buf)@ == old(buf)@ + enc_msg(*m) { unimplemented!() }
    #[verifier::external_body]
    fn deserialize<T>(&self, bytes: &[u8]) -> (r: Result<NetworkMessage<T>, CodecError>)
        ensures dec_msg::<T>(bytes@) matches Some(m) ==> r == Ok::<NetworkMessage<T>, CodecError>(m) { unimplemented!() }
}
spec fn wellformed<T>(p: Seq<u8>) -> bool {
    exists|m: NetworkMessage<T>, d: ReceiverEndpoint, rest: Seq<u8>| p == #[trigger] (frame(m, d) + rest) && enc_msg(m).len() <= u32::MAX
}
// what remote_send puts on the wire for (msg, dest)
spec fn frame<T>(msg: NetworkMessage<T>, dest: ReceiverEndpoint) -> Seq<u8> {
    enc_hdr(MessageHeader { size: enc_msg(msg).len() as u32, replica_id: dest.coord.replica_id, sender_block_id: dest.prev_block_id }) + enc_msg(msg)
}
'''
SEND_SPEC = r'''
        ensures final(writer).written() == old(writer).written() + frame(msg, dest),    // #obl:framing.send_writes_header_then_body
'''
RECV_SPEC = r'''
        requires
            // environment: the peer is remote_send (well-formed frames), or the stream is closed
            old(reader).pending().len() < HEADER_SIZE || wellformed::<T>(old(reader).pending()),
        ensures
            // the encode/decode pair is inverse: a frame produced by remote_send for an endpoint of this demultiplexer is
            // returned unchanged, with its destination, and exactly its bytes are consumed (the next frame starts aligned)
            forall|msg: NetworkMessage<T>, dest: ReceiverEndpoint, rest: Seq<u8>|
                old(reader).pending() == #[trigger] (frame(msg, dest) + rest) && enc_msg(msg).len() <= u32::MAX
                    && dest.coord.block_id == coord.coord.block_id && dest.coord.host_id == coord.coord.host_id
                ==> r == Some((dest, msg)) && final(reader).pending() == rest,                                   // #obl:framing.recv_returns_the_sent_message_and_consumes_exactly_one_frame
            old(reader).pending().len() < HEADER_SIZE ==> r is None,                                              // #obl:framing.recv_none_on_closed_stream
'''
HINT_WF = r'''
    let ghost p0 = reader.pending();
    let ghost wm: NetworkMessage<T> = arbitrary();
    let ghost wd: ReceiverEndpoint = arbitrary();
    let ghost wrest: Seq<u8> = Seq::empty();
    proof {
        if p0.len() >= HEADER_SIZE {
            let (m, d, rest) = choose|m: NetworkMessage<T>, d: ReceiverEndpoint, rest: Seq<u8>| p0 == #[trigger] (frame(m, d) + rest) && enc_msg(m).len() <= u32::MAX;
            wm = m; wd = d; wrest = rest;
            let h = MessageHeader { size: enc_msg(m).len() as u32, replica_id: d.coord.replica_id, sender_block_id: d.prev_block_id };
            assert(enc_hdr(h).len() == 20);
            assert(p0.take(20) =~= enc_hdr(h));
            assert(p0.skip(20).take(enc_msg(m).len() as int) =~= enc_msg(m));
            assert(p0.skip(20).skip(enc_msg(m).len() as int) =~= rest);
        }
    }
'''
HINT_RECV = r'''proof {
        assert(msg == wm && reader.pending() == wrest);   // #obl:recv.reads_exactly_the_frame_that_was_sent
        assert forall|m: NetworkMessage<T>, d: ReceiverEndpoint, rest: Seq<u8>| p0 == #[trigger] (frame(m, d) + rest) && enc_msg(m).len() <= u32::MAX
            && d.coord.block_id == coord.coord.block_id && d.coord.host_id == coord.coord.host_id
            implies msg == m && header.replica_id == d.coord.replica_id && header.sender_block_id == d.prev_block_id
                && reader.pending() == rest by {
            let h = MessageHeader { size: enc_msg(m).len() as u32, replica_id: d.coord.replica_id, sender_block_id: d.prev_block_id };
            assert(enc_hdr(h).len() == 20);
            assert(p0.take(20) =~= enc_hdr(h));
            assert(p0.skip(20).take(enc_msg(m).len() as int) =~= enc_msg(m));
            assert(p0.skip(20).skip(enc_msg(m).len() as int) =~= rest);
        }
    }
    '''

def build(x):
    pieces = [S.RUST_PANIC, PRELUDE]
    src = x.src(F)
    m = re.search(r'const HEADER_SIZE: usize = (\d+);', src.text)
    pieces.append(f"const HEADER_SIZE: usize = {m.group(1)};   // extracted from {F}")
    c = x.struct(FN, 'Coord'); c.text = '#[derive(Clone, Copy)]\n' + c.text
    bc = x.struct(FN, 'BlockCoord'); bc.text = '#[derive(Clone, Copy)]\n' + bc.text
    re_ = x.struct(FN, 'ReceiverEndpoint'); re_.text = '#[derive(Clone, Copy)]\n' + re_.text
    dc = x.struct(FN, 'DemuxCoord'); dc.text = '#[derive(Clone, Copy)]\n' + dc.text
    cn = x.method(FN, 'Coord', 'new'); cn.name_result('r')
    cn.add_spec("        ensures r.block_id == block_id && r.host_id == host_id && r.replica_id == replica_id, // #obl:coord.new")
    rn = x.method(FN, 'ReceiverEndpoint', 'new'); rn.name_result('r')
    rn.add_spec("        ensures r.coord == coord && r.prev_block_id == prev_block_id, // #obl:receiver_endpoint.new")
    pieces += [c, bc, re_, dc, "impl Coord {", cn, "}", "impl ReceiverEndpoint {", rn, "}"]
    # opaque payload types
    pieces.append("#[verifier::external_body]\n#[verifier::reject_recursive_types(T)]\nstruct NetworkMessage<T> { _p: std::marker::PhantomData<T> }")
    pieces.append(x.struct(F, 'MessageHeader'))
    def common(fr):
        fr.sub('V-SUBST', r'\.unwrap_or_else\(\|e\| \{?\s*panic!\((?:[^()]|\((?:[^()]|\([^()]*\))*\))*\)\s*,?;?\s*\}?\)', '.unwrap()', detail='.unwrap_or_else(|e| panic!(..)) -> .unwrap()')
        fr.sub('V-SUBST', r'\bBINCODE_HEADER_CONFIG\b', 'hdr_cfg()', detail='Lazy static codec config -> model codec accessor')
        fr.sub('V-SUBST', r'\bBINCODE_MSG_CONFIG\b', 'msg_cfg()', detail='Lazy static codec config -> model codec accessor')
        fr.sub('V-LOG', r'get_profiler\(\)\s*\.net_bytes_(?:in|out)\((?:[^()]|\((?:[^()]|\([^()]*\))*\))*\);', '', detail='profiler call dropped')
        fr.sub('V-SUBST', r'\.expect\("[^"]*"\)', '.unwrap()', detail='.expect(msg) -> .unwrap()')
        fr.sub('V-ATTR', r'^\s*#\[cfg\(not\(feature = "tokio"\)\)\]\s*\n', '', detail='cfg(not(feature = "tokio")) (default build) dropped')
    sd = x.top_fn(F, 'remote_send')
    common(sd)
    sd.sub('V-ASSERT', r'assert_eq!\(([^,;]+), ([^;]+)\);', r'{ let __c: bool = \1 == \2; if !__c { rust_panic(); } }', detail='assert_eq!(a, b) -> panic obligation')
    sd.sub('V-SUBST', r'(\w+)\.as_ref\(\)', r'\1.as_slice()', detail='Vec::as_ref() -> as_slice() (same slice)')
    sd.add_spec(SEND_SPEC)
    rc = x.top_fn(F, 'remote_recv')
    common(rc)
    rc.sub('V-SUBST', r'(\w+)\.as_ref\(\)', r'\1.as_slice()', detail='Vec::as_ref() -> as_slice() (same slice)')
    rc.name_result('r')
    rc.add_spec(RECV_SPEC)
    rc.insert_at_body_start(HINT_WF)
    rc.insert_before(re.compile(r'let dest = ReceiverEndpoint::new\('), HINT_RECV)
    pieces += [sd, rc]
    return pieces
