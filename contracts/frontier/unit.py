"""C06 / C17 — WatermarkFrontier::{new, update, reset, compute_frontier}, opt_join: Kani single-call contract harnesses
on the real code (real indexmap + fxhash).  The contract is the one the Start::next unit uses as a stub
(contracts/shared.py FRONTIER_*): entry raised to max, front = min of entries or None, return = new frontier iff changed,
announced values strictly increase."""
ENGINE = 'kani'
PROPERTIES = ['C06', 'C17']
FUNCTIONS = ['src/operator/start/watermark_frontier.rs: WatermarkFrontier::{new,update,reset,compute_frontier}', 'src/operator/start/watermark_frontier.rs: opt_join']
OVERLAY = [('src/operator/start/watermark_frontier/verif_frontier.rs', 'verif_frontier.rs')]
MOD_LINES = [('src/operator/start/watermark_frontier.rs', '#[cfg(kani)] mod verif_frontier;')]
ASSUMPTIONS = [
    'state-size bound: 2 upstream replicas with fixed coordinates (IndexMap + fxhash under CBMC: 3 replicas did not finish in 25 min); entries, front, timestamp fully symbolic; unwinding assertions ON',
    'correspondence between the executable predicates of the harness (spec_frontier, announce) and the Verus spec fns frontier_of/announce in contracts/shared.py is by review',
]
B = 'replicas=2 (fixed coords), entries/ts symbolic'
HARNESSES = [
    {'name': 'frontier_update_contract_k0', 'tier': 'quick', 'timeout': 1500, 'form': 'K-step', 'bounds': B},
    {'name': 'frontier_update_contract_k1', 'tier': 'quick', 'timeout': 1500, 'form': 'K-step', 'bounds': B},
    {'name': 'frontier_reset_contract', 'tier': 'quick', 'timeout': 1500, 'form': 'K-step', 'bounds': B},
    {'name': 'frontier_new_contract', 'tier': 'quick', 'timeout': 1500, 'form': 'K-step', 'bounds': B},
    {'name': 'frontier_opt_join_contract', 'tier': 'quick', 'timeout': 600, 'form': 'K-attr (loop-free, complete)', 'bounds': 'none'},
]
KANI_ARGS = []
