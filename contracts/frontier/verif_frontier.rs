//! K-step contract harness for WatermarkFrontier::{update, reset} (overlay, cfg(kani) only)
use super::*;

const N: usize = 2;

fn coords() -> [Coord; N] {
    [Coord::new(0, 0, 0), Coord::new(0, 1, 0)]
}

fn spec_frontier(e: &[Option<Timestamp>; N]) -> Option<Timestamp> {
    let mut m: Option<Timestamp> = None;
    let mut i = 0;
    while i < N {
        match e[i] {
            None => return None,
            Some(t) => {
                m = match m { None => Some(t), Some(x) => Some(if t < x { t } else { x }) };
            }
        }
        i += 1;
    }
    m
}

fn announce(before: Option<Timestamp>, after: Option<Timestamp>) -> Option<Timestamp> {
    match (before, after) {
        (None, Some(n)) => Some(n),
        (Some(o), Some(n)) if o != n => Some(n),
        _ => None,
    }
}

fn any_state() -> (WatermarkFrontier, [Option<Timestamp>; N]) {
    let cs = coords();
    let mut f = WatermarkFrontier::new(cs);
    let e: [Option<Timestamp>; N] = kani::any();
    let mut i = 0;
    while i < N {
        f.map[&cs[i]] = e[i];
        i += 1;
    }
    // representation invariant: front is the frontier of the entries
    f.front = spec_frontier(&e);
    (f, e)
}

#[kani::proof]
#[kani::unwind(5)]
fn frontier_update_contract_k0() { update_contract(0) }
#[kani::proof]
#[kani::unwind(5)]
fn frontier_update_contract_k1() { update_contract(1) }
fn update_contract(k: usize) {
    let cs = coords();
    let (mut f, e) = any_state();
    let ts: Timestamp = kani::any();
    let front0 = f.front;
    let r = f.update(cs[k], ts);
    // entries: only entry k changes, to max(old, ts)
    let mut i = 0;
    while i < N {
        let now = f.map[&cs[i]];
        if i == k {
            let want = match e[i] { Some(t) if t >= ts => Some(t), _ => Some(ts) };
            kani::assert(now == want, "obl:frontier.update.entry_raised_to_max");
        } else {
            kani::assert(now == e[i], "obl:frontier.update.other_entries_unchanged");
        }
        i += 1;
    }
    let mut e2 = e;
    e2[k] = f.map[&cs[k]];
    kani::assert(f.front == spec_frontier(&e2), "obl:frontier.update.front_is_min_of_entries");
    kani::assert(r == announce(front0, f.front), "obl:frontier.update.returns_new_frontier_iff_changed");
    if let (Some(w), Some(o)) = (r, front0) {
        kani::assert(w > o, "obl:frontier.update.announced_watermarks_strictly_increase");
    }
    if let Some(o) = front0 {
        kani::assert(matches!(f.front, Some(n) if n >= o), "obl:frontier.update.front_never_decreases");
    }
    kani::assert(f.map.len() == N, "obl:frontier.update.domain_unchanged");
    kani::cover!(r.is_some(), "cov:update_announces");
    kani::cover!(r.is_none() && f.front.is_some(), "cov:update_silent_with_front");
}

#[kani::proof]
#[kani::unwind(5)]
fn frontier_reset_contract() {
    let cs = coords();
    let (mut f, _e) = any_state();
    f.reset();
    kani::assert(f.front.is_none(), "obl:frontier.reset.front_none");
    let mut i = 0;
    while i < N {
        kani::assert(f.map[&cs[i]].is_none(), "obl:frontier.reset.entries_none");
        i += 1;
    }
    kani::assert(f.map.len() == N, "obl:frontier.reset.domain_unchanged");
    kani::cover!(true, "cov:reset_reached");
}


/// WatermarkFrontier::new: one entry per upstream replica, none reported yet
#[kani::proof]
#[kani::unwind(5)]
fn frontier_new_contract() {
    let cs = coords();
    let f = WatermarkFrontier::new(cs);
    kani::assert(f.map.len() == N && f.front.is_none(), "obl:frontier.new.all_entries_none");
    let mut i = 0;
    while i < N {
        kani::assert(f.map[&cs[i]].is_none(), "obl:frontier.new.all_entries_none");
        i += 1;
    }
    kani::cover!(true, "cov:new_reached");
}

/// opt_join (loop-free, full domain): None is the neutral element
#[kani::proof]
fn frontier_opt_join_contract() {
    let a: Option<Timestamp> = kani::any();
    let b: Option<Timestamp> = kani::any();
    let r = opt_join(a, b, std::cmp::min);
    let want = match (a, b) {
        (Some(x), Some(y)) => Some(if x < y { x } else { y }),
        (Some(x), None) | (None, Some(x)) => Some(x),
        (None, None) => None,
    };
    kani::assert(r == want, "obl:frontier.opt_join.min_with_none_neutral");
    kani::cover!(r.is_some(), "cov:opt_join_some");
}
