"""C09 / C06 / C05 — Zip::next (src/operator/zip.rs): positional one-to-one pairing."""
import os, re, sys
sys.path.insert(0, os.path.dirname(os.path.dirname(__file__)))
import std_specs as S

PROPERTIES = ["C09", "C06", "C05"]
MIN_VERIFIED = 2
F = 'src/operator/zip.rs'
FO = 'src/operator/mod.rs'
FB = 'src/operator/start/binary.rs'
ASSUMPTIONS = [
    "prev (the two-input Start) returns any BinaryElement stream whose data elements are uniformly timestamped or uniformly not (mixing is a documented user error that panics)",
    "V-SUBST: `item.map(|_| unreachable!())` (re-typing of a control element) replaced by a contracted stub `retype_control` that requires the element to be a control element and preserves it",
]
PRELUDE = r'''
use std::collections::VecDeque;
type Timestamp = i64; type BlockId = u64;
trait Data: Clone + Send + 'static {}
impl<T: Clone + Send + 'static> Data for T {}
trait ExchangeData: Clone + Send + 'static {}
#[verifier::external_body]
#[verifier::reject_recursive_types(A)]
#[verifier::reject_recursive_types(B)]
struct BinaryStartOperator<A: Data, B: Data> { _p: std::marker::PhantomData<(A, B)> }
impl<A: Data, B: Data> BinaryStartOperator<A, B> {
    uninterp spec fn hist(&self) -> Seq<StreamElement<BinaryElement<A, B>>>;
    uninterp spec fn timestamped(&self) -> bool;
    #[verifier::external_body]
    fn next(&mut self) -> (r: StreamElement<BinaryElement<A, B>>)
        ensures final(self).hist() == old(self).hist().push(r), final(self).timestamped() == old(self).timestamped(),
                r is Item ==> !old(self).timestamped(), r is Timestamped ==> old(self).timestamped(),
    { unimplemented!() }
}
spec fn is_ctl<T>(e: StreamElement<T>) -> bool { e is Watermark || e is FlushAndRestart || e is FlushBatch || e is Terminate }
spec fn retyped<T, U>(e: StreamElement<T>) -> StreamElement<U> {
    match e {
        StreamElement::Watermark(w) => StreamElement::Watermark(w),
        StreamElement::FlushAndRestart => StreamElement::FlushAndRestart,
        StreamElement::FlushBatch => StreamElement::FlushBatch,
        _ => StreamElement::Terminate,
    }
}
// contract of StreamElement::map applied to a control element with a closure that is never called
#[verifier::external_body]
fn retype_control<T, U>(e: StreamElement<T>) -> (r: StreamElement<U>)
    requires is_ctl(e),
    ensures r == retyped::<T, U>(e),
{ unimplemented!() }
spec fn tmax(a: Timestamp, b: Timestamp) -> Timestamp { if a >= b { a } else { b } }
spec fn kind_ok<T>(s: Seq<StreamElement<T>>, tsd: bool) -> bool {
    forall|i: int| 0 <= i < s.len() ==> (if tsd { #[trigger] s[i] is Timestamped } else { s[i] is Item })
}
spec fn pair_of<A, B>(a: StreamElement<A>, b: StreamElement<B>) -> StreamElement<(A, B)> {
    match (a, b) {
        (StreamElement::Item(x), StreamElement::Item(y)) => StreamElement::Item((x, y)),
        (StreamElement::Timestamped(x, t1), StreamElement::Timestamped(y, t2)) => StreamElement::Timestamped((x, y), tmax(t1, t2)),
        _ => StreamElement::Terminate,
    }
}
// left / right data elements of a pulled history, in arrival order
spec fn lefts<A: Data, B: Data>(h: Seq<StreamElement<BinaryElement<A, B>>>) -> Seq<StreamElement<A>> decreases h.len() {
    if h.len() == 0 { Seq::empty() } else {
        match h.last() {
            StreamElement::Item(BinaryElement::Left(x)) => lefts(h.drop_last()).push(StreamElement::Item(x)),
            StreamElement::Timestamped(BinaryElement::Left(x), t) => lefts(h.drop_last()).push(StreamElement::Timestamped(x, t)),
            _ => lefts(h.drop_last()),
        }
    }
}
spec fn rights<A: Data, B: Data>(h: Seq<StreamElement<BinaryElement<A, B>>>) -> Seq<StreamElement<B>> decreases h.len() {
    if h.len() == 0 { Seq::empty() } else {
        match h.last() {
            StreamElement::Item(BinaryElement::Right(x)) => rights(h.drop_last()).push(StreamElement::Item(x)),
            StreamElement::Timestamped(BinaryElement::Right(x), t) => rights(h.drop_last()).push(StreamElement::Timestamped(x, t)),
            _ => rights(h.drop_last()),
        }
    }
}
proof fn lemma_sides_push<A: Data, B: Data>(h: Seq<StreamElement<BinaryElement<A, B>>>, e: StreamElement<BinaryElement<A, B>>)
    ensures
        lefts(h.push(e)) == (match e {
            StreamElement::Item(BinaryElement::Left(x)) => lefts(h).push(StreamElement::Item(x)),
            StreamElement::Timestamped(BinaryElement::Left(x), t) => lefts(h).push(StreamElement::Timestamped(x, t)),
            _ => lefts(h) }),
        rights(h.push(e)) == (match e {
            StreamElement::Item(BinaryElement::Right(x)) => rights(h).push(StreamElement::Item(x)),
            StreamElement::Timestamped(BinaryElement::Right(x), t) => rights(h).push(StreamElement::Timestamped(x, t)),
            _ => rights(h) }),
{ assert(h.push(e).drop_last() =~= h); }
'''
SPEC_IMPL = r'''
impl<Out1: ExchangeData, Out2: ExchangeData> Zip<Out1, Out2> {
    spec fn inv(&self) -> bool {
        &&& (self.stash1@.len() == 0 || self.stash2@.len() == 0)
        &&& kind_ok(self.stash1@, self.prev.timestamped()) && kind_ok(self.stash2@, self.prev.timestamped())
    }
    spec fn pulled(o: &Self, n: &Self) -> Seq<StreamElement<BinaryElement<Out1, Out2>>> {
        n.prev.hist().skip(o.prev.hist().len() as int)
    }
}
'''
NEXT_SPEC = r'''
        requires old(self).inv(),
        ensures
            final(self).inv(),                                                                   // #obl:zip.inv_preserved
            final(self).prev.hist().len() >= old(self).prev.hist().len(),
            // a pair is the head of the left arrivals with the head of the right arrivals: positional, one-to-one, nothing used twice
            (r is Item || r is Timestamped) ==> {
                let l = old(self).stash1@ + lefts(Self::pulled(old(self), final(self)));
                let rr = old(self).stash2@ + rights(Self::pulled(old(self), final(self)));
                &&& l.len() > 0 && rr.len() > 0
                &&& r == pair_of(l[0], rr[0])                                                    // #obl:zip.pairs_heads_positionally
                &&& final(self).stash1@ =~= l.skip(1) && final(self).stash2@ =~= rr.skip(1)      // #obl:zip.each_element_used_once
            },
            // control elements are forwarded as they are; FlushAndRestart drops the unmatched tail (min(|a|,|b|) pairs) and carries nothing over
            !(r is Item || r is Timestamped) ==> final(self).prev.hist().len() > 0 && is_ctl(final(self).prev.hist().last())
                && r == retyped::<BinaryElement<Out1, Out2>, (Out1, Out2)>(final(self).prev.hist().last()),   // #obl:zip.forwards_control
            r is FlushAndRestart ==> final(self).stash1@.len() == 0 && final(self).stash2@.len() == 0,       // #obl:zip.nothing_carried_over
            (r is Watermark || r is FlushBatch || r is Terminate) ==> {
                &&& final(self).stash1@ =~= old(self).stash1@ + lefts(Self::pulled(old(self), final(self)))
                &&& final(self).stash2@ =~= old(self).stash2@ + rights(Self::pulled(old(self), final(self)))   // #obl:zip.stash_keeps_unpaired_in_order
            },
'''
def build(x):
    pieces = [S.VECDEQUE_IS_EMPTY, PRELUDE, x.enum(FO, 'StreamElement'), x.enum(FB, 'BinaryElement')]
    st = x.struct(F, 'Zip')
    st.text = '#[verifier::reject_recursive_types(Out1)]\n#[verifier::reject_recursive_types(Out2)]\n' + st.text
    pieces += [st, SPEC_IMPL]
    nx = x.method(F, 'Zip', 'next', trait='Operator')
    nx.sub('V-SUBST', r'(\w+)\.map\(\|_\| unreachable!\(\)\)', r'retype_control(\1)', detail='StreamElement::map with a never-called closure on a control element -> contracted stub', must=True)
    nx.name_result('r')
    nx.add_spec(NEXT_SPEC)
    nx.text = '#[verifier::exec_allows_no_decreases_clause]\n' + nx.text
    nx.insert_before('while self.stash1.is_empty()', 'proof { assert(Self::pulled(old(self), self) =~= Seq::<StreamElement<BinaryElement<Out1, Out2>>>::empty()); }\n        ')
    nx.add_loop_spec(1, r'''
            invariant
                self.prev.hist().len() >= old(self).prev.hist().len(),
                self.prev.timestamped() == old(self).prev.timestamped(),
                kind_ok(self.stash1@, self.prev.timestamped()) && kind_ok(self.stash2@, self.prev.timestamped()),
                self.stash1@ =~= old(self).stash1@ + lefts(Self::pulled(old(self), self)),
                self.stash2@ =~= old(self).stash2@ + rights(Self::pulled(old(self), self)),
                self.stash1@.len() <= 1 || self.stash2@.len() <= 1,
''')
    nx.bind('item', r'let (\w+)(?:\s*:\s*[^=;]+)? = self\.prev\.next\(\);')
    nx.insert_before(re.compile(r'let \w+(?:\s*:\s*[^=;]+)? = self\.prev\.next\(\);'), 'let ghost h0 = self.prev.hist();\n            ')
    nx.insert_after(re.compile(r'let \w+(?:\s*:\s*[^=;]+)? = self\.prev\.next\(\);'), '\n            proof { let k = old(self).prev.hist().len() as int; assert(self.prev.hist().skip(k) =~= h0.skip(k).push(§item§)); lemma_sides_push(h0.skip(k), §item§); }')
    pieces += ["impl<Out1: ExchangeData, Out2: ExchangeData> Zip<Out1, Out2> {", nx, "}"]
    return pieces
