"""C14 — SessionWindowManager::process (src/operator/window/descr/session.rs), Verus."""
import os, sys
sys.path.insert(0, os.path.dirname(os.path.dirname(__file__)))
import std_specs as S

PROPERTIES = ["C14"]
MIN_VERIFIED = 3
F = 'src/operator/window/descr/session.rs'
FW = 'src/operator/window/mod.rs'
FO = 'src/operator/mod.rs'
ASSUMPTIONS = [
    "R-CLOCK: Instant::now() returns an arbitrary instant; the comparison `ts - slot.last > self.gap` is replaced by an arbitrary boolean gap_elapsed(ts, last, gap) (every timing is explored)",
    "V-COMB: Option::get_or_insert_with / Option::or_else / Option::map replaced by their definitions (if-none-insert + as_mut().unwrap(); match) - listed verbatim under coverage.rewrites",
    "user accumulator contract (model trait WindowAccumulator); Clone yields an equal value",
]
PRELUDE = r'''
type Timestamp = i64;
trait Data: Clone {}
impl<T: Clone> Data for T {}
trait WindowAccumulator: Clone + Sized {
    type In;
    type Out;
    spec fn contents(&self) -> Seq<Self::In>;
    spec fn result(s: Seq<Self::In>) -> Self::Out;
    fn process(&mut self, el: Self::In)
        ensures final(self).contents() == old(self).contents().push(el);
    fn output(self) -> (r: Self::Out)
        ensures r == Self::result(self.contents());
}
broadcast use trusted_axioms::axiom_data_clone;
// R-CLOCK
#[verifier::external_body]
#[derive(Clone, Copy)]
struct Instant {}
impl Instant {
    #[verifier::external_body]
    fn now() -> Instant { unimplemented!() }
}
#[verifier::external_body]
#[derive(Clone, Copy)]
struct Duration {}
uninterp spec fn elapsed(now: Instant, last: Instant, gap: Duration) -> bool;
#[verifier::external_body]
fn gap_elapsed(now: Instant, last: Instant, gap: Duration) -> (r: bool) ensures r == elapsed(now, last, gap) { unimplemented!() }
spec fn se_val<T>(e: StreamElement<T>) -> Option<T> {
    match e { StreamElement::Item(x) => Some(x), StreamElement::Timestamped(x, _) => Some(x), _ => None }
}
'''
SPEC_IMPL = r'''
impl<A: WindowAccumulator> SessionWindowManager<A> {
    // the open session (empty if none)
    spec fn cur(&self) -> Seq<A::In> { match self.w { Some(s) => s.acc.contents(), None => Seq::empty() } }
    spec fn inv(&self) -> bool {
        &&& self.init.contents() =~= Seq::empty()
        &&& (self.w is Some ==> self.cur().len() > 0)      // an open session is never empty
    }
}
'''
SPEC = r'''
        requires old(self).inv(),
        ensures
            final(self).inv(), final(self).init == old(self).init, final(self).gap == old(self).gap,            // #obl:session.inv_preserved
            // results are whole sessions, never empty, and the session that was open is emitted at most once
            r matches Some(x) ==> old(self).w is Some && x == WindowResult::Item(A::result(old(self).cur())),       // #obl:session.result_is_the_whole_open_session
            // an item joins exactly one session: the open one, or a fresh one when the previous one was closed by the gap
            (se_val(el) matches Some(x) ==> {
                &&& final(self).w is Some
                &&& (r is Some ==> final(self).cur() =~= seq![x])                                                     // #obl:session.item_starts_new_session_after_gap
                &&& (r is None ==> final(self).cur() =~= old(self).cur().push(x))                                     // #obl:session.item_appended_in_arrival_order
            }),
            // the gap is measured from the LAST element of the session to the clock reading of this call, which becomes the new `last`
            (se_val(el) is Some && old(self).w is Some) ==>
                ((r is Some) == elapsed(final(self).w->0.last, old(self).w->0.last, old(self).gap)),                  // #obl:session.gap_measured_from_the_last_element
            // end of iteration: the open session is flushed and nothing is carried over
            (el is FlushAndRestart || el is Terminate) ==> final(self).w is None && (r is Some) == (old(self).w is Some),   // #obl:session.end_flushes_open_session_and_carries_nothing_over
            // other elements leave the session alone unless the gap elapsed
            (el is Watermark || el is FlushBatch) ==> (if r is Some { final(self).w is None } else { final(self).w == old(self).w }),   // #obl:session.control_elements_only_close_by_gap
'''
def build(x):
    pieces = [S.CLONE_IS_EQ, PRELUDE, x.enum(FO, 'StreamElement'), x.enum(FW, 'WindowResult'),
              x.struct(F, 'SessionWindowManager'), x.struct(F, 'Slot')]
    sn = x.method(F, 'Slot', 'new'); sn.name_result('r')
    sn.add_spec("        ensures r.acc == acc, r.last == last, // #obl:slot.new")
    pieces += ["impl<A> Slot<A> {", sn, "}", SPEC_IMPL]
    pr = x.method(F, 'SessionWindowManager', 'process', trait='WindowManager')
    pr.replace_exact('V-TRAIT', 'Self::Output', 'Option<WindowResult<A::Out>>', detail='associated type Output substituted')
    pr.sub('V-SUBST', r'(\w+) - (\w+)\.last > self\.gap', r'gap_elapsed(\1, \2.last, self.gap)', detail='R-CLOCK: elapsed-time comparison `now - slot.last > self.gap` replaced by an arbitrary boolean', flags=0, must=True)
    pr.sub('V-COMB', r'let (\w+) = self\s*\.w\s*\.get_or_insert_with\(\|\| Slot::new\(self\.init\.clone\(\), (\w+)\)\);',
           r'if self.w.is_none() { self.w = Some(Slot::new(self.init.clone(), \2)); }\n                let \1 = self.w.as_mut().unwrap();',
           detail='Option::get_or_insert_with(f) == if none { insert f() }; as_mut().unwrap()', flags=0, must=True)
    # Option::map / Option::or_else by their definitions (two independent rewrites)
    pr.sub('V-COMB', r'self\.w\.take\(\)\.map\(\|s\| WindowResult::Item\(s\.acc\.output\(\)\)\)',
           '(match self.w.take() { Some(s) => Some(WindowResult::Item(s.acc.output())), None => None })',
           detail='Option::map(f) replaced by its definition', flags=0)
    pr.sub('V-COMB', r'ret\.or_else\(\|\| (?P<x>\(match self\.w\.take\(\) \{.*?None => None \}\))\)',
           lambda m: 'match ret { Some(__r) => Some(__r), None => ' + m.group('x') + ' }',
           detail='Option::or_else(f) replaced by its definition', flags=0)
    pr.name_result('r')
    pr.add_spec(SPEC)
    pieces += ["impl<A: WindowAccumulator> SessionWindowManager<A>\nwhere\n    A::In: Data,\n    A::Out: Data,\n{", pr, "}"]
    return pieces
