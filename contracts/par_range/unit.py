"""C15 (ranges) — IntoParallelSource::generate_iterator for Range<u64> and the nine macro instances,
extracted as whole `impl` blocks (macro instances by V-MACRO substitution) and verified against the
exact-split contract; plus the pure partition lemma (disjoint cover of the range)."""
import os, sys
sys.path.insert(0, os.path.dirname(os.path.dirname(__file__)))
import std_specs as S

PROPERTIES = ["C15"]
MIN_VERIFIED = 14
F = 'src/operator/source/parallel_iterator.rs'

ASSUMPTIONS = [
    "replica count peers <= 2^32 and (for a non-reversed range) at most 2^62 elements, as in the property's quantifier",
    "i64/i128::saturating_add saturate at the type bounds (assume_specification)",
    "std integer TryFrom conversions succeed iff the value fits (vstd specs / assume_specification)",
    "Range<T> used as an iterator yields exactly the v with start <= v < end (std semantics, not re-proved)",
    "the model trait IntoParallelSource in the unit mirrors the real trait's signature (checked textually on every run)",
]

INSTANCES = ['u8', 'u16', 'u32', 'usize', 'i8', 'i16', 'i32', 'i64', 'isize']

PRELUDE = r'''
use std::ops::Range;
type CoordUInt = u64;

// model of crate::operator::source::IntoParallelSource carrying the contract as trait-level spec fns
trait IntoParallelSource: Sized {
    type Iter;
    spec fn pre(self, index: u64, peers: u64) -> bool;
    spec fn post(self, index: u64, peers: u64, r: Self::Iter) -> bool;
    fn generate_iterator(self, index: CoordUInt, peers: CoordUInt) -> (r: Self::Iter)
        requires self.pre(index, peers),
        ensures self.post(index, peers, r);
}

spec fn in_rng(v: int, a: int, b: int) -> bool { a <= v < b }
spec fn imin(a: int, b: int) -> int { if a <= b { a } else { b } }
spec fn rng_n(lo: int, hi: int) -> int { if hi >= lo { hi - lo } else { 0 } }
spec fn rng_c(n: int, peers: int) -> int { (n + peers - 1) / peers }
// i-th boundary: replica i yields [bnd(i), bnd(i+1))
spec fn bnd(lo: int, hi: int, peers: int, i: int) -> int {
    lo + imin(rng_n(lo, hi), i * rng_c(rng_n(lo, hi), peers))
}
// the half-open interval [rs, re) is, as a set, the interval [a, b)
spec fn same_interval(rs: int, re: int, a: int, b: int) -> bool {
    (rs >= re && a >= b) || (rs == a && re == b)
}
spec fn split_pre(lo: int, hi: int, index: int, peers: int) -> bool {
    1 <= peers <= 0x1_0000_0000 && 0 <= index < peers && rng_n(lo, hi) <= 0x4000_0000_0000_0000
}
spec fn split_post(lo: int, hi: int, index: int, peers: int, rs: int, re: int) -> bool {
    same_interval(rs, re, bnd(lo, hi, peers, index), bnd(lo, hi, peers, index + 1))
}

proof fn lemma_same_interval_is_set_equality(rs: int, re: int, a: int, b: int)
    requires same_interval(rs, re, a, b),
    ensures forall|v: int| #[trigger] in_rng(v, rs, re) <==> in_rng(v, a, b),
{}

proof fn lemma_chunk(n: int, p: int, i: int)
    requires n >= 0, p >= 1, 0 <= i < p,
    ensures
        rng_c(n, p) >= 0,
        rng_c(n, p) * p >= n,
        rng_c(n, p) * p <= n + p - 1,
        i * rng_c(n, p) >= 0,
        (i + 1) * rng_c(n, p) == i * rng_c(n, p) + rng_c(n, p),
        (i + 1) * rng_c(n, p) <= n + p - 1,
        n == 0 ==> rng_c(n, p) == 0,
        n >= 1 ==> rng_c(n, p) >= 1,
{
    let c = rng_c(n, p);
    vstd::arithmetic::div_mod::lemma_fundamental_div_mod(n + p - 1, p);
    vstd::arithmetic::div_mod::lemma_mod_bound(n + p - 1, p);
    assert(p * c == c * p) by (nonlinear_arith);
    assert(c >= 0) by (nonlinear_arith) requires c * p + (n + p - 1) % p == n + p - 1, 0 <= (n + p - 1) % p < p, n >= 0, p >= 1;
    assert((i + 1) * c == i * c + c) by (nonlinear_arith);
    assert(i * c >= 0) by (nonlinear_arith) requires i >= 0, c >= 0;
    assert((i + 1) * c <= p * c) by (nonlinear_arith) requires i + 1 <= p, c >= 0;
    if n == 0 {
        assert(c == 0) by (nonlinear_arith) requires c * p <= p - 1, c >= 0, p >= 1;
    } else {
        assert(c >= 1) by (nonlinear_arith) requires c * p >= n, n >= 1, p >= 1, c >= 0;
    }
}

// C15 (ranges), whole statement: the peers intervals [bnd(i), bnd(i+1)) are a disjoint cover of [lo, hi)
proof fn lemma_partition(lo: int, hi: int, peers: int)
    requires peers >= 1,
    ensures
        bnd(lo, hi, peers, 0) == lo,                                                        // #obl:partition.starts_at_range_start
        bnd(lo, hi, peers, peers) == lo + rng_n(lo, hi),                                    // #obl:partition.ends_at_range_end
        forall|i: int, j: int| 0 <= i <= j <= peers ==> #[trigger] bnd(lo, hi, peers, i) <= #[trigger] bnd(lo, hi, peers, j),   // #obl:partition.chunks_ordered_hence_disjoint
        forall|v: int| #[trigger] in_rng(v, lo, lo + rng_n(lo, hi)) ==> exists|i: int| 0 <= i < peers
            && #[trigger] in_rng(v, bnd(lo, hi, peers, i), bnd(lo, hi, peers, i + 1)),                      // #obl:partition.every_value_in_some_chunk
        hi < lo ==> forall|i: int| 0 <= i < peers ==> #[trigger] bnd(lo, hi, peers, i) == bnd(lo, hi, peers, i + 1),  // #obl:partition.reversed_yields_nothing
{
    let n = rng_n(lo, hi);
    let c = rng_c(n, peers);
    lemma_chunk(n, peers, 0);
    assert(0 * c == 0) by (nonlinear_arith);
    assert(peers * c == c * peers) by (nonlinear_arith);
    assert forall|i: int, j: int| 0 <= i <= j <= peers implies #[trigger] bnd(lo, hi, peers, i) <= #[trigger] bnd(lo, hi, peers, j) by {
        assert(i * c <= j * c) by (nonlinear_arith) requires 0 <= i <= j, c >= 0;
    }
    assert forall|v: int| #[trigger] in_rng(v, lo, lo + n) implies exists|i: int| 0 <= i < peers
            && #[trigger] in_rng(v, bnd(lo, hi, peers, i), bnd(lo, hi, peers, i + 1)) by {
        let d = v - lo;
        assert(c >= 1);
        let i0 = d / c;
        vstd::arithmetic::div_mod::lemma_fundamental_div_mod(d, c);
        vstd::arithmetic::div_mod::lemma_mod_bound(d, c);
        assert(c * i0 == i0 * c) by (nonlinear_arith);
        assert((i0 + 1) * c == i0 * c + c) by (nonlinear_arith);
        assert(i0 >= 0) by (nonlinear_arith) requires i0 * c + d % c == d, 0 <= d % c < c, d >= 0, c >= 1;
        assert(i0 < peers) by (nonlinear_arith) requires i0 * c <= d, d < n, n <= c * peers, c >= 1, peers >= 1;
        assert(in_rng(v, bnd(lo, hi, peers, i0), bnd(lo, hi, peers, i0 + 1)));
    }
    if hi < lo {
        assert forall|i: int| 0 <= i < peers implies #[trigger] bnd(lo, hi, peers, i) == bnd(lo, hi, peers, i + 1) by {
            assert(i * c == 0 && (i + 1) * c == 0) by (nonlinear_arith) requires c == 0;
        }
    }
}
'''


def spec_fns(t):
    return f'''
    spec fn pre(self, index: u64, peers: u64) -> bool {{
        split_pre(self.start as int, self.end as int, index as int, peers as int)
    }}
    spec fn post(self, index: u64, peers: u64, r: Range<{t}>) -> bool {{
        split_post(self.start as int, self.end as int, index as int, peers as int, r.start as int, r.end as int)   // #obl:generate_iterator_{t}.yields_exactly_its_chunk
    }}
'''


HINT0 = r'''
        let ghost g_index = index as int;
        let ghost g_peers = peers as int;
        let ghost g_lo = self.start as int;
        let ghost g_hi = self.end as int;
'''
HINT = r'''proof {
            assert(index as int == g_index && peers as int == g_peers);
            lemma_chunk(rng_n(g_lo, g_hi), g_peers, g_index);
            assert(§n§ as int == rng_n(g_lo, g_hi));   // #obl:generate_iterator.length_is_the_clamped_difference
        }
        '''
HINT2 = r'''proof {
            assert(chunk_size as int == rng_c(rng_n(g_lo, g_hi), g_peers));   // #obl:generate_iterator.chunk_size_is_ceil_of_len_over_peers
        }
        '''


def build(x):
    src = x.src(F)
    # the model trait must mirror the real one
    if 'fn generate_iterator(self, index: CoordUInt, peers: CoordUInt) -> Self::Iter;' not in src.text:
        raise S_ScanError('IntoParallelSource::generate_iterator signature changed')
    pieces = [S.sat_add('i64'), S.sat_add('i128'), S.try_from('i64', 'u64')] + [PRELUDE]
    blk = x.impl_block(F, '=Range<u64>', 'IntoParallelSource')
    blk.insert_at_body_start(HINT0)
    blk.bind('n', r'let chunk_size(?:\s*:\s*\w+)? = \((\w+)\.saturating_add')
    blk.insert_before('let chunk_size', HINT)
    blk.insert_before('let start', HINT2)
    blk.insert_after('type Iter = Range<u64>;', spec_fns('u64'))
    pieces.append(blk)
    for t in INSTANCES:
        fr = x.macro_instance(F, 'impl_into_parallel_source_range', {'$t': t}, f'Range<{t}>')
        fr.insert_at_body_start(HINT0)
        fr.bind('n', r'let chunk_size(?:\s*:\s*\w+)? = \((\w+)\.saturating_add')
        fr.insert_before('let chunk_size', HINT)
        fr.insert_before('let start', HINT2)
        fr.insert_after(f'type Iter = Range<{t}>;', spec_fns(t))
        pieces.append(fr)
    return pieces


from engine.rsx import ScanError as S_ScanError  # noqa: E402
