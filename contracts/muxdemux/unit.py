"""C02 — the forwarding loops of the multiplexer / demultiplexer threads (src/network/sync/{multiplexer,demultiplexer}.rs).
mux_thread: every (destination, message) taken from the queue of the link group is written to the TCP stream by one call of
remote_send, in queue order; nothing else is written; the loop ends only when the queue is closed.
demux_thread: every (destination, message) that remote_recv decodes from the stream is handed to the local channel registered
under exactly that destination, in stream order, and to no other channel; the loop ends only when remote_recv reports the end
of the stream.  With unit framing (remote_send writes one frame, remote_recv returns exactly the frame's (destination, message))
a multiplexed TCP connection delivers, per receiver endpoint, the sequence sent to that endpoint."""
import os, re, sys
sys.path.insert(0, os.path.dirname(os.path.dirname(__file__)))
import std_specs as S
from engine.rsx import ScanError

PROPERTIES = ["C02"]
MIN_VERIFIED = 2
FM = 'src/network/sync/multiplexer.rs'
FD = 'src/network/sync/demultiplexer.rs'
FN = 'src/network/mod.rs'
ASSUMPTIONS = [
    "V-BLOCK: only the forwarding loop of mux_thread / demux_thread is extracted (byte for byte) and wrapped in a function of its free variables; thread start-up, connection set-up (connect_remote, the accept loop, the registration of the local senders) and shutdown are NOT under contract",
    "remote_send / remote_recv are used through the contracts that unit framing discharges on their real bodies (one frame written per call; the decoded (destination, message) returned), here stated over an abstract frame function",
    "R-CHAN: the queue feeding the multiplexer returns its items in FIFO order (ghost log of what was taken) or an error when closed; a local channel's send appends to that channel's ghost log (interior mutability modelled as &mut on the handle: `senders[&dest].send(m)` -> `senders.get_mut_some(&dest).send(m)`, the HashMap of senders by its map view)",
    "demux: every destination decoded from the stream has a registered local sender (`senders[&dest]` panics otherwise: fail-stop); stated as a precondition over the abstract stream content",
    "`while let P = E { B }` -> `loop { match E { P => { B } _ => { break; } } }` (V-ITER: definition of while-let)",
    "TCP itself is a reliable FIFO byte stream (R-CHAN); the threads' scheduling and termination are not decided",
]
PRELUDE = r'''
type BlockId = u64; type HostId = u64; type ReplicaId = u64;
trait ExchangeData: Clone + Send + 'static {}
struct RecvError {}
struct SendError {}
// ---- the queue of the link group (multiplexer input)
#[verifier::external_body]
#[verifier::reject_recursive_types(T)]
struct Receiver<T> { _p: core::marker::PhantomData<T> }
impl<T> Receiver<T> {
    uninterp spec fn taken(&self) -> Seq<T>;
    #[verifier::external_body]
    fn recv(&mut self) -> (r: Result<T, RecvError>)
        ensures (r matches Ok(v) ==> final(self).taken() == old(self).taken().push(v)), (r is Err ==> final(self).taken() == old(self).taken())
    { unimplemented!() }
}
// ---- a local channel (demultiplexer output)
#[verifier::external_body]
#[verifier::reject_recursive_types(T)]
struct Sender<T> { _p: core::marker::PhantomData<T> }
impl<T> Sender<T> {
    uninterp spec fn sent(&self) -> Seq<T>;
    #[verifier::external_body]
    fn send(&mut self, v: T) -> (r: Result<(), SendError>)
        ensures final(self).sent() == old(self).sent().push(v)
    { unimplemented!() }
}
// ---- HashMap<ReceiverEndpoint, Sender<..>> by its map view
#[verifier::external_body]
#[verifier::reject_recursive_types(K)]
#[verifier::reject_recursive_types(V)]
struct KMap<K, V> { _p: core::marker::PhantomData<(K, V)> }
impl<K, V> KMap<K, V> {
    uninterp spec fn view(&self) -> Map<K, V>;
    #[verifier::external_body]
    fn get_mut_some(&mut self, k: &K) -> (r: &mut V)
        requires old(self)@.contains_key(*k),
        ensures *r == old(self)@[*k], final(self)@ == old(self)@.insert(*k, *final(r)),
    { unimplemented!() }
}
// ---- the TCP stream: what was written / what is still to be read, as a sequence of frames
#[verifier::external_body]
struct Stream {}
impl Stream {
    uninterp spec fn written<T>(&self) -> Seq<(ReceiverEndpoint, NetworkMessage<T>)>;
    uninterp spec fn pending<T>(&self) -> Seq<(ReceiverEndpoint, NetworkMessage<T>)>;
}
// contracts of unit framing, over whole frames
#[verifier::external_body]
fn remote_send<T: ExchangeData>(msg: NetworkMessage<T>, dest: ReceiverEndpoint, writer: &mut Stream, address: &String)
    ensures final(writer).written::<T>() == old(writer).written::<T>().push((dest, msg)), final(writer).pending::<T>() == old(writer).pending::<T>()
{ unimplemented!() }
#[verifier::external_body]
fn remote_recv<T: ExchangeData>(coord: DemuxCoord, reader: &mut Stream, address: &String) -> (r: Option<(ReceiverEndpoint, NetworkMessage<T>)>)
    ensures
        old(reader).pending::<T>().len() > 0 ==> r == Some(old(reader).pending::<T>()[0]) && final(reader).pending::<T>() == old(reader).pending::<T>().skip(1),
        old(reader).pending::<T>().len() == 0 ==> r is None && final(reader).pending::<T>().len() == 0,
{ unimplemented!() }
// the messages of `s` addressed to endpoint e, in order
spec fn for_endpoint<T>(s: Seq<(ReceiverEndpoint, NetworkMessage<T>)>, e: ReceiverEndpoint) -> Seq<NetworkMessage<T>>
    decreases s.len()
{
    if s.len() == 0 { Seq::empty() } else if s.last().0 == e { for_endpoint(s.drop_last(), e).push(s.last().1) } else { for_endpoint(s.drop_last(), e) }
}
proof fn lemma_for_endpoint_push<T>(s: Seq<(ReceiverEndpoint, NetworkMessage<T>)>, x: (ReceiverEndpoint, NetworkMessage<T>), e: ReceiverEndpoint)
    ensures for_endpoint(s.push(x), e) == (if x.0 == e { for_endpoint(s, e).push(x.1) } else { for_endpoint(s, e) })
{ assert(s.push(x).drop_last() =~= s); }
'''


def while_let_to_loop(fr):
    m = re.search(r'while let (?P<p>[^=]+?) = (?P<e>[^{]+?) \{', fr.text)
    if not m:
        raise ScanError(f"{fr.what}: while-let loop not found")
    s = fr._src()
    ob = m.end() - 1
    cb = s.match_close(ob)
    body = fr.text[ob + 1:cb]
    fr.text = (fr.text[:m.start()] + f"loop /*@loop*/ {{ match {m.group('e')} {{ {m.group('p')} => {{ /*@item*/{body}/*@item_end*/ }} _ => {{ /*@closed*/ break; }} }} }}" + fr.text[cb + 1:])
    fr.note('V-ITER', 1, '`while let P = E { B }` -> `loop { match E { P => { B } _ => { break; } } }` (B verbatim)')


def loop_of(x, rel, fn, header):
    """the forwarding loop of a top-level function, byte for byte"""
    fr = x.top_fn(rel, fn)
    s = fr._src()
    m = next((m for m in re.finditer(header, fr.text) if s.mask[m.start()]), None)
    if not m:
        raise ScanError(f"{rel}: loop `{header}` not found in {fn}")
    ob = fr.text.index('{', m.end() - 1)
    cb = s.match_close(ob)
    fr.text = fr.text[m.start():cb + 1]
    fr.note('V-BLOCK', 1, f'the forwarding loop of {fn} extracted byte for byte and wrapped in a function of its free variables')
    return fr


def build(x):
    c = x.struct(FN, 'Coord'); c.text = '#[derive(Clone, Copy)]\n' + c.text
    re_ = x.struct(FN, 'ReceiverEndpoint'); re_.text = '#[derive(Clone, Copy)]\n' + re_.text
    bc = x.struct(FN, 'BlockCoord'); bc.text = '#[derive(Clone, Copy)]\n' + bc.text
    dc = x.struct(FN, 'DemuxCoord'); dc.text = '#[derive(Clone, Copy)]\n' + dc.text
    pieces = ['type Timestamp = i64;', x.enum('src/operator/mod.rs', 'StreamElement'), c, re_, bc, dc, x.enum(FN, 'NetworkData'), x.struct(FN, 'NetworkMessage'), PRELUDE]

    mx = loop_of(x, FM, 'mux_thread', r'while let Ok\(\((\w+), (\w+)\)\) = (\w+)\.recv\(\) \{')
    mm = re.search(r'while let Ok\(\((?P<d>\w+), (?P<m>\w+)\)\) = (?P<rx>\w+)\.recv\(\)', mx.text)
    ms = re.search(r'remote_send\(\w+, \w+, &mut (?P<w>\w+), &(?P<a>\w+)\)', mx.text)
    if not mm or not ms:
        raise ScanError('mux_thread: the loop does not have the expected shape `while let Ok((d, m)) = RX.recv() { remote_send(m, d, &mut W, &A); }`')
    RX, W, A = mm.group('rx'), ms.group('w'), ms.group('a')
    if (RX, W, A) != ('rx', 'w', 'address'):
        mx.note('V-SPEC', 1, f'free variables of the loop: queue `{RX}`, stream handle `{W}`, address `{A}` (the wrapper names its parameters after them)')
    while_let_to_loop(mx)
    mx.text = ('''#[verifier::exec_allows_no_decreases_clause]
// the stream handle `w` of the real code (`&mut TcpStream`) is modelled by an owned Stream value
fn mux_loop<Out: ExchangeData>(coord: DemuxCoord, rx: Receiver<(ReceiverEndpoint, NetworkMessage<Out>)>, w: Stream, §A§: String) -> (res: (Receiver<(ReceiverEndpoint, NetworkMessage<Out>)>, Stream))
    ensures
        // everything taken from the queue was written, one frame per item, in queue order; nothing else was written
        res.0.taken().len() >= rx.taken().len(),
        res.1.written::<Out>() == w.written::<Out>() + res.0.taken().skip(rx.taken().len() as int),     // #obl:mux.every_queued_message_written_once_in_queue_order
{
    let mut §RX§ = rx; let mut §W§ = w;
    let ghost n0 = §RX§.taken().len() as int;
    let ghost w0 = §W§.written::<Out>();
    proof { assert(§RX§.taken().skip(n0) =~= Seq::empty()); assert(w0 + Seq::<(ReceiverEndpoint, NetworkMessage<Out>)>::empty() =~= w0); }
    ''' + mx.text + '''
    (§RX§, §W§)
}
''')
    mx.text = mx.text.replace('loop /*@loop*/ {', '''loop
        invariant 0 <= n0 <= §RX§.taken().len(), §W§.written::<Out>() == w0 + §RX§.taken().skip(n0),   // #obl:mux.every_queued_message_written_once_in_queue_order
    {
        let ghost t0 = §RX§.taken();''')
    mx.text = mx.text.replace('/*@item*/', '/*@item*/ let ghost __it = (dest, message); proof { assert(§RX§.taken() == t0.push(__it)); }')
    mx.text = mx.text.replace('/*@item_end*/', ' proof { assert(t0.len() >= n0); assert(§RX§.taken() == t0.push(__it)); assert(t0.push(__it).skip(n0) =~= t0.skip(n0).push(__it)); assert(§RX§.taken().skip(n0) =~= t0.skip(n0).push(__it)); assert(__it == (dest, message)); assert(w0 + t0.skip(n0).push((dest, message)) =~= (w0 + t0.skip(n0)).push((dest, message))); }')
    mx.names = dict(getattr(mx, 'names', {}), RX=RX, W=W, A=A)
    mx.bind('dest', r'Ok\(\((\w+), \w+\)\) =>')
    mx.bind('message', r'Ok\(\(\w+, (\w+)\)\) =>')
    mx.text = mx.text.replace('(dest, message)', '(§dest§, §message§)')
    mx.text = mx.fmt(mx.text)

    dm = loop_of(x, FD, 'demux_thread', r'while let Some\(\((\w+), (\w+)\)\) = remote_recv\(')
    md = re.search(r'remote_recv\((?P<c>\w+), &mut (?P<r>\w+), &(?P<a>\w+)\)', dm.text)
    msn = re.search(r'(?P<s>\w+)\[&\w+\]\.send\(', dm.text)
    if not md or not msn:
        raise ScanError('demux_thread: the loop does not have the expected shape `while let Some((d, m)) = remote_recv(C, &mut R, &A) { .. S[&d].send(m) .. }`')
    DC, DR, DA, DS = md.group('c'), md.group('r'), md.group('a'), msn.group('s')
    while_let_to_loop(dm)
    dm.sub('V-SUBST', r'(\w+)\[&(\w+)\]\.send\(', r'\1.get_mut_some(&\2).send(', detail='`senders[&dest].send(m)` -> `senders.get_mut_some(&dest).send(m)` (map-view model; R-CHAN: the sender handle borrowed mutably)', must=True)
    dm.sub('V-LOG', r'\bwarn!\((?:[^()]|\((?:[^()]|\([^()]*\))*\))*\);', '{}', detail='warn!(..) dropped', flags=re.S)
    dm.text = ('''#[verifier::exec_allows_no_decreases_clause]
fn demux_loop<In: ExchangeData>(§DC§: DemuxCoord, §DS§: KMap<ReceiverEndpoint, Sender<NetworkMessage<In>>>, §DR§: Stream, §DA§: String) -> (res: (KMap<ReceiverEndpoint, Sender<NetworkMessage<In>>>, Stream))
    requires
        // every destination on the stream has a registered local channel (else `§DS§[&dest]` panics: fail-stop)
        forall|i: int| 0 <= i < §DR§.pending::<In>().len() ==> §DS§@.contains_key((#[trigger] §DR§.pending::<In>()[i]).0),
    ensures
        // each local channel received exactly the messages addressed to its endpoint, in stream order; no channel was added or removed
        res.0@.dom() == §DS§@.dom(),
        forall|e: ReceiverEndpoint| §DS§@.contains_key(e) ==> (#[trigger] res.0@[e]).sent() == §DS§@[e].sent() + for_endpoint(§DR§.pending::<In>(), e),   // #obl:demux.each_message_delivered_once_to_its_own_endpoint_in_order
        res.1.pending::<In>().len() == 0,                                                                                                                   // #obl:demux.stops_only_at_the_end_of_the_stream
{
    let mut §DS§ = §DS§;
    let mut r = r;
    let ghost s0 = §DS§@;
    let ghost p0 = §DR§.pending::<In>();
    proof { assert(p0.take(0) =~= Seq::empty()); assert forall|e: ReceiverEndpoint| s0.contains_key(e) implies (#[trigger] s0[e]).sent() + for_endpoint(p0.take(0), e) == s0[e].sent() by { assert(s0[e].sent() + Seq::<NetworkMessage<In>>::empty() =~= s0[e].sent()); } }
    ''' + dm.text + '''
    proof { assert(p0.take(p0.len() as int) =~= p0); }
    (§DS§, §DR§)
}
''')
    dm.text = dm.text.replace('loop /*@loop*/ {', '''loop
        invariant
            §DR§.pending::<In>().len() <= p0.len(), §DR§.pending::<In>() == p0.skip(p0.len() - §DR§.pending::<In>().len()),
            §DS§@.dom() == s0.dom(),
            forall|i: int| 0 <= i < p0.len() ==> s0.contains_key((#[trigger] p0[i]).0),
            forall|e: ReceiverEndpoint| s0.contains_key(e) ==> (#[trigger] §DS§@[e]).sent() == s0[e].sent() + for_endpoint(p0.take(p0.len() - §DR§.pending::<In>().len()), e),   // #obl:demux.each_message_delivered_once_to_its_own_endpoint_in_order
        ensures
            §DR§.pending::<In>().len() == 0, §DS§@.dom() == s0.dom(),
            forall|e: ReceiverEndpoint| s0.contains_key(e) ==> (#[trigger] §DS§@[e]).sent() == s0[e].sent() + for_endpoint(p0.take(p0.len() as int), e),
    {
        let ghost g = p0.len() - §DR§.pending::<In>().len();
        let ghost sm = §DS§@;''')
    dm.text = dm.text.replace('/*@item*/', '''/*@item*/ proof { assert(p0.skip(g)[0] == p0[g]); assert(p0.skip(g).skip(1) =~= p0.skip(g + 1)); assert(p0.take(g + 1) =~= p0.take(g).push(p0[g]));
                assert forall|e: ReceiverEndpoint| true implies for_endpoint(p0.take(g + 1), e) == (if p0[g].0 == e { for_endpoint(p0.take(g), e).push(p0[g].1) } else { for_endpoint(p0.take(g), e) }) by { lemma_for_endpoint_push(p0.take(g), p0[g], e); } }''')
    dm.text = dm.text.replace('/*@item_end*/', ''' proof {
                assert forall|e: ReceiverEndpoint| s0.contains_key(e) implies (#[trigger] §DS§@[e]).sent() == s0[e].sent() + for_endpoint(p0.take(g + 1), e) by {
                    if p0[g].0 == e { assert(s0[e].sent() + for_endpoint(p0.take(g), e).push(p0[g].1) =~= (s0[e].sent() + for_endpoint(p0.take(g), e)).push(p0[g].1)); } else { assert(§DS§@[e] == sm[e]); }
                }
                assert(§DS§@.dom() =~= s0.dom());
            }''')
    dm.text = dm.text.replace('/*@closed*/', '/*@closed*/ proof { assert(p0.take(p0.len() as int) =~= p0.take(g)); }')
    dm.names = dict(getattr(dm, 'names', {}), DS=DS, DR=DR, DC=DC, DA=DA)
    dm.text = dm.fmt(dm.text)
    pieces += [mx, dm]
    return pieces
