"""Trusted specifications of std functions that vstd (0.2026.09.13) does not cover.
Each entry is an *assumption*: it is listed in the evidence of every unit that includes it."""

HEADER = "#![feature(allocator_api)]\n"

OPTION_FILTER = r'''
#[verifier::allow(undeclared_external_trait)]
pub assume_specification<T, P> [std::option::Option::<T>::filter] (o: Option<T>, p: P) -> (r: Option<T>)
    where P: std::ops::FnOnce(&T,) -> bool + std::marker::Destruct, T: std::marker::Destruct,
    requires o is Some ==> p.requires((&o->0,)),
    ensures o is None ==> r is None,
            o is Some ==> ((p.ensures((&o->0,), true) && r == o) || (p.ensures((&o->0,), false) && r is None));
'''

OPTION_IS_SOME_AND = r'''
#[verifier::allow(undeclared_external_trait)]
pub assume_specification<T, P> [std::option::Option::<T>::is_some_and] (o: Option<T>, p: P) -> (r: bool)
    where P: std::ops::FnOnce(T,) -> bool + std::marker::Destruct, T: std::marker::Destruct,
    requires o is Some ==> p.requires((o->0,)),
    ensures o is None ==> !r,
            o is Some ==> p.ensures((o->0,), r);
'''

MEM_REPLACE = r'''
pub assume_specification<T> [core::mem::replace::<T>] (dest: &mut T, src: T) -> (r: T)
    ensures *final(dest) == src, r == *old(dest);
'''

VECDEQUE_FRONT = r'''
pub assume_specification<T, A> [std::collections::VecDeque::<T, A>::front] (d: &std::collections::VecDeque<T, A>) -> (r: Option<&T>)
    where A: std::alloc::Allocator,
    ensures d@.len() == 0 ==> r is None,
            d@.len() > 0 ==> r == Some(&d@[0]);
'''

VECDEQUE_BACK = r'''
pub assume_specification<T, A> [std::collections::VecDeque::<T, A>::back] (d: &std::collections::VecDeque<T, A>) -> (r: Option<&T>)
    where A: std::alloc::Allocator,
    ensures d@.len() == 0 ==> r is None,
            d@.len() > 0 ==> r == Some(&d@[d@.len() - 1]);
'''

OPTION_CLONED = r'''
pub assume_specification<T: Clone> [std::option::Option::<&T>::cloned] (o: Option<&T>) -> (r: Option<T>)
    ensures o is None ==> r is None,
            o is Some ==> r is Some && call_ensures(T::clone, (o->0,), r->0);
'''

# clone axioms: assumed contracts of user-supplied types
CLONE_IS_EQ = r'''
// ASSUMED: Clone of a stream element payload / accumulator / timestamp yields an equal value.
pub mod trusted_axioms {
    use vstd::prelude::*;
    #[verifier::external_body]
    pub broadcast proof fn axiom_data_clone<T: Clone>(a: &T, b: T)
        requires #[trigger] call_ensures(T::clone, (a,), b),
        ensures *a == b
    {}
}
'''

def sat_add(t):
    return f'''
pub assume_specification [{t}::saturating_add] (a: {t}, b: {t}) -> (r: {t})
    ensures r as int == (if a + b > {t}::MAX {{ {t}::MAX as int }} else if a + b < {t}::MIN {{ {t}::MIN as int }} else {{ a + b }});
'''

_RANGES = {'u8': (0, 2**8 - 1), 'u16': (0, 2**16 - 1), 'u32': (0, 2**32 - 1), 'u64': (0, 2**64 - 1), 'usize': (0, 2**64 - 1),
           'i8': (-2**7, 2**7 - 1), 'i16': (-2**15, 2**15 - 1), 'i32': (-2**31, 2**31 - 1), 'i64': (-2**63, 2**63 - 1),
           'isize': (-2**63, 2**63 - 1), 'i128': (-2**127, 2**127 - 1), 'u128': (0, 2**128 - 1)}


def try_from(dst, src):
    """<dst as TryFrom<src>>::try_from succeeds iff the value fits in dst (std semantics)."""
    return f'''
pub assume_specification [<{dst} as TryFrom<{src}>>::try_from] (x: {src}) -> (r: Result<{dst}, <{dst} as TryFrom<{src}>>::Error>)
    ensures ({dst}::MIN <= x <= {dst}::MAX) ==> (r is Ok && r->Ok_0 as int == x as int),
            !({dst}::MIN <= x <= {dst}::MAX) ==> r is Err;
'''

VEC_CAPACITY = r'''
pub assume_specification<T, A> [std::vec::Vec::<T, A>::capacity] (v: &std::vec::Vec<T, A>) -> (r: usize)
    where A: std::alloc::Allocator,
    ensures r >= v@.len();
'''

VECDEQUE_IS_EMPTY = r'''
pub assume_specification<T, A> [std::collections::VecDeque::<T, A>::is_empty] (d: &std::collections::VecDeque<T, A>) -> (r: bool)
    where A: std::alloc::Allocator,
    ensures r == (d@.len() == 0);
'''
VECDEQUE_CLEAR = r'''
pub assume_specification<T, A> [std::collections::VecDeque::<T, A>::clear] (d: &mut std::collections::VecDeque<T, A>)
    where A: std::alloc::Allocator,
    ensures final(d)@ =~= Seq::<T>::empty();
'''

RUST_PANIC = r'''
// a reachable panic is a failed obligation
#[verifier::external_body]
fn rust_panic() requires false { unimplemented!() }
'''
