"""C19 (links) — the replica-to-replica wiring loop of Scheduler::build_execution_graph (src/scheduler.rs):
for one producer replica `from_coord` and the list `to` of consumer replicas of the next block, which links are
created.  Forward links (the producer's strategy is OnlyOne, or the edge is fragile) must give every producer
replica exactly one consumer - the same-index one when it exists; every other edge is all-to-all."""
import os, re, sys
sys.path.insert(0, os.path.dirname(os.path.dirname(__file__)))
import std_specs as S

PROPERTIES = ["C19"]
MIN_VERIFIED = 2
F = 'src/scheduler.rs'
FN = 'src/network/mod.rs'
ASSUMPTIONS = [
    "V-BLOCK: the statement `for &to_coord in &to { .. }` is extracted from build_execution_graph byte for byte and wrapped in fn wire_replica(network, from, from_coord, to, typ, fragile) (its free variables); the three enclosing loops (job-graph edges in hash-map order, producer replicas) only enumerate the arguments and are not under contract",
    "NetworkTopology::connect is the environment: it appends (from, to) to a ghost log of links; SchedulerBlockInfo modelled by the one field the loop reads (is_only_one_strategy); TypeId opaque",
    "the consumer replicas in `to` are pairwise distinct (postcondition of remote_block_info/local_block_info: unit placement)",
    "V-ITER: `for &x in &v {` -> while loop with index",
]
PRELUDE = r'''
type CoordUInt = u64; type BlockId = u64; type HostId = u64; type ReplicaId = u64;
#[verifier::external_body]
#[derive(Clone, Copy)]
struct TypeId {}
struct SchedulerBlockInfo { is_only_one_strategy: bool }
// ---- environment: NetworkTopology::connect appends a link
#[verifier::external_body]
struct NetworkTopology {}
impl NetworkTopology {
    uninterp spec fn links(&self) -> Seq<(Coord, Coord)>;
    #[verifier::external_body]
    fn connect(&mut self, from: Coord, to: Coord, typ: TypeId, fragile: bool)
        ensures final(self).links() == old(self).links().push((from, to))
    { unimplemented!() }
}
struct Scheduler { network: NetworkTopology }

spec fn same_index(a: Coord, b: Coord) -> bool { a.host_id == b.host_id && a.replica_id == b.replica_id }
// the consumers a producer replica must be linked to
spec fn wanted(forward: bool, from_coord: Coord, to: Seq<&Coord>, i: int) -> bool {
    if forward { to.len() == 1 || same_index(*to[i], from_coord) } else { true }
}
spec fn links_upto(forward: bool, from_coord: Coord, to: Seq<&Coord>, k: int) -> Seq<(Coord, Coord)>
    decreases k
{
    if k <= 0 { Seq::empty() } else {
        let p = links_upto(forward, from_coord, to, k - 1);
        if wanted(forward, from_coord, to, k - 1) { p.push((from_coord, *to[k - 1])) } else { p }
    }
}
proof fn lemma_one_link(forward: bool, from_coord: Coord, to: Seq<&Coord>, k: int, j: int)
    requires 0 <= j < to.len(), 0 <= k <= to.len(), forward, to.len() != 1,
        same_index(*to[j], from_coord),
        forall|a: int, b: int| 0 <= a < b < to.len() ==> *#[trigger] to[a] != *#[trigger] to[b],
        forall|a: int| 0 <= a < to.len() ==> (#[trigger] to[a]).block_id == to[0].block_id,
    ensures links_upto(forward, from_coord, to, k).len() == (if k > j { 1int } else { 0int }),
    decreases k
{
    if k > 0 {
        lemma_one_link(forward, from_coord, to, k - 1, j);
        if k - 1 != j && same_index(*to[k - 1], from_coord) {
            assert(*to[k - 1] == *to[j]);
        }
    }
}
proof fn lemma_no_link(forward: bool, from_coord: Coord, to: Seq<&Coord>, k: int)
    requires 0 <= k <= to.len(), forward, to.len() != 1,
        forall|a: int| 0 <= a < to.len() ==> !same_index(*#[trigger] to[a], from_coord),
    ensures links_upto(forward, from_coord, to, k).len() == 0,
    decreases k
{
    if k > 0 { lemma_no_link(forward, from_coord, to, k - 1); }
}
'''
SPEC = r'''
        requires
            §to§@.len() >= 1,
            forall|a: int, b: int| 0 <= a < b < §to§@.len() ==> *#[trigger] §to§@[a] != *#[trigger] §to§@[b],
            forall|a: int| 0 <= a < §to§@.len() ==> (#[trigger] §to§@[a]).block_id == §to§@[0].block_id,
        ensures
            // exactly the wanted links, in the order of `to`, nothing else touched
            final(self_).network.links() == old(self_).network.links()
                + links_upto(from.is_only_one_strategy || fragile, from_coord, §to§@, §to§@.len() as int),                        // #obl:wiring.links_created_for_one_producer_replica
            // all-to-all edges: every consumer
            !(from.is_only_one_strategy || fragile) ==>
                final(self_).network.links().len() == old(self_).network.links().len() + §to§@.len(),                              // #obl:wiring.all_to_all_otherwise
            // forward edges: every producer replica gets EXACTLY ONE consumer (C19) ...
            (from.is_only_one_strategy || fragile) && (§to§@.len() == 1 || exists|j: int| 0 <= j < §to§@.len() && same_index(*#[trigger] §to§@[j], from_coord)) ==>
                final(self_).network.links().len() == old(self_).network.links().len() + 1,                                      // #obl:wiring.forward_link_exactly_one_consumer
            // ... also when the consumer block has several replicas but none with the producer's (host, replica) index
            (from.is_only_one_strategy || fragile) && §to§@.len() > 1 && (forall|j: int| 0 <= j < §to§@.len() ==> !same_index(*#[trigger] §to§@[j], from_coord)) ==>
                final(self_).network.links().len() == old(self_).network.links().len() + 1,                                      // #obl:wiring.forward_link_exactly_one_consumer_without_same_index_replica
            // ... the same-index one when it exists
            (from.is_only_one_strategy || fragile) && §to§@.len() > 1 ==>
                forall|j: int| 0 <= j < §to§@.len() && same_index(*#[trigger] §to§@[j], from_coord) ==>
                    final(self_).network.links().last() == (from_coord, *§to§@[j]),                                                // #obl:wiring.forward_link_goes_to_the_same_index_replica
'''


def build(x):
    c = x.struct(FN, 'Coord'); c.text = '#[derive(Clone, Copy)]\n' + c.text
    lp = x.stmt(F, 'Scheduler', 'build_execution_graph', r'for &to_coord in &\w+ \{')
    lp.bind('to', r'for &to_coord in &(\w+) \{')
    lp.sub('V-ITER', r'for &to_coord in &(\w+) \{', r'let mut __i: usize = 0; while __i < \1.len() { let to_coord = \1[__i]; __i += 1;', detail='`for &x in &v {` -> while loop with index', must=True)
    lp.sub('V-SUBST', r'\bself\.network\b', 'self_.network', detail='`self` is a parameter of the wrapper function (named self_)')
    lp.text = ("fn wire_replica(self_: &mut Scheduler, from: &SchedulerBlockInfo, from_coord: Coord, §to§: Vec<&Coord>, typ: TypeId, fragile: bool)\n"
               + SPEC + "{\n    let ghost fwd = from.is_only_one_strategy || fragile;\n    " + lp.text + "\n    /*@loop_end*/\n}\n")
    lp.add_loop_spec(1, r'''
        invariant __i <= §to§@.len(), fwd == (from.is_only_one_strategy || fragile),
            self_.network.links() == old(self_).network.links() + links_upto(fwd, from_coord, §to§@, __i as int),   // #obl:wiring.each_consumer_linked_iff_wanted
        decreases §to§@.len() - __i,
''')
    lp.insert_after('/*@loop_end*/', r'''
    proof {
        let n = §to§@.len() as int;
        if !fwd { lemma_all(from_coord, §to§@, n); }
        else if n == 1 { assert(links_upto(fwd, from_coord, §to§@, 0) =~= Seq::<(Coord, Coord)>::empty()); assert(links_upto(fwd, from_coord, §to§@, 1).len() == 1); }
        else if exists|j: int| 0 <= j < n && same_index(*#[trigger] §to§@[j], from_coord) {
            let j = choose|j: int| 0 <= j < n && same_index(*#[trigger] §to§@[j], from_coord);
            lemma_one_link(fwd, from_coord, §to§@, n, j);
            lemma_last_link(fwd, from_coord, §to§@, n, j);
        } else {
            lemma_no_link(fwd, from_coord, §to§@, n);
        }
    }''')
    extra = r'''
proof fn lemma_all(from_coord: Coord, to: Seq<&Coord>, k: int)
    requires 0 <= k <= to.len(),
    ensures links_upto(false, from_coord, to, k).len() == k,
    decreases k
{ if k > 0 { lemma_all(from_coord, to, k - 1); } }
proof fn lemma_last_link(forward: bool, from_coord: Coord, to: Seq<&Coord>, k: int, j: int)
    requires 0 <= j < k <= to.len(), forward, to.len() != 1, same_index(*to[j], from_coord),
        forall|a: int, b: int| 0 <= a < b < to.len() ==> *#[trigger] to[a] != *#[trigger] to[b],
        forall|a: int| 0 <= a < to.len() ==> (#[trigger] to[a]).block_id == to[0].block_id,
    ensures links_upto(forward, from_coord, to, k).len() == 1, links_upto(forward, from_coord, to, k).last() == (from_coord, *to[j]),
    decreases k
{
    lemma_one_link(forward, from_coord, to, k, j);
    lemma_one_link(forward, from_coord, to, k - 1, j);
    if k - 1 > j { lemma_last_link(forward, from_coord, to, k - 1, j);
        if same_index(*to[k - 1], from_coord) { assert(*to[k - 1] == *to[j]); } }
}
'''
    return [PRELUDE, extra, c, lp]
