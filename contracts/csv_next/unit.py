"""C15 / C05 — CsvSource::next (src/operator/source/csv.rs): every record the replica's csv reader yields (the reader is built over
the replica's byte range, unit csv_source) is emitted exactly once, in order, as the item the record deserialises to; when the
reader is exhausted exactly one FlushAndRestart is emitted, then Terminate forever; the reader is never polled again."""
import os, re, sys
sys.path.insert(0, os.path.dirname(os.path.dirname(__file__)))
import std_specs as S

PROPERTIES = ["C15", "C05"]
MIN_VERIFIED = 1
F = 'src/operator/source/csv.rs'
FO = 'src/operator/mod.rs'
ASSUMPTIONS = [
    "csv::Reader over the replica's byte range modelled by a ghost sequence of remaining records: read_byte_record fills the buffer with the head record and returns Ok(true), or Ok(false) when nothing remains (an I/O / format error panics: fail-stop); that the reader built in setup() yields exactly the records starting in [start, end) (quoted terminators, `flexible`, comment lines ...) is the csv crate's business: NOT decided",
    "ByteRecord::deserialize is a function decode(record) (serde model); a record that does not match the type panics (fail-stop)",
    "`.expect(msg)` -> `.unwrap()`; `Err(e) => panic!(..)` -> panic_no_return (a panic does not return)",
]
PRELUDE = r'''
use std::marker::PhantomData;
type Timestamp = i64;
trait Data: Clone + Send + 'static {}
trait CsvDeserialize: Sized { spec fn decode(rec: Seq<u8>) -> Self; }
#[verifier::external_body] struct PathBuf {}
#[verifier::external_body] struct CsvOptions {}
struct CsvError {}
#[verifier::external_body]
fn panic_no_return_val<T>() -> T ensures false { unimplemented!() }
#[verifier::external_body]
struct ByteRecord {}
impl ByteRecord {
    uninterp spec fn rec(&self) -> Seq<u8>;
    #[verifier::external_body]
    fn deserialize<Out: CsvDeserialize>(&self, headers: Option<&ByteRecord>) -> (r: Result<Out, CsvError>)
        ensures r matches Ok(v) ==> v == Out::decode(self.rec())
    { unimplemented!() }
}
#[verifier::external_body]
struct CsvReader {}
impl CsvReader {
    uninterp spec fn remaining(&self) -> Seq<Seq<u8>>;
    #[verifier::external_body]
    fn read_byte_record(&mut self, buf: &mut ByteRecord) -> (r: Result<bool, CsvError>)
        ensures
            (r matches Ok(true) ==> old(self).remaining().len() > 0 && final(buf).rec() == old(self).remaining()[0] && final(self).remaining() == old(self).remaining().skip(1)),
            (r matches Ok(false) ==> old(self).remaining().len() == 0 && final(self).remaining().len() == 0),
            old(self).remaining().len() > 0 ==> !(r matches Ok(false)),
            old(self).remaining().len() == 0 ==> !(r matches Ok(true)),
    { unimplemented!() }
}
'''
SPEC = r'''
        requires old(self).csv_reader is Some || old(self).terminated,
        ensures
            final(self).csv_reader is Some == old(self).csv_reader is Some,
            old(self).terminated ==> r is Terminate && final(self).terminated && final(self).csv_reader == old(self).csv_reader,   // #obl:csv_next.terminate_forever_and_the_reader_is_not_polled_again
            (!old(self).terminated && old(self).csv_reader->0.remaining().len() > 0) ==>
                r == StreamElement::Item(Out::decode(old(self).csv_reader->0.remaining()[0]))
                && final(self).csv_reader->0.remaining() == old(self).csv_reader->0.remaining().skip(1) && !final(self).terminated,   // #obl:csv_next.next_record_emitted_once_in_order
            (!old(self).terminated && old(self).csv_reader->0.remaining().len() == 0) ==> r is FlushAndRestart && final(self).terminated,   // #obl:csv_next.single_flush_and_restart_when_the_range_is_exhausted
'''


def build(x):
    st = x.struct(F, 'CsvSource')
    st.sub('V-SUBST', r"Out: Data \+ for<'a> Deserialize<'a>", 'Out: Data + CsvDeserialize', detail="serde bound `for<'a> Deserialize<'a>` -> model trait CsvDeserialize (decode function)", must=True)
    st.sub('V-SUBST', r'Option<Reader<LimitedReader<BufReader<File>>>>', 'Option<CsvReader>', detail='csv::Reader over the limited buffered file -> model CsvReader (ghost sequence of remaining records)', must=True)
    st.text = '#[verifier::reject_recursive_types(Out)]\n' + st.text
    nx = x.method(F, 'CsvSource', 'next', trait='Operator')
    nx.sub('V-SUBST', r'\.expect\("[^"]*"\)', '.unwrap()', detail='.expect(msg) -> .unwrap()')
    nx.sub('V-ASSERT', r'Err\((\w+)\) => panic!\((?:[^()]|\((?:[^()]|\([^()]*\))*\))*\),', r'Err(\1) => panic_no_return_val(),', detail='`Err(e) => panic!(..)` -> panic_no_return (a panic does not return)', flags=re.S, must=True)
    nx.sub('V-SUBST', r'let (\w+)(\s*:[^=;]*)? = self\s*\.buf\s*\.deserialize::<Out>\(None\)\s*\.unwrap\(\);', r'let \1 = match self.buf.deserialize::<Out>(None) { Ok(v) => v, Err(_) => panic_no_return_val() };',
           detail='`.deserialize(None).expect(..)` -> `match .. { Ok(v) => v, Err(_) => panic }` (a record that does not match the type panics: fail-stop)', flags=re.S, must=True)
    nx.name_result('r')
    nx.add_spec(SPEC)
    return [PRELUDE, x.enum(FO, 'StreamElement'), st, "impl<Out: Data + CsvDeserialize> CsvSource<Out> {", nx, "}"]
