"""C07 / C05 / C06 — RichMap::next (src/operator/rich_map.rs): the keyed stateful map.  Every key has its own instance of the user's
stateful function, created as a clone of the initial function when the key is first seen; an element of key k is handed to the
instance of k and to no other (state isolation per key), exactly once, in arrival order; the output keeps the element's key,
kind and timestamp; control elements pass through unchanged and touch no state."""
import os, re, sys
sys.path.insert(0, os.path.dirname(os.path.dirname(__file__)))
import std_specs as S
from engine.rsx import ScanError

PROPERTIES = ["C07", "C05", "C06"]
MIN_VERIFIED = 1
F = 'src/operator/rich_map.rs'
FO = 'src/operator/mod.rs'
ASSUMPTIONS = [
    "the user's stateful function F: FnMut((&K, I)) -> O + Clone is modelled by a trait with a ghost log of the values each instance was called with (`(map_fn)((&key, value))` -> `map_fn.call_logged(&key, value)`, V-SUBST); Clone yields an equal instance (axiom_data_clone); total, opaque",
    "V-COMB: `element.map(|(key, value)| { B })` is replaced by the definition of StreamElement::map (match on the element, B applied to the payload of Item / Timestamped, control elements rebuilt unchanged) with B verbatim in both data arms - Verus has no closures capturing `&mut self` fields",
    "std HashMap<K, F, GroupHasherBuilder> by its map view (KMap): get_mut, `.entry(k).or_insert(v)` -> entry_or_insert(k, v); Key equality is spec equality",
    "OBSERVATION (not a violation of a listed property as stated): the per-key instances are NOT reset at FlushAndRestart (`self.maps_fn.clear()` is commented out in the real code), so the state of a key survives into the next iteration",
    "prev.next() returns any element (model trait Operator)",
]
PRELUDE = r'''
use std::marker::PhantomData;
type Timestamp = i64;
trait DataKey: Clone + Send + 'static {}
trait Operator: Sized {
    type Out;
    spec fn hist(&self) -> Seq<StreamElement<Self::Out>>;
    fn next(&mut self) -> (r: StreamElement<Self::Out>)
        ensures final(self).hist() == old(self).hist().push(r);
}
broadcast use trusted_axioms::axiom_data_clone;
// the user's stateful per-key function: every call is logged in the instance
trait KeyedMapFn<K, I, O>: Sized + Clone {
    spec fn calls(&self) -> Seq<I>;
    spec fn out(&self, k: K, v: I) -> O;
    fn call_logged(&mut self, k: &K, v: I) -> (r: O)
        ensures final(self).calls() == old(self).calls().push(v), r == old(self).out(*k, v);
}
#[verifier::external_body]
#[verifier::reject_recursive_types(K)]
#[verifier::reject_recursive_types(V)]
struct KMap<K, V> { _p: core::marker::PhantomData<(K, V)> }
impl<K, V> KMap<K, V> {
    uninterp spec fn view(&self) -> Map<K, V>;
    #[verifier::external_body]
    fn get_mut(&mut self, k: &K) -> (r: Option<&mut V>)
        ensures
            !old(self)@.contains_key(*k) ==> r is None && final(self)@ == old(self)@,
            old(self)@.contains_key(*k) ==> r is Some && *(r->0) == old(self)@[*k] && final(self)@ == old(self)@.insert(*k, *final(r->0)),
    { unimplemented!() }
    #[verifier::external_body]
    fn entry_or_insert(&mut self, k: K, v: V) -> (r: &mut V)
        ensures *r == (if old(self)@.contains_key(k) { old(self)@[k] } else { v }),
                final(self)@ == old(self)@.insert(k, *final(r)),
    { unimplemented!() }
}
spec fn is_data<T>(e: StreamElement<T>) -> bool { e is Item || e is Timestamped }
spec fn payload<T>(e: StreamElement<T>) -> T { match e { StreamElement::Item(x) => x, StreamElement::Timestamped(x, _) => x, _ => arbitrary() } }
spec fn same_shape<A, B>(a: StreamElement<A>, b: StreamElement<B>) -> bool {
    match a {
        StreamElement::Item(_) => b is Item,
        StreamElement::Timestamped(_, t) => b matches StreamElement::Timestamped(_, t2) && t2 == t,
        StreamElement::Watermark(w) => b matches StreamElement::Watermark(w2) && w2 == w,
        StreamElement::FlushBatch => b is FlushBatch,
        StreamElement::Terminate => b is Terminate,
        StreamElement::FlushAndRestart => b is FlushAndRestart,
    }
}
'''
NEXT_SPEC = r'''
        ensures
            final(self).init_map == old(self).init_map,
            final(self).prev.hist().len() == old(self).prev.hist().len() + 1,                                 // #obl:rich_map.one_element_pulled_per_call
            same_shape(final(self).prev.hist().last(), r),                                                    // #obl:rich_map.kind_and_timestamp_kept_control_unchanged
            // control elements touch no state
            !is_data(final(self).prev.hist().last()) ==> final(self).maps_fn@ == old(self).maps_fn@,           // #obl:rich_map.control_elements_touch_no_state
            is_data(final(self).prev.hist().last()) ==> ({
                let (k, v) = payload(final(self).prev.hist().last());
                let inst = if old(self).maps_fn@.contains_key(k) { old(self).maps_fn@[k] } else { old(self).init_map };
                &&& payload(r).0 == k && payload(r).1 == inst.out(k, v)                                       // #obl:rich_map.output_keeps_the_key_and_is_computed_by_the_keys_own_instance
                &&& final(self).maps_fn@.contains_key(k) && final(self).maps_fn@[k].calls() == inst.calls().push(v)   // #obl:rich_map.element_handed_once_to_the_instance_of_its_key
                &&& final(self).maps_fn@.dom() =~= old(self).maps_fn@.dom().insert(k)
                &&& forall|k2: K| k2 != k && old(self).maps_fn@.contains_key(k2) ==> #[trigger] final(self).maps_fn@[k2] == old(self).maps_fn@[k2]   // #obl:rich_map.other_keys_state_untouched
            }),
'''


def build(x):
    pieces = [S.CLONE_IS_EQ, PRELUDE, x.enum(FO, 'StreamElement')]
    st = x.struct(F, 'RichMap')
    st.sub('V-SUBST', r'HashMap<K, F, crate::block::GroupHasherBuilder>', 'KMap<K, F>', detail='std HashMap<K, F, GroupHasherBuilder> -> map-view model KMap<K, F>', must=True)
    st.sub('V-SUBST', r'F: FnMut\(\(&K, I\)\) -> O \+ Clone \+ Send,', 'F: KeyedMapFn<K, I, O> + Send,', detail='the user closure bound FnMut((&K, I)) -> O + Clone -> model trait with a ghost call log per instance', must=True)
    st.text = ''.join(f'#[verifier::reject_recursive_types({t})]\n' for t in ('K', 'I', 'O', 'F', 'OperatorChain')) + st.text
    pieces.append(st)
    nx = x.method(F, 'RichMap', 'next', trait='Operator')
    nx.name_result('r')
    nx.add_spec(NEXT_SPEC)
    # the closure handed to StreamElement::map, by the definition of map
    s = nx._src()
    m = next((m for m in re.finditer(r'(?P<e>\w+)\.map\(\|\((?P<k>\w+), (?P<v>\w+)\)\| \{', nx.text) if s.mask[m.start()]), None)
    if not m:
        raise ScanError('RichMap::next: `element.map(|(key, value)| { .. })` not found')
    ob = m.end() - 1
    cb = s.match_close(ob)
    tail = re.match(r'\s*\)', nx.text[cb + 1:])
    if not tail:
        raise ScanError('RichMap::next: unexpected text after the closure')
    body = nx.text[ob:cb + 1]
    e, k, v = m.group('e'), m.group('k'), m.group('v')
    new = (f"match {e} {{\n"
           f"            StreamElement::Item(({k}, {v})) => StreamElement::Item({body}),\n"
           f"            StreamElement::Timestamped(({k}, {v}), __ts) => StreamElement::Timestamped({body}, __ts),\n"
           f"            StreamElement::Watermark(__w) => StreamElement::Watermark(__w),\n"
           f"            StreamElement::Terminate => StreamElement::Terminate,\n"
           f"            StreamElement::FlushAndRestart => StreamElement::FlushAndRestart,\n"
           f"            StreamElement::FlushBatch => StreamElement::FlushBatch,\n"
           f"        }}")
    nx.text = nx.text[:m.start()] + new + nx.text[cb + 1 + tail.end():]
    nx.note('V-COMB', 1, '`element.map(|(key, value)| { B })` -> definition of StreamElement::map: match on the element, B (verbatim) on the payload of Item / Timestamped, control elements rebuilt unchanged')
    nx.sub('V-SUBST', r'\((\w+)\)\(\(&(\w+), (\w+)\)\)', r'\1.call_logged(&\2, \3)', detail='`(map_fn)((&key, value))` -> `map_fn.call_logged(&key, value)` (call on the model of the user function)', must=True)
    nx.sub('V-SUBST', r'self\.maps_fn\.entry\(([^()]*(?:\([^()]*\))?[^()]*)\)\.or_insert\((\w+)\)', r'self.maps_fn.entry_or_insert(\1, \2)', detail='`.entry(k).or_insert(v)` -> entry_or_insert(k, v)', must=True)
    nx.sub('V-PAT', r'matches!\((\w+), StreamElement::FlushAndRestart\)', r'(match \1 { StreamElement::FlushAndRestart => true, _ => false })', detail='matches!(e, P) -> match e { P => true, _ => false }')
    nx.insert_after(re.compile(r'let \w+(?:\s*:[^=;]*)? = self\.prev\.next\(\);'), '\n        proof { assert(self.prev.hist().last() == ' + e + '); }')
    pieces += ["impl<K: DataKey, I: Send, O: Send, F, OperatorChain> RichMap<K, I, O, F, OperatorChain>\nwhere\n    F: KeyedMapFn<K, I, O> + Send,\n    OperatorChain: Operator<Out = (K, I)>,\n{", nx, "}"]
    return pieces
