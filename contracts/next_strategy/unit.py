"""C03 — NextStrategy::index (src/block/next_strategy.rs): the routing index allowed by each connection kind."""
import os, re, sys
sys.path.insert(0, os.path.dirname(os.path.dirname(__file__)))
import std_specs as S
import shared as SH

PROPERTIES = ["C03"]
MIN_VERIFIED = 2
F = 'src/block/next_strategy.rs'
ASSUMPTIONS = [
    "R-RNG: nanorand tls_rng().generate() returns an arbitrary usize (external_body model, no postcondition)",
    "the keyer closure of GroupBy is total (its precondition holds for every message); group_by_hash is a pure function of its argument (wyhash with a literal seed; read, not verified)",
]
PRELUDE = r'''
use std::marker::PhantomData;
trait ExchangeData: Clone + Send + 'static {}
trait KeyerFn<Key, Out>: Fn(&Out) -> Key + Clone + Send + 'static {}
impl<Key, Out, T: Fn(&Out) -> Key + Clone + Send + 'static> KeyerFn<Key, Out> for T {}

// R-RNG: the random source is any value
#[verifier::external_body]
struct TlsRng {}
impl TlsRng {
    #[verifier::external_body]
    fn generate(&mut self) -> (r: usize) { unimplemented!() }
}
#[verifier::external_body]
fn tls_rng() -> TlsRng { unimplemented!() }

impl<Out: ExchangeData, IndexFn> NextStrategy<Out, IndexFn>
where
    IndexFn: KeyerFn<u64, Out>,
{
    // which routing indexes the connection kind allows for message m
    spec fn may_index(&self, m: Out, i: usize) -> bool {
        match self {
            NextStrategy::OnlyOne | NextStrategy::All => i == 0,
            NextStrategy::Random => true,
            NextStrategy::GroupBy(keyer, _) => exists|k: u64| keyer.ensures((&m,), k) && i == k as usize,
        }
    }
    spec fn total(&self) -> bool {
        match self {
            NextStrategy::GroupBy(keyer, _) => forall|m: Out| keyer.requires((&m,)),
            _ => true,
        }
    }
}
'''

from engine.rsx import ScanError as S_ScanError  # noqa: E402
GB_PRELUDE = r'''
use std::hash::Hash;
// crate::block::group_by_hash: wyhash with a literal seed - a fixed function of the key (read, not verified)
uninterp spec fn key_hash<T>(k: T) -> u64;
#[verifier::external_body]
fn group_by_hash<T: Hash>(item: &T) -> (r: u64) ensures r == key_hash(*item) { unimplemented!() }
'''

def build(x):
    e = x.enum(F, 'NextStrategy')
    e.text = '#[verifier::reject_recursive_types(Out)]\n#[verifier::reject_recursive_types(IndexFn)]\n' + e.text
    ix = x.method(F, 'NextStrategy', 'index')
    ix.name_result('r')
    ix.add_spec('''        requires ''' + SH.INDEX_REQUIRES + ''',
        ensures ''' + SH.INDEX_ENSURES + ''',   // #obl:index.allowed_by_connection_kind
                (self is OnlyOne || self is All) ==> r == 0,   // #obl:index.forward_and_broadcast_use_zero
''')
    # the index function built by NextStrategy::group_by: the closure expression, byte for byte, applied to an arbitrary element
    gb = x.method(F, 'NextStrategy', 'group_by')
    mm = re.search(r'NextStrategy::GroupBy\(\s*(move \|\w+: &Out\| [^\n]*?),\s*\n', gb.text)
    if mm is None:
        raise S_ScanError('NextStrategy::group_by: closure expression of the GroupBy variant not found')
    closure = mm.group(1)
    gb.text = ("fn group_by_index<Out: ExchangeData, Key: Hash, Keyer: KeyerFn<Key, Out>>(keyer: Keyer, probe: &Out) -> (h: u64)\n"
               "        requires forall|m: &Out| keyer.requires((m,)),\n"
               "        // the routing function of EVERY group-by connection built by NextStrategy::group_by is the crate-wide key hash of the\n"
               "        // element's key: equal keys from any producer, and from both inputs of a join, get the same index\n"
               "        ensures exists|k: Key| keyer.ensures((probe,), k) && h == key_hash(k),   // #obl:group_by.index_is_the_crate_wide_hash_of_the_key\n"
               "{\n    let f = " + closure + ";\n    f(probe)\n}\n")
    gb.note('V-BLOCK', 1, 'the closure expression passed to NextStrategy::GroupBy in NextStrategy::group_by, extracted byte for byte, bound to a local and applied to an arbitrary element (return-position `impl Trait` is not supported by Verus)')
    gb.sub('V-CLOSURE', r'move \|(\w+): &Out\| (.*);\n', r'move |\1: &Out| -> (h: u64) requires keyer.requires((\1,)) ensures exists|k: Key| keyer.ensures((\1,), k) && h == key_hash(k) { \2 };\n',
           detail='closure of NextStrategy::group_by: named result, requires/ensures added; body verbatim', must=True)
    return [PRELUDE, GB_PRELUDE, e, "impl<Out: ExchangeData, IndexFn> NextStrategy<Out, IndexFn>\nwhere\n    IndexFn: KeyerFn<u64, Out>,\n{", ix, "}", gb]
