"""C03 — NextStrategy::index (src/block/next_strategy.rs): the routing index allowed by each connection kind."""
import os, sys
sys.path.insert(0, os.path.dirname(os.path.dirname(__file__)))
import std_specs as S
import shared as SH

PROPERTIES = ["C03"]
MIN_VERIFIED = 1
F = 'src/block/next_strategy.rs'
ASSUMPTIONS = [
    "R-RNG: nanorand tls_rng().generate() returns an arbitrary usize (external_body model, no postcondition)",
    "the keyer closure of GroupBy is total (its precondition holds for every message); group_by_hash is a pure function of its argument (wyhash with a literal seed; read, not verified)",
]
PRELUDE = r'''
use std::marker::PhantomData;
trait ExchangeData: Clone + Send + 'static {}
trait KeyerFn<Key, Out>: Fn(&Out) -> Key + Clone + Send + 'static {}
impl<Key, Out, T: Fn(&Out) -> Key + Clone + Send + 'static> KeyerFn<Key, Out> for T {}

// R-RNG: the random source is any value
#[verifier::external_body]
struct TlsRng {}
impl TlsRng {
    #[verifier::external_body]
    fn generate(&mut self) -> (r: usize) { unimplemented!() }
}
#[verifier::external_body]
fn tls_rng() -> TlsRng { unimplemented!() }

impl<Out: ExchangeData, IndexFn> NextStrategy<Out, IndexFn>
where
    IndexFn: KeyerFn<u64, Out>,
{
    // which routing indexes the connection kind allows for message m
    spec fn may_index(&self, m: Out, i: usize) -> bool {
        match self {
            NextStrategy::OnlyOne | NextStrategy::All => i == 0,
            NextStrategy::Random => true,
            NextStrategy::GroupBy(keyer, _) => exists|k: u64| keyer.ensures((&m,), k) && i == k as usize,
        }
    }
    spec fn total(&self) -> bool {
        match self {
            NextStrategy::GroupBy(keyer, _) => forall|m: Out| keyer.requires((&m,)),
            _ => true,
        }
    }
}
'''

def build(x):
    e = x.enum(F, 'NextStrategy')
    e.text = '#[verifier::reject_recursive_types(Out)]\n#[verifier::reject_recursive_types(IndexFn)]\n' + e.text
    ix = x.method(F, 'NextStrategy', 'index')
    ix.name_result('r')
    ix.add_spec('''        requires ''' + SH.INDEX_REQUIRES + ''',
        ensures ''' + SH.INDEX_ENSURES + ''',   // #obl:index.allowed_by_connection_kind
                (self is OnlyOne || self is All) ==> r == 0,   // #obl:index.forward_and_broadcast_use_zero
''')
    return [PRELUDE, e, "impl<Out: ExchangeData, IndexFn> NextStrategy<Out, IndexFn>\nwhere\n    IndexFn: KeyerFn<u64, Out>,\n{", ix, "}"]
