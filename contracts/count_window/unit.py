"""C12 — count windows: CountWindowManager::{update_slot, process}, Slot::new, WindowResult::new,
StreamElement::timestamp extracted from /repo and verified against the sliding-group contract."""
import os, re, sys
sys.path.insert(0, os.path.dirname(os.path.dirname(__file__)))
import std_specs as S

PROPERTIES = ["C12"]
MIN_VERIFIED = 8
F = 'src/operator/window/descr/count.rs'
FW = 'src/operator/window/mod.rs'
FO = 'src/operator/mod.rs'

ASSUMPTIONS = [
    "user accumulator contract: WindowAccumulator::process appends its argument to the ghost view `contents`, output is a function of `contents` (model trait in the unit; the real trait has no body to verify)",
    "Clone of an accumulator / payload yields an equal value (axiom_data_clone)",
    "std specs assumed: VecDeque::front, Option::filter",
    "Timestamp = i64 (feature `timestamp`, default ON)",
]

PRELUDE = r'''
use std::collections::VecDeque;
type Timestamp = i64;
trait Data: Clone {}
impl<T: Clone> Data for T {}

// ---- model of crate::operator::window::WindowAccumulator: the ASSUMED contract of user accumulators
trait WindowAccumulator: Clone + Sized {
    type In;
    type Out;
    spec fn contents(&self) -> Seq<Self::In>;
    spec fn result(s: Seq<Self::In>) -> Self::Out;
    fn process(&mut self, el: Self::In)
        ensures final(self).contents() == old(self).contents().push(el);
    fn output(self) -> (r: Self::Out)
        ensures r == Self::result(self.contents());
}

spec fn opt_max(a: Option<Timestamp>, b: Option<Timestamp>) -> Option<Timestamp> {
    match (a, b) {
        (Some(x), Some(y)) => Some(if x >= y { x } else { y }),
        (Some(t), None) => Some(t),
        (None, Some(t)) => Some(t),
        (None, None) => None,
    }
}

spec fn wr_new<T>(item: T, ts: Option<Timestamp>) -> WindowResult<T> {
    match ts { Some(t) => WindowResult::Timestamped(item, t), None => WindowResult::Item(item) }
}

spec fn se_ts<T>(e: StreamElement<T>) -> Option<Timestamp> {
    match e { StreamElement::Timestamped(_, t) => Some(t), StreamElement::Watermark(t) => Some(t), _ => None }
}

spec fn se_val<T>(e: StreamElement<T>) -> Option<T> {
    match e { StreamElement::Item(x) => Some(x), StreamElement::Timestamped(x, _) => Some(x), _ => None }
}

spec fn sp_n_slots(size: int, slide: int) -> int { (size + slide - 1) / slide }

broadcast use trusted_axioms::axiom_data_clone;
'''

SPEC_IMPL = r'''
impl<A: WindowAccumulator> CountWindowManager<A> {
    // elements of the oldest open group received so far (the abstract state of one key)
    spec fn cur(&self) -> Seq<A::In> {
        if self.ws@.len() > 0 { self.ws@[0].acc.contents() } else { Seq::empty() }
    }
    spec fn slot_ok(&self, i: int) -> bool {
        let c = self.cur();
        &&& self.ws@[i].count == self.ws@[i].acc.contents().len()
        &&& self.ws@[i].acc.contents() =~= (if i * self.slide <= c.len() { c.skip(i * self.slide) } else { Seq::empty() })
    }
    spec fn wf(&self) -> bool {
        &&& 1 <= self.slide <= self.size
        &&& self.size + self.slide <= usize::MAX
        &&& self.init.contents() =~= Seq::empty()
    }
    spec fn inv(&self) -> bool {
        let m = sp_n_slots(self.size as int, self.slide as int);
        &&& self.wf()
        &&& self.cur().len() < self.size
        &&& forall|i: int| 0 <= i < self.ws@.len() ==> #[trigger] self.slot_ok(i)
        &&& (self.ws@.len() == 0 || self.ws@.len() == m
             || (self.ws@.len() == m - 1 && self.cur().len() <= (m - 1) * self.slide))
    }
    spec fn same_params(&self, o: &Self) -> bool {
        self.size == o.size && self.slide == o.slide && self.exact == o.exact && self.init == o.init
    }
}

spec fn ts0<A: WindowAccumulator>(m: &CountWindowManager<A>) -> Option<Timestamp> {
    if m.ws@.len() > 0 { m.ws@[0].ts } else { None }
}

// ---- arithmetic lemmas -----------------------------------------------------------------------
proof fn lemma_slots(size: int, slide: int)
    requires 1 <= slide <= size,
    ensures sp_n_slots(size, slide) >= 1,
            sp_n_slots(size, slide) == (size - 1) / slide + 1,
            sp_n_slots(size, slide) * slide >= size,
            (sp_n_slots(size, slide) - 1) * slide < size,
{
    let q = (size - 1) / slide;
    vstd::arithmetic::div_mod::lemma_fundamental_div_mod(size - 1, slide);
    vstd::arithmetic::div_mod::lemma_div_plus_one(size - 1, slide);
    assert((size - 1 + slide) / slide == q + 1);
    assert(size + slide - 1 == size - 1 + slide);
    assert((q + 1) * slide == q * slide + slide) by (nonlinear_arith);
    assert(slide * q == q * slide) by (nonlinear_arith);
    vstd::arithmetic::div_mod::lemma_mod_bound(size - 1, slide);
}

proof fn lemma_le_div(i: int, a: int, d: int)
    requires d > 0, a >= 0, i >= 0,
    ensures (i <= a / d) <==> (i * d <= a),
{
    vstd::arithmetic::div_mod::lemma_fundamental_div_mod(a, d);
    vstd::arithmetic::div_mod::lemma_mod_bound(a, d);
    let q = a / d;
    if i <= q {
        assert(i * d <= q * d) by (nonlinear_arith) requires i <= q, d > 0;
        assert(d * q == q * d) by (nonlinear_arith);
    } else {
        assert(i * d >= (q + 1) * d) by (nonlinear_arith) requires i >= q + 1, d > 0;
        assert((q + 1) * d == q * d + d) by (nonlinear_arith);
        assert(d * q == q * d) by (nonlinear_arith);
    }
}

proof fn lemma_succ_mul(i: int, d: int)
    ensures (i + 1) * d == i * d + d,
{
    assert((i + 1) * d == i * d + d) by (nonlinear_arith);
}
'''

# The whole-history statement of C12, proved once and for all over the *relation* that the contract
# of `process` establishes between consecutive abstract states.
HISTORY_LEMMA = r'''
// abstract one-key machine induced by the contract of `process`:
//   state = cur (elements of the oldest open group), step(x) appends and emits+slides when full.
spec fn step_cur<T>(cur: Seq<T>, x: T, n: int, s: int) -> Seq<T> {
    let c2 = cur.push(x);
    if c2.len() == n { c2.skip(s) } else { c2 }
}
spec fn step_out<T>(cur: Seq<T>, x: T, n: int) -> Option<Seq<T>> {
    let c2 = cur.push(x);
    if c2.len() == n { Some(c2) } else { None }
}
spec fn run_cur<T>(h: Seq<T>, n: int, s: int) -> Seq<T>
    decreases h.len()
{
    if h.len() == 0 { Seq::empty() } else { step_cur(run_cur(h.drop_last(), n, s), h.last(), n, s) }
}
spec fn run_groups<T>(h: Seq<T>, n: int, s: int) -> Seq<Seq<T>>
    decreases h.len()
{
    if h.len() == 0 { Seq::empty() } else {
        let g = run_groups(h.drop_last(), n, s);
        match step_out(run_cur(h.drop_last(), n, s), h.last(), n) { Some(w) => g.push(w), None => g }
    }
}
// number of complete groups [jS, jS+N) inside a history of length l
spec fn n_groups(l: int, n: int, s: int) -> int { if l < n { 0 } else { (l - n) / s + 1 } }

proof fn lemma_n_groups_step(l: int, n: int, s: int)
    requires 1 <= s <= n, l >= 0,
    ensures
        n_groups(l + 1, n, s) == n_groups(l, n, s) + (if l + 1 == n_groups(l, n, s) * s + n { 1int } else { 0int }),
        n_groups(l, n, s) * s <= l || n_groups(l, n, s) == 0,
        l < n_groups(l, n, s) * s + n,   // #obl:hist.no_group_skipped
        n_groups(l, n, s) >= 0,
        n_groups(l, n, s) >= 1 ==> (n_groups(l, n, s) - 1) * s + n <= l,
{
    let j = n_groups(l, n, s);
    if l < n {
        if l + 1 == n {
            assert((0int) / s == 0) by { vstd::arithmetic::div_mod::lemma_div_basics(s); }
            assert(0 * s == 0) by (nonlinear_arith);
        } else {
            assert(0 * s == 0) by (nonlinear_arith);
        }
    } else {
        let a = l - n;
        vstd::arithmetic::div_mod::lemma_fundamental_div_mod(a, s);
        vstd::arithmetic::div_mod::lemma_mod_bound(a, s);
        vstd::arithmetic::div_mod::lemma_fundamental_div_mod(a + 1, s);
        vstd::arithmetic::div_mod::lemma_mod_bound(a + 1, s);
        let q = a / s;
        let q2 = (a + 1) / s;
        assert(s * q == q * s) by (nonlinear_arith);
        assert(s * q2 == q2 * s) by (nonlinear_arith);
        assert((q + 1) * s == q * s + s) by (nonlinear_arith);
        // q*s <= a < (q+1)*s ; q2*s <= a+1 < (q2+1)*s
        assert(q2 == q || q2 == q + 1) by (nonlinear_arith)
            requires q * s <= a, a < q * s + s, q2 * s <= a + 1, a + 1 < q2 * s + s, s >= 1;
        if a + 1 == (q + 1) * s {
            assert(q2 == q + 1) by (nonlinear_arith)
                requires a + 1 == (q + 1) * s, q2 * s <= a + 1, a + 1 < q2 * s + s, s >= 1, (q2 == q || q2 == q + 1);
        } else {
            assert(q2 == q) by (nonlinear_arith)
                requires a + 1 != (q + 1) * s, a < q * s + s, (q + 1) * s == q * s + s, q2 * s <= a + 1, s >= 1, (q2 == q || q2 == q + 1);
        }
    }
}

// C12, whole history: after any history h of one key (within one iteration),
//   * the groups emitted so far are exactly h[jS .. jS+N) for j = 0 .. n_groups(|h|)   (in order),
//   * the open group is h[n_groups*S ..], so the (j)-th group is emitted exactly when its N-th element arrives.
proof fn lemma_history<T>(h: Seq<T>, n: int, s: int)
    requires 1 <= s <= n,
    ensures
        run_groups(h, n, s).len() == n_groups(h.len() as int, n, s),                                   // #obl:hist.group_count
        forall|j: int| 0 <= j < n_groups(h.len() as int, n, s) ==>
            #[trigger] run_groups(h, n, s)[j] =~= h.subrange(j * s, j * s + n),                        // #obl:hist.groups_are_sliding_ranges
        n_groups(h.len() as int, n, s) * s <= h.len(),
        run_cur(h, n, s) =~= h.skip(n_groups(h.len() as int, n, s) * s),                              // #obl:hist.open_group_is_suffix
    decreases h.len()
{
    if h.len() == 0 {
        assert(0 * s == 0) by (nonlinear_arith);
    } else {
        let p = h.drop_last();
        let x = h.last();
        lemma_history(p, n, s);
        let l = p.len() as int;
        let j = n_groups(l, n, s);
        lemma_n_groups_step(l, n, s);
        let cur = run_cur(p, n, s);
        assert(cur =~= p.skip(j * s));
        let c2 = cur.push(x);
        assert(c2 =~= h.skip(j * s));
        assert(c2.len() == l + 1 - j * s);
        assert((j + 1) * s == j * s + s) by (nonlinear_arith);
        if c2.len() == n {
            // group j is complete
            assert(l + 1 == j * s + n);
            assert(n_groups(l + 1, n, s) == j + 1);
            assert(c2 =~= h.subrange(j * s, j * s + n));
            assert(run_groups(h, n, s) =~= run_groups(p, n, s).push(c2));
            assert forall|k: int| 0 <= k < j + 1 implies #[trigger] run_groups(h, n, s)[k] =~= h.subrange(k * s, k * s + n) by {
                if k < j {
                    assert(run_groups(p, n, s)[k] =~= p.subrange(k * s, k * s + n));
                    vstd::arithmetic::mul::lemma_mul_inequality(k + 1, j, s);
                    lemma_succ_mul(k, s);
                    assert(k * s + n <= l);
                    assert(p.subrange(k * s, k * s + n) =~= h.subrange(k * s, k * s + n));
                }
            }
            assert(c2.skip(s) =~= h.skip((j + 1) * s));
        } else {
            assert(n_groups(l + 1, n, s) == j);
            assert(run_groups(h, n, s) =~= run_groups(p, n, s));
            assert forall|k: int| 0 <= k < j implies #[trigger] run_groups(h, n, s)[k] =~= h.subrange(k * s, k * s + n) by {
                assert(run_groups(p, n, s)[k] =~= p.subrange(k * s, k * s + n));
                vstd::arithmetic::mul::lemma_mul_inequality(k + 1, j, s);
                lemma_succ_mul(k, s);
                assert(j >= 1);
                assert((j - 1) * s + n <= l);
                lemma_succ_mul(j - 1, s);
                assert(k * s + n <= l);
                assert(p.subrange(k * s, k * s + n) =~= h.subrange(k * s, k * s + n));
            }
        }
    }
}
'''


def build(x):
    pieces = [S.OPTION_FILTER, S.VECDEQUE_FRONT, S.CLONE_IS_EQ, PRELUDE]

    se = x.enum(FO, 'StreamElement')
    pieces.append(se)
    ts = x.method(FO, 'StreamElement', 'timestamp')
    ts.name_result('r')
    ts.add_spec("    ensures (r is Some) == (se_ts(*self) is Some), r is Some ==> *r->0 == se_ts(*self)->0, // #obl:se.timestamp")
    pieces += ["impl<Out> StreamElement<Out> {", ts, "}"]

    wr = x.enum(FW, 'WindowResult')
    pieces.append(wr)
    wn = x.method(FW, 'WindowResult', 'new')
    wn.name_result('r')
    wn.add_spec("    ensures r == wr_new(item, timestamp), // #obl:wr.new")
    pieces += ["impl<T> WindowResult<T> {", wn, "}"]

    pieces.append(x.struct(F, 'CountWindowManager'))
    pieces.append(x.struct(F, 'Slot'))
    sn = x.method(F, 'Slot', 'new')
    sn.name_result('r')
    sn.add_spec("    ensures r.count == 0, r.acc == acc, r.ts is None, // #obl:slot.new")
    pieces += ["impl<A> Slot<A> {", sn, "}"]

    us = x.method(F, 'CountWindowManager', 'update_slot')
    us.add_spec(r'''
        requires
            idx < old(self).ws@.len(),
            old(self).ws@[idx as int].count < usize::MAX,
        ensures
            final(self).same_params(old(self)),
            final(self).ws@.len() == old(self).ws@.len(),
            forall|j: int| 0 <= j < old(self).ws@.len() && j != idx ==> final(self).ws@[j] == old(self).ws@[j],            // #obl:update_slot.frame
            final(self).ws@[idx as int].count == old(self).ws@[idx as int].count + 1,                                           // #obl:update_slot.count
            final(self).ws@[idx as int].acc.contents() == old(self).ws@[idx as int].acc.contents().push(el),                   // #obl:update_slot.contents
            final(self).ws@[idx as int].ts == opt_max(old(self).ws@[idx as int].ts, ts),                                        // #obl:update_slot.ts_is_max
    ''')
    pieces += ["impl<A: WindowAccumulator> CountWindowManager<A> {", us, "}"]

    pr = x.method(F, 'CountWindowManager', 'process', trait='WindowManager')
    pr.replace_exact('V-TRAIT', 'Self::Output', 'Option<WindowResult<A::Out>>',
                     detail='associated type Output substituted by its definition in the impl block')
    pr.sub('V-DRAIN', r'self\.ws\.drain\(\.\.\);', 'self.ws.clear();')
    pr.annotate_closure('.filter(', 'r: &Slot<A>', 'keep: bool', 'keep == (r.count > 0)', obl='process.end_only_nonempty_partial')
    pr.annotate_closure('.map(', 'r: Slot<A>', 'o: WindowResult<A::Out>', 'o == wr_new(A::result(r.acc.contents()), r.ts)', obl='process.end_result_of_oldest')
    pr.insert_after('StreamElement::FlushAndRestart | StreamElement::Terminate => {', '''
                proof { if self.ws@.len() > 0 { assert(self.slot_ok(0)); } }''')
    pr.name_result('r')
    pr.add_spec(r'''
        requires
            old(self).inv(),
        ensures
            final(self).inv(),                                                          // #obl:process.inv_preserved
            final(self).same_params(old(self)),                                         // #obl:process.params_frame
            // --- data element: append to the open group; emit exactly when the N-th element arrives
            se_val(el) is Some && old(self).cur().push(se_val(el)->0).len() == old(self).size ==>
                r == Some(wr_new(A::result(old(self).cur().push(se_val(el)->0)), opt_max(ts0(old(self)), se_ts(el)))),   // #obl:process.emits_full_group
            se_val(el) is Some && old(self).cur().push(se_val(el)->0).len() == old(self).size ==>
                final(self).cur() =~= old(self).cur().push(se_val(el)->0).skip(old(self).slide as int),                      // #obl:process.slides_by_S
            se_val(el) is Some && old(self).cur().push(se_val(el)->0).len() != old(self).size ==> r is None,               // #obl:process.no_early_emit
            se_val(el) is Some && old(self).cur().push(se_val(el)->0).len() != old(self).size ==>
                final(self).cur() =~= old(self).cur().push(se_val(el)->0),                                                   // #obl:process.appends
            // --- end of iteration / stream
            (el is FlushAndRestart || el is Terminate) ==> final(self).ws@.len() == 0,                                       // #obl:process.reset_at_iteration_end
            (el is FlushAndRestart || el is Terminate) ==>
                r == (if old(self).exact || old(self).cur().len() == 0 { None }
                      else { Some(wr_new(A::result(old(self).cur()), old(self).ws@[0].ts)) }),                                // #obl:process.end_exact_nothing_else_oldest_partial
            // --- watermarks / FlushBatch
            (el is Watermark || el is FlushBatch) ==> r is None && final(self).ws@ == old(self).ws@,                          // #obl:process.control_ignored
    ''')
    pr.bind('k', r'for \w+ in 0\.\.(\w+)')
    pr.bind('i', r'for (\w+) in 0\.\.\w+')
    pr.bind('item', r'StreamElement::Item\((\w+)\)\s*\|\s*StreamElement::Timestamped')
    pr.bind('ts', r'let (\w+)(?:\s*:\s*[^=;]+)? = el\s*\.timestamp\(\)')
    # ghost: loop invariants and proof hints
    pr.add_loop_spec(1, r'''
                    invariant
                        self.same_params(old(self)), self.wf(),
                        1 <= sp_n_slots(self.size as int, self.slide as int),
                        self.ws@.len() >= old(self).ws@.len(),
                        self.ws@.len() <= sp_n_slots(self.size as int, self.slide as int),
                        forall|j: int| 0 <= j < old(self).ws@.len() ==> self.ws@[j] == old(self).ws@[j],
                        forall|j: int| old(self).ws@.len() <= j < self.ws@.len() ==>
                            (#[trigger] self.ws@[j]).count == 0 && self.ws@[j].acc.contents() =~= Seq::<A::In>::empty() && self.ws@[j].ts is None,
                    decreases sp_n_slots(self.size as int, self.slide as int) - self.ws@.len(),
    ''')
    pr.insert_before('while self.ws.len() <', r'''proof {
                    lemma_slots(self.size as int, self.slide as int);
                }
                ''')
    pr.insert_before(re.compile(r'let %s(?:\s*:\s*[\w<>:]+)? = ' % re.escape(pr.names['k'])), r'''let ghost mid = *self;
                proof {
                    lemma_slots(self.size as int, self.slide as int);
                    let m = sp_n_slots(self.size as int, self.slide as int);
                    assert(self.ws@.len() == m);
                    assert(self.cur() =~= old(self).cur());
                    assert forall|j: int| 0 <= j < self.ws@.len() implies #[trigger] self.slot_ok(j) by {
                        if j < old(self).ws@.len() {
                            assert(old(self).slot_ok(j));
                        } else {
                            if old(self).ws@.len() == 0 {
                                if j > 0 { assert(j * self.slide >= 1 * self.slide) by (nonlinear_arith) requires j >= 1, self.slide >= 1; assert(1 * self.slide == self.slide) by (nonlinear_arith); }
                                else { assert(0 * self.slide == 0) by (nonlinear_arith); }
                            } else {
                                assert(j == m - 1);
                            }
                        }
                    }
                    // k <= m
                    assert(self.slot_ok(0));
                    assert(self.ws@[0].count == self.cur().len());
                    vstd::arithmetic::div_mod::lemma_div_is_ordered(self.ws@[0].count as int, (self.size - 1) as int, self.slide as int);
                }
                ''')
    pr.add_loop_spec(2, r'''
                    invariant
                        self.same_params(old(self)), self.wf(),
                        §k§ <= self.ws@.len(), self.ws@.len() == mid.ws@.len(),
                        mid.ws@.len() == sp_n_slots(self.size as int, self.slide as int),
                        forall|j: int| 0 <= j < mid.ws@.len() ==> (#[trigger] mid.ws@[j]).count < self.size,
                        forall|j: int| §i§ <= j < self.ws@.len() ==> self.ws@[j] == mid.ws@[j],
                        forall|j: int| 0 <= j < §i§ ==> (#[trigger] self.ws@[j]).count == mid.ws@[j].count + 1
                            && self.ws@[j].acc.contents() == mid.ws@[j].acc.contents().push(§item§)
                            && self.ws@[j].ts == opt_max(mid.ws@[j].ts, §ts§),
    ''')
    pr.insert_before(re.compile(r'for \w+ in 0\.\.\w+'), r'''proof {
                    assert forall|j: int| 0 <= j < mid.ws@.len() implies (#[trigger] mid.ws@[j]).count < self.size by {
                        assert(mid.slot_ok(j));
                    }
                }
                ''')
    pr.insert_before('if self.ws[0].count', r'''let ghost upd = *self;
                proof {
                    let c = mid.cur();
                    let c2 = c.push(§item§);
                    let sl = self.slide as int;
                    assert(mid.slot_ok(0));
                    assert(mid.ws@[0].count == c.len());
                    assert(§k§ == c.len() as int / sl + 1);
                    assert(upd.ws@[0].acc.contents() == mid.ws@[0].acc.contents().push(§item§));
                    assert(upd.cur() =~= c2);
                    assert forall|j: int| 0 <= j < upd.ws@.len() implies #[trigger] upd.slot_ok(j) by {
                        assert(mid.slot_ok(j));
                        lemma_le_div(j, c.len() as int, sl);
                        assert(j * sl >= 0) by (nonlinear_arith) requires j >= 0, sl >= 1;
                        if j < §k§ {
                            assert(j * sl <= c.len());
                            assert(upd.ws@[j].acc.contents() == mid.ws@[j].acc.contents().push(§item§));
                            assert(c.skip(j * sl).push(§item§) =~= c2.skip(j * sl));
                        } else {
                            assert(upd.ws@[j] == mid.ws@[j]);
                            assert(j * sl > c.len());
                            assert(j * sl >= c2.len());
                        }
                    }
                }
                ''')
    pr.insert_after(re.compile(r'let \w+(?:\s*:\s*[^=;]+)? = self\s*\.ws\s*\.pop_front\(\)\s*\.unwrap\(\);'), r'''
                    proof {
                        let c2 = upd.cur();
                        let sl = self.slide as int;
                        let m = sp_n_slots(self.size as int, sl);
                        lemma_slots(self.size as int, sl);
                        assert(self.ws@ =~= upd.ws@.skip(1));
                        assert(upd.slot_ok(0));
                        assert(c2.len() == self.size);   // #obl:process.fires_only_a_full_window
                        if m > 1 {
                            assert(upd.slot_ok(1));
                            assert(1 * sl == sl) by (nonlinear_arith);
                            assert(self.cur() =~= c2.skip(sl));
                        } else {
                            assert(m * sl == sl) by (nonlinear_arith) requires m == 1;
                            assert(c2.skip(sl) =~= Seq::<A::In>::empty());
                        }
                        assert forall|j: int| 0 <= j < self.ws@.len() implies #[trigger] self.slot_ok(j) by {
                            assert(upd.slot_ok(j + 1));
                            lemma_succ_mul(j, sl);
                            assert(j * sl >= 0) by (nonlinear_arith) requires j >= 0, sl >= 1;
                            if (j + 1) * sl <= c2.len() {
                                assert(c2.skip(sl).skip(j * sl) =~= c2.skip((j + 1) * sl));
                            }
                        }
                        lemma_succ_mul(m - 1, sl);
                    }''')
    hdr = "impl<A: WindowAccumulator> CountWindowManager<A>\nwhere\n    A::In: Data,\n    A::Out: Data,\n{"
    pieces += [SPEC_IMPL, hdr, pr, "}", HISTORY_LEMMA]
    return pieces
