"""C02 / C16 / C18 — Batcher::{enqueue, flush, end} and NetworkMessage::{new_single,new_batch,sender}
(src/block/batcher.rs, src/network/mod.rs) against the view equation  all = sent ++ pending."""
import os, re, sys
sys.path.insert(0, os.path.dirname(os.path.dirname(__file__)))
import std_specs as S
import shared as SH

PROPERTIES = ["C02", "C16", "C18"]
MIN_VERIFIED = 8
FB = 'src/block/batcher.rs'
FN = 'src/network/mod.rs'
FO = 'src/operator/mod.rs'

ASSUMPTIONS = [
    "R-CHAN (environment contract): NetworkSender::send appends the message to the link's FIFO log and succeeds (receiver alive); the channel's interior mutability is modelled as `&mut self` on the sender handle",
    "R-CLOCK: `self.last_send.elapsed() > max_delay.into()` is replaced by an arbitrary boolean and Instant::now() by an arbitrary instant (every timing is explored)",
    "NonZeroUsize modelled as an opaque type whose get() returns a fixed value > 0; std::time::Duration as an opaque Copy type",
    "Vec::capacity returns some value >= len (assume_specification); Vec::with_capacity / mem::swap as specified by vstd",
]

PRELUDE = r'''
type BlockId = u64; type HostId = u64; type ReplicaId = u64; type Timestamp = i64;
trait ExchangeData: Clone + Send + 'static {}

// models of std::time::Duration (opaque) and std::num::NonZeroUsize (get() > 0)
#[verifier::external_body]
#[derive(Clone, Copy)]
struct Duration {}
#[verifier::external_body]
#[derive(Clone, Copy)]
struct NonZeroUsize {}
impl NonZeroUsize {
    uninterp spec fn val(&self) -> usize;
    #[verifier::external_body]
    fn get(self) -> (r: usize) ensures r > 0, r == self.val() { unimplemented!() }
}

// ---- R-CLOCK: the clock is any value
#[verifier::external_body]
struct Instant {}
impl Instant {
    #[verifier::external_body]
    fn now() -> Instant { unimplemented!() }
}
uninterp spec fn timed_out(last_send: Instant, max_delay: Duration) -> bool;
#[verifier::external_body]
fn clock_timeout_elapsed(last_send: &Instant, max_delay: Duration) -> (r: bool)
    ensures r == timed_out(*last_send, max_delay)
{ unimplemented!() }

// ---- R-CHAN: a link is a FIFO log of messages
#[verifier::external_body]
#[verifier::reject_recursive_types(Out)]
struct NetworkSender<Out> { _p: std::marker::PhantomData<Out> }
#[verifier::external_body]
#[derive(Debug)]
struct SendError {}
impl<Out> NetworkSender<Out> {
    uninterp spec fn log(&self) -> Seq<NetworkMessage<Out>>;
    #[verifier::external_body]
    fn send(&mut self, message: NetworkMessage<Out>) -> (r: Result<(), SendError>)
        ensures final(self).log() == old(self).log().push(message), r is Ok
    { unimplemented!() }
}

spec fn msg_data<T>(m: NetworkMessage<T>) -> Seq<StreamElement<T>> {
    match m.data { NetworkData::Batch(v) => v@ }
}
// concatenation of the batches of a link log = the element sequence the receiver iterates
spec fn flat<T>(log: Seq<NetworkMessage<T>>) -> Seq<StreamElement<T>>
    decreases log.len()
{
    if log.len() == 0 { Seq::empty() } else { flat(log.drop_last()) + msg_data(log.last()) }
}
proof fn lemma_flat_push<T>(log: Seq<NetworkMessage<T>>, m: NetworkMessage<T>)
    ensures flat(log.push(m)) == flat(log) + msg_data(m)
{
    assert(log.push(m).drop_last() =~= log);
}
spec fn all_from<T>(log: Seq<NetworkMessage<T>>, c: Coord) -> bool {
    forall|i: int| 0 <= i < log.len() ==> (#[trigger] log[i]).sender == c && msg_data(log[i]).len() > 0
}
'''

SPEC_IMPL = r'''
impl<Out: ExchangeData> Batcher<Out> {
    spec fn sent(&self) -> Seq<StreamElement<Out>> { flat(self.remote_sender.log()) }
    // the abstract view: everything ever enqueued, in order
    spec fn all(&self) -> Seq<StreamElement<Out>> { self.sent() + self.buffer@ }
    spec fn pending(&self) -> nat { self.buffer@.len() }
    spec fn same_link(&self, o: &Self) -> bool { self.coord == o.coord && self.mode == o.mode }
    // the log grew by at most one message, which is a whole batch stamped with this block's coordinate
    spec fn log_step(&self, o: &Self) -> bool {
        self.remote_sender.log() == o.remote_sender.log()
        || (self.remote_sender.log().len() == o.remote_sender.log().len() + 1
            && self.remote_sender.log().drop_last() =~= o.remote_sender.log()
            && self.remote_sender.log().last().sender == o.coord
            && msg_data(self.remote_sender.log().last()).len() > 0)
    }
}
'''

def build(x):
    pieces = [S.VEC_CAPACITY, S.MEM_REPLACE, PRELUDE]
    se = x.enum(FO, 'StreamElement')
    pieces.append(se)
    pieces += SH.stream_element_inspectors(x)
    c = x.struct(FN, 'Coord'); c.text = '#[derive(Clone, Copy)]\n' + c.text
    pieces += [c, x.enum(FN, 'NetworkData'), x.struct(FN, 'NetworkMessage')]
    ns = x.method(FN, 'NetworkMessage', 'new_single'); ns.name_result('r')
    ns.add_spec("        ensures r.sender == sender, msg_data(r) == seq![data], // #obl:message.new_single")
    nb = x.method(FN, 'NetworkMessage', 'new_batch'); nb.name_result('r')
    nb.add_spec("        ensures r.sender == sender, msg_data(r) == data@, // #obl:message.new_batch")
    sd = x.method(FN, 'NetworkMessage', 'sender'); sd.name_result('r')
    sd.add_spec("        ensures r == self.sender, // #obl:message.sender")
    pieces += ["impl<T> NetworkMessage<T> {", ns, nb, sd, "}"]
    bm = x.enum(FB, 'BatchMode'); bm.text = '#[derive(Clone, Copy)]\n' + bm.text
    bs = x.struct(FB, 'Batcher'); bs.text = '#[verifier::reject_recursive_types(Out)]\n' + bs.text
    ms = x.method(FB, 'BatchMode', 'max_size'); ms.name_result('r')
    ms.add_spec('''        ensures (self matches BatchMode::Fixed(n) ==> r == n.val()), (self matches BatchMode::Adaptive(n, _) ==> r == n.val()), self is Single ==> r == 1,   // #obl:batch_mode.max_size_is_the_configured_size
''')
    iv = x.method(FB, 'BatchMode', 'interval'); iv.name_result('r')
    iv.add_spec('''        ensures (self matches BatchMode::Adaptive(_, d) ==> r == Some(*d)), !(self is Adaptive) ==> r is None,   // #obl:batch_mode.only_adaptive_batching_has_a_flush_delay
''')
    pieces += [bm, "impl BatchMode {", ms, iv, "}", bs, SPEC_IMPL]

    enq = x.method(FB, 'Batcher', 'enqueue')
    enq.replace_exact('V-SUBST', 'self.last_send.elapsed() > max_delay.into()', 'clock_timeout_elapsed(&self.last_send, max_delay)',
                      detail='R-CLOCK: elapsed-time comparison replaced by an arbitrary boolean')
    enq.add_spec('''        requires old(self).mode is Single ==> old(self).buffer@.len() == 0,
            old(self).buffer@.len() < usize::MAX,
        ensures ''' + SH.BATCHER_ENQUEUE_ENSURES + ''',                       // #obl:enqueue.view_appends_exactly_the_element
            final(self).same_link(old(self)),                                   // #obl:enqueue.link_frame
            final(self).log_step(old(self)),                                    // #obl:enqueue.sends_whole_batches_only
            final(self).mode is Single ==> final(self).buffer@.len() == 0,      // #obl:enqueue.single_mode_never_buffers
            // C18: no withholding - a full batch or an expired delay flushes everything pending
            (old(self).mode matches BatchMode::Fixed(n) ==> final(self).buffer@.len() < n.val() || final(self).buffer@.len() == 0),       // #obl:enqueue.fixed_flushes_full_batch
            (old(self).mode matches BatchMode::Adaptive(n, d) ==> final(self).buffer@.len() < n.val() || final(self).buffer@.len() == 0), // #obl:enqueue.adaptive_flushes_full_batch
            (old(self).mode matches BatchMode::Adaptive(n, d) ==> (timed_out(old(self).last_send, d) ==> final(self).buffer@.len() == 0)), // #obl:enqueue.adaptive_flushes_on_timeout
''')
    _m = re.search(r'self\.remote_sender\.send\((\w+)\)\.unwrap\(\);', enq.text)
    _n = _m.group(1) if _m else 'message'
    enq.insert_before(re.compile(r'self\.remote_sender\.send\(\w+\)\.unwrap\(\);'), 'proof { lemma_flat_push(self.remote_sender.log(), ' + _n + '); }\n                ')
    fl = x.method(FB, 'Batcher', 'flush')
    fl.add_spec('''        ensures ''' + SH.BATCHER_FLUSH_ENSURES + ''',           // #obl:flush.sends_everything_pending_in_order
            final(self).same_link(old(self)),                                   // #obl:flush.link_frame
            final(self).log_step(old(self)),                                    // #obl:flush.one_whole_batch
''')
    _m = re.search(r'self\.remote_sender\.send\((\w+)\)\.unwrap\(\);', fl.text)
    _n = _m.group(1) if _m else 'message'
    fl.insert_before(re.compile(r'self\.remote_sender\.send\(\w+\)\.unwrap\(\);'), 'proof { lemma_flat_push(self.remote_sender.log(), ' + _n + '); }\n            ')
    en = x.method(FB, 'Batcher', 'end')
    en.sub('V-SUBST', r'\bself\.', 'self_.', detail='alpha-renaming after `let mut self_ = self;` so that the R-CHAN model of send (&mut self) applies (Verus: no `mut self`)')
    en.insert_at_body_start('\n        let mut self_ = self;\n        let ghost all0 = self_.all();\n')
    _m = re.search(r'self_\.remote_sender\.send\((\w+)\)\.unwrap\(\);', en.text)
    _n = _m.group(1) if _m else 'message'
    en.insert_before(re.compile(r'self_\.remote_sender\.send\(\w+\)\.unwrap\(\);'), 'proof { lemma_flat_push(self_.remote_sender.log(), ' + _n + '); }\n            ')
    # the effect of `end` (self is consumed) is stated as an obligation at the end of its body
    src = en.text
    last = src.rstrip().rfind('}')
    en.text = src[:last] + '        assert(flat(self_.remote_sender.log()) == all0);   // #obl:end.everything_sent_in_order\n    ' + src[last:]
    en.note('V-SPEC', 1, 'final ghost assertion (the postcondition of a consuming method)')
    pieces += ["impl<Out: ExchangeData> Batcher<Out> {", enq, fl, en, "}"]
    return pieces
