"""C15 (CSV source) — the byte-range computation of CsvSource::setup (src/operator/source/csv.rs): replica g of n reads the
records that start in [start_g, end_g); start_0 is the end of the header, end_{n-1} the file size, and end_g == start_{g+1}:
every record belongs to exactly one replica, whatever the file size (also when the body is shorter than the number of
replicas)."""
import os, re, sys
sys.path.insert(0, os.path.dirname(os.path.dirname(__file__)))
import std_specs as S

PROPERTIES = ["C15"]
MIN_VERIFIED = 2
F = 'src/operator/source/csv.rs'
ASSUMPTIONS = [
    "V-BLOCK: the statements of CsvSource::setup from `// Calculate start and end offset of this replica` up to `// Rewind BufReader to the start` are extracted byte for byte and wrapped in fn csv_range(buf_reader, file_size, header_size, instances, global_id, last_byte_terminator) -> (start, end); opening the file, reading the header (header_size = length of the first record), and the csv::Reader built afterwards over [start, end) are NOT under contract",
    "a record is a terminator-delimited segment of the file (quoted terminators inside fields are not modelled: the code has the same limitation)",
    "model of io::BufReader over a fixed byte content (as in unit file_source): read_until(t) returns the bytes from the cursor up to and including the next t (or to EOF); seek(Start(k)) sets the cursor; both succeed (an I/O error panics: fail-stop)",
    "file size < 2^62; usize is 64 bit",
]
PRELUDE = r'''
global size_of usize == 8;
type CoordUInt = u64;
#[derive(Debug)]
#[verifier::external_body]
struct IoError {}
// length of the record starting at pos: up to and including the next terminator t, or to the end of the file
spec fn seg_len(c: Seq<u8>, t: u8, pos: int) -> nat
    decreases c.len() - pos
{
    if pos < 0 || pos >= c.len() { 0 } else if c[pos] == t { 1 } else { 1 + seg_len(c, t, pos + 1) }
}
proof fn lemma_seg_bound(c: Seq<u8>, t: u8, pos: int)
    requires 0 <= pos,
    ensures pos + seg_len(c, t, pos) <= (if pos <= c.len() { c.len() as int } else { pos }),
    decreases c.len() - pos
{
    if pos < c.len() && c[pos] != t { lemma_seg_bound(c, t, pos + 1); }
}
enum SeekFrom { Start(u64) }
#[verifier::external_body]
struct BufReader {}
impl BufReader {
    uninterp spec fn content(&self) -> Seq<u8>;
    uninterp spec fn pos(&self) -> int;
    #[verifier::external_body]
    fn seek(&mut self, s: SeekFrom) -> (r: Result<u64, IoError>)
        ensures r is Ok, final(self).content() == old(self).content(), (s matches SeekFrom::Start(k) ==> final(self).pos() == k)
    { unimplemented!() }
    #[verifier::external_body]
    fn read_until(&mut self, delim: u8, buf: &mut Vec<u8>) -> (r: Result<usize, IoError>)
        requires 0 <= old(self).pos(),
        ensures r is Ok, final(self).content() == old(self).content(),
                r->Ok_0 == seg_len(old(self).content(), delim, old(self).pos()), final(self).pos() == old(self).pos() + r->Ok_0,
    { unimplemented!() }
}
// nominal range boundary of replica g (before alignment to a record start)
spec fn cut(size: int, header: int, n: int, g: int) -> int { header + ((size - header) / n) * g }
// aligned boundary: the start of the first record that begins after the byte at cut (the record containing that byte is skipped)
spec fn aligned(c: Seq<u8>, t: u8, p: int) -> int { p + seg_len(c, t, p) }
spec fn start_of(c: Seq<u8>, t: u8, header: int, n: int, g: int) -> int {
    if g == 0 { header } else { aligned(c, t, cut(c.len() as int, header, n, g)) }
}
spec fn end_of(c: Seq<u8>, t: u8, header: int, n: int, g: int) -> int {
    if g == n - 1 { c.len() as int } else { aligned(c, t, cut(c.len() as int, header, n, g + 1)) }
}
// C15: the replicas' ranges tile [header, size): consecutive, first starts right after the header, last ends at the file size
proof fn lemma_csv_ranges_tile(c: Seq<u8>, t: u8, header: int, n: int, g: int)
    requires n >= 1, 0 <= g < n, 0 <= header <= c.len(),
    ensures
        start_of(c, t, header, n, 0) == header,                                         // #obl:csv_ranges.first_starts_after_the_header
        end_of(c, t, header, n, n - 1) == c.len(),                                      // #obl:csv_ranges.last_ends_at_file_size
        g < n - 1 ==> end_of(c, t, header, n, g) == start_of(c, t, header, n, g + 1),   // #obl:csv_ranges.consecutive_without_gap_or_overlap
{
}
'''
SPEC = r'''
        requires
            old(buf_reader).content().len() == file_size, file_size < 0x4000_0000_0000_0000,
            header_size <= file_size, instances >= 1, global_id < instances,
        ensures
            final(buf_reader).content() == old(buf_reader).content(),
            r.0 == start_of(old(buf_reader).content(), last_byte_terminator, header_size as int, instances as int, global_id as int),   // #obl:csv_setup.range_starts_at_the_first_record_after_the_cut
            r.1 == end_of(old(buf_reader).content(), last_byte_terminator, header_size as int, instances as int, global_id as int),     // #obl:csv_setup.range_ends_where_the_next_replica_starts
'''


def build(x):
    run = x.stmts(F, 'CsvSource', 'setup', r'let body_size(?:\s*:\s*u64)? = ', r'buf_reader\s*\.seek\(SeekFrom::Start\(start\)\)\s*\.expect\("Error while rewinding', trait='Operator')
    run.sub('V-SUBST', r'\.expect\("[^"]*"\)', '.unwrap()', detail='.expect(msg) -> .unwrap()')
    run.text = ("fn csv_range(buf_reader: &mut BufReader, file_size: u64, header_size: u64, instances: usize, global_id: CoordUInt, last_byte_terminator: u8) -> (r: (u64, u64))\n"
                + SPEC + "{\n        let ghost c = buf_reader.content(); let ghost t = last_byte_terminator;\n"
                "        proof {\n"
                "            let q = (file_size - header_size) as int / (instances as int);\n"
                "            vstd::arithmetic::div_mod::lemma_fundamental_div_mod((file_size - header_size) as int, instances as int);\n"
                "            vstd::arithmetic::div_mod::lemma_mod_bound((file_size - header_size) as int, instances as int);\n"
                "            assert(q >= 0) by (nonlinear_arith) requires (instances as int) * q + ((file_size - header_size) as int) % (instances as int) == (file_size - header_size) as int, 0 <= ((file_size - header_size) as int) % (instances as int) < instances as int, file_size - header_size >= 0, instances >= 1;\n"
                "            assert(q * (global_id as int) >= 0 && q * (global_id as int) + q <= q * (instances as int)) by (nonlinear_arith) requires q >= 0, 0 <= global_id as int, (global_id as int) + 1 <= instances as int;\n"
                "            assert(q * (instances as int) == (instances as int) * q) by (nonlinear_arith);\n"
                "            assert(q * ((global_id as int) + 1) == q * (global_id as int) + q) by (nonlinear_arith);\n"
                "            lemma_seg_bound(c, t, header_size as int + q * (global_id as int));\n"
                "            lemma_seg_bound(c, t, header_size as int + q * (global_id as int) + q);\n"
                "        }\n"
                + run.text + "        (start, end)\n}\n")
    return [S.RUST_PANIC, PRELUDE, run]
